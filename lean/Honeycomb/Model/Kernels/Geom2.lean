/-
  2-D geometry used by the kernels (`honeycomb-core/src/geometry/dim2/{vertex,vector}.rs`) on exact
  rationals.  The driver stores 2-D vertices as `Val.pt x y 0`.

  Rust (`T = f64`, coordinates small dyadic numbers, so `+ − ×` are exact)      model
  ------------------------------------------------------------------------      -----
  Vertex2(x, y)                                                                 P2
  Vertex2::cross_product_from_vertices(v1, v2, v3)                              cross
  Vertex2::average                                                              P2.avg
  v1 + (v2 - v1) * t                                                            P2.lerp
  T::signum (sign *bit*: `(+0.0).signum() = 1`, `(-0.0).signum() = -1`)         signumF
  T::epsilon() = 2^-52                                                          eps

  Signed zero: the only place where `-0.0` is observable is `signum` of a vanishing cross product
  (fan star search).  With inputs that are never `-0.0` (the drivers never produce one: parsed
  integers/fractions, averages and interpolations of such), a difference `a - b` is `+0.0` when it
  vanishes, a product is `-0.0` iff one factor is `+0.0` and the other negative, and `p - q` is
  `-0.0` iff `p = -0.0` and `q = +0.0`.  `crossNegZero` computes exactly that.
-/
import Honeycomb.Model.Val

namespace HC

structure P2 where
  x : Rat
  y : Rat
  deriving DecidableEq, Repr, Inhabited

/-- the point stored in a vertex slot (attribute terms never live in storage 0) -/
def Val.p2 : Val → P2
  | .pt x y _ => ⟨x, y⟩
  | .tm _ => ⟨0, 0⟩

def P2.toVal (p : P2) : Val := .pt p.x p.y 0

/-- `Vertex2::cross_product_from_vertices`: `(v2 - v1) × (v3 - v2)` -/
def cross (v1 v2 v3 : P2) : Rat :=
  (v2.x - v1.x) * (v3.y - v2.y) - (v2.y - v1.y) * (v3.x - v2.x)

/-- is the f64 product `a * b` (factors never `-0.0`) equal to `-0.0`? -/
def prodNegZero (a b : Rat) : Bool := (a = 0 && decide (b < 0)) || (b = 0 && decide (a < 0))

/-- is the f64 value of `cross v1 v2 v3` equal to `-0.0`? (see the header) -/
def crossNegZero (v1 v2 v3 : P2) : Bool :=
  let a := v2.x - v1.x
  let b := v3.y - v2.y
  let c := v2.y - v1.y
  let d := v3.x - v2.x
  prodNegZero a b && (c = 0 || d = 0) && !prodNegZero c d

/-- `f64::signum` of a value `c` whose zero carries the sign `negZero` -/
def signumF (c : Rat) (negZero : Bool) : Int :=
  if c > 0 then 1 else if c < 0 then -1 else if negZero then -1 else 1

/-- `cross_product_from_vertices(..).signum()` -/
def crossSignum (v1 v2 v3 : P2) : Int := signumF (cross v1 v2 v3) (crossNegZero v1 v2 v3)

/-- `f64::EPSILON` -/
def eps : Rat := 1 / 4503599627370496

def ratAbs (q : Rat) : Rat := if q < 0 then -q else q

/-- `Vertex2::average` -/
def P2.avg (a b : P2) : P2 := ⟨(a.x + b.x) / 2, (a.y + b.y) / 2⟩

/-- `v1 + (v2 - v1) * t` -/
def P2.lerp (a b : P2) (t : Rat) : P2 := ⟨a.x + (b.x - a.x) * t, a.y + (b.y - a.y) * t⟩

/-- `midpoint_vertex.map_or(Vertex2::average(&v1, &v2), |t| v1 + seg * t)` -/
def P2.place (a b : P2) (t : Option Rat) : P2 :=
  match t with
  | none => P2.avg a b
  | some t => P2.lerp a b t

/-- `AttrSparseVec::write` = `TVar::replace`: read, then write; returns the old value -/
def writeVtx (d : Nat) (v : Val) : P Val (Option Val) := do
  let old ← rA 0 d
  wA 0 d (some v)
  pure old

end HC
