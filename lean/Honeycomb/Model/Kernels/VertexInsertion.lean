/-
  `honeycomb-kernels/src/cell_insertion/vertices.rs`: `insert_vertex_on_edge`,
  `insert_vertices_on_edge`, composed from the core operations exactly as the Rust composes them.

  The spare darts are tested with the private `is_free_transac` (β0, β1, β2 read through the
  transaction, short-circuit in that order) since /repo cc2bcd4; before, the kernels used the
  non-transactional `cmap.is_free` (finding D3, fixed).
-/
import Honeycomb.Model.Ops2
import Honeycomb.Model.Kernels.Geom2

namespace HC

def errVertexBound : Err := ⟨"VertexBound", []⟩
def errUndefinedEdge : Err := ⟨"UndefinedEdge", []⟩
/-- `InvalidDarts(&'static str)`: the message is kept (blanks replaced by `-`) -/
def errInvalidDarts (msg : String) : Err := ⟨"InvalidDarts " ++ msg, []⟩
def errWrongAmountDarts (expected got : Nat) : Err := ⟨"WrongAmountDarts", [expected, got]⟩

/-- `is_free_transac(cmap, trans, d)`: `β0(d) == 0 && β1(d) == 0 && β2(d) == 0`, short-circuit -/
def isFreeTx {X : Type} (d : Nat) : P X Bool := do
  let b0 ← rB 0 d
  if b0 ≠ 0 then pure false else
  let b1 ← rB 1 d
  if b1 ≠ 0 then pure false else
  let b2 ← rB 2 d
  pure (decide (b2 = 0))

/-- `d == NULL_DART_ID || !is_free_transac(cmap, trans, d)?` -/
def nullOrNotFreeTx {X : Type} (d : Nat) : P X Bool :=
  if d = 0 then pure true else do
    let f ← isFreeTx d
    pure (!f)

/-- `for d in new_darts { if !is_free_transac(cmap, trans, *d)? { abort(..) } }`: is some dart not free? -/
def anyNotFreeTx {X : Type} : List Nat → P X Bool
  | [] => pure false
  | d :: ds => do
      let f ← isFreeTx d
      if !f then pure true else anyNotFreeTx ds

/-- `if cond { op }` -/
def whenP {X : Type} (cond : Bool) (p : P X Unit) : P X Unit := if cond then p else pure ()

def outOfUnit (t : Rat) : Bool := decide (t ≥ 1) || decide (t ≤ 0)

/-- `midpoint_vertex.is_some_and(|t| (t >= T::one()) | (t <= T::zero()))` -/
def optOutOfUnit (t : Option Rat) : Bool :=
  match t with
  | some t => outOfUnit t
  | none => false

/-- the interpolated vertex written by the kernels -/
def placeVal (v1 v2 : Val) (t : Option Rat) : Val := (P2.place v1.p2 v2.p2 t).toVal

/-- the editing part of `insert_vertex_on_edge` on a one-dart edge (after validation and reads) -/
def insertVertexBody1 (n : Nat) (v1 v2 : Val) (base1 b1d1_old nd1 : Nat) (t : Option Rat) : P Val Unit := do
  whenP (b1d1_old ≠ 0) (oneUnlinkCore base1)
  oneLinkCore base1 nd1
  oneLinkCore nd1 b1d1_old
  let vnew ← vertexId2 n nd1
  let _ ← writeVtx vnew (placeVal v1 v2 t)
  pure ()

/-- the editing part of `insert_vertex_on_edge` on a two-dart edge -/
def insertVertexBody2 (n : Nat) (v1 v2 : Val) (base1 base2 b1d1_old b1d2_old nd1 nd2 : Nat) (t : Option Rat) :
    P Val Unit := do
  whenP (b1d1_old ≠ 0) (oneUnlinkCore base1)
  whenP (b1d2_old ≠ 0) (oneUnlinkCore base2)
  iUnlinkCore 2 base1
  oneLinkCore base1 nd1
  whenP (b1d1_old ≠ 0) (oneLinkCore nd1 b1d1_old)
  oneLinkCore base2 nd2
  whenP (b1d2_old ≠ 0) (oneLinkCore nd2 b1d2_old)
  iLinkCore 2 base1 nd2
  iLinkCore 2 base2 nd1
  let vnew ← vertexId2 n nd1
  let _ ← writeVtx vnew (placeVal v1 v2 t)
  pure ()

/-- `match (read_vertex(vid1)?, read_vertex(vid2)?) { (Some, Some) => …, _ => abort(UndefinedEdge) }` -/
def withEnds {α : Type} (v1 v2 : Option Val) (k : Val → Val → P Val α) : P Val α :=
  match v1, v2 with
  | some v1, some v2 => k v1 v2
  | _, _ => abort errUndefinedEdge

/-- `insert_vertex_on_edge(cmap, trans, edge_id, (nd1, nd2), midpoint_vertex)` -/
def insertVertexOnEdge (n : Nat) (e nd1 nd2 : Nat) (t : Option Rat) : P Val Unit := do
  if optOutOfUnit t then abort errVertexBound else
  let base1 := e
  let base2 ← rB 2 base1
  let bad1 ← nullOrNotFreeTx nd1
  if bad1 then abort (errInvalidDarts "first-dart-is-null-or-not-free") else
  let bad2 ← (if base2 ≠ 0 then nullOrNotFreeTx nd2 else pure false)
  if bad2 then abort (errInvalidDarts "second-dart-is-null-or-not-free") else
  let base2 ← rB 2 base1
  if base2 = 0 then do
    let b1d1_old ← rB 1 base1
    let vid1 ← vertexId2 n base1
    let vid2 ← vertexId2 n b1d1_old
    let v1 ← rA 0 vid1
    let v2 ← rA 0 vid2
    withEnds v1 v2 fun v1 v2 => insertVertexBody1 n v1 v2 base1 b1d1_old nd1 t
  else do
    let b1d1_old ← rB 1 base1
    let b1d2_old ← rB 1 base2
    let vid1 ← vertexId2 n base1
    let vid2 ← vertexId2 n base2
    let v1 ← rA 0 vid1
    let v2 ← rA 0 vid2
    withEnds v1 v2 fun v1 v2 => insertVertexBody2 n v1 v2 base1 base2 b1d1_old b1d2_old nd1 nd2 t

/-- first side: `for &new_d in darts_fh { link::<1>(prev, new_d); prev = new_d }` -/
def chainFirst : Nat → List Nat → P Val Nat
  | prev, [] => pure prev
  | prev, nd :: rest => do
      oneLinkCore prev nd
      chainFirst nd rest

/-- `for (&t, &new_d) in ts.zip(darts_fh) { vid = vertex_id_transac(new_d); write_vertex(vid, v1 + seg * t) }` -/
def placeVertices (n : Nat) (v1 v2 : Val) : List (Rat × Nat) → P Val Unit
  | [] => pure ()
  | (t, nd) :: rest => do
      let vid ← vertexId2 n nd
      let _ ← writeVtx vid (placeVal v1 v2 (some t))
      placeVertices n v1 v2 rest

/-- second side: `for (d, new_d) in darts_fh.rev().zip(darts_sh) { link::<2>(prev, d); link::<1>(prev, new_d); prev = new_d }` -/
def chainSecond : Nat → List (Nat × Nat) → P Val Nat
  | prev, [] => pure prev
  | prev, (d, nd) :: rest => do
      iLinkCore 2 prev d
      oneLinkCore prev nd
      chainSecond nd rest

/-- the second side of `insert_vertices_on_edge` (`if base_dart2 != NULL_DART_ID { … }`) -/
def insertVerticesSide2 (base1 base2 : Nat) (fh sh : List Nat) : P Val Unit := do
  let b1d2_old ← rB 1 base2
  whenP (b1d2_old ≠ 0) (oneUnlinkCore base2)
  let prev ← chainSecond base2 (fh.reverse.zip sh)
  whenP (b1d2_old ≠ 0) (oneLinkCore prev b1d2_old)
  iLinkCore 2 prev base1

/-- the editing part of `insert_vertices_on_edge` (after validation and reads) -/
def insertVerticesBody (n : Nat) (v1 v2 : Val) (base1 base2 b1d1_old : Nat) (fh sh : List Nat) (ts : List Rat) :
    P Val Unit := do
  whenP (b1d1_old ≠ 0) (oneUnlinkCore base1)
  whenP (base2 ≠ 0) (iUnlinkCore 2 base1)
  let prev ← chainFirst base1 fh
  whenP (b1d1_old ≠ 0) (oneLinkCore prev b1d1_old)
  whenP (base2 ≠ 0) (insertVerticesSide2 base1 base2 fh sh)
  -- the new points, under their vertex identifiers, once both sides are linked
  placeVertices n v1 v2 (ts.zip fh)

/-- the dart whose vertex is the second end point:
    `if b1d1_old != 0 { b1d1_old } else if base_dart2 != 0 { base_dart2 } else { abort(UndefinedEdge)? }` -/
def secondEnd (b1d1_old base2 : Nat) : P Val Nat :=
  if b1d1_old ≠ 0 then pure b1d1_old
  else if base2 ≠ 0 then pure base2
  else abort errUndefinedEdge

/-- `insert_vertices_on_edge(cmap, trans, edge_id, new_darts, midpoint_vertices)` -/
def insertVerticesOnEdge (n : Nat) (e : Nat) (nds : List Nat) (ts : List Rat) : P Val Unit := do
  let nt := ts.length
  let nd := nds.length
  if nd ≠ 2 * nt then abort (errWrongAmountDarts (2 * nt) nd) else
  let notFree ← anyNotFreeTx nds
  if notFree then abort (errInvalidDarts "one-dart-is-not-free") else
  let fh := nds.take nt
  let sh := nds.drop nt
  let base1 := e
  let base2 ← rB 2 base1
  if fh.any (· = 0) then abort (errInvalidDarts "one-dart-of-the-first-half-is-null") else
  if base2 ≠ 0 && sh.any (· = 0) then abort (errInvalidDarts "one-dart-of-the-second-half-is-null") else
  if ts.any outOfUnit then abort errVertexBound else
  let base2 ← rB 2 base1
  let b1d1_old ← rB 1 base1
  let vid1 ← vertexId2 n base1
  let tgt ← secondEnd b1d1_old base2
  let vid2 ← vertexId2 n tgt
  let v1 ← rA 0 vid1
  let v2 ← rA 0 vid2
  withEnds v1 v2 fun v1 v2 => insertVerticesBody n v1 v2 base1 base2 b1d1_old fh sh ts

end HC
