/-
  `honeycomb-kernels/src/triangulation/ear_clipping.rs`: `earclip_cell_countercw`,
  `earclip_cell_cw` (both `process_cell` with a different orientation test).
-/
import Honeycomb.Model.Kernels.Fan

namespace HC

/-- `is_inside_fn` of the two public entry points -/
def insideCCW (v1 v2 v3 : P2) : Bool := decide (cross v1 v2 v3 > 0)
def insideCW (v1 v2 v3 : P2) : Bool := decide (cross v1 v2 v3 < 0)

/-- the `.all(..)` body: `v` is strictly outside the triangle (some cross product positive and some
    negative) -/
def strictlyOutside (v1 v2 v3 v : P2) : Bool :=
  let s12 := cross v1 v2 v
  let s23 := cross v2 v3 v
  let s31 := cross v3 v1 v
  let hasPos := decide (s12 > 0) || decide (s23 > 0) || decide (s31 > 0)
  let hasNeg := decide (s12 < 0) || decide (s23 < 0) || decide (s31 < 0)
  hasPos && hasNeg

/-- the closure of `(0..n).find(..)`: is `(v[idx], v[idx+1], v[idx+2])` an ear? -/
def earTest (inside : P2 → P2 → P2 → Bool) (vs : List P2) (idx : Nat) : Bool :=
  let n := vs.length
  let v1 := vs.getD idx default
  let v2 := vs.getD ((idx + 1) % n) default
  let v3 := vs.getD ((idx + 2) % n) default
  let isInside := inside v1 v2 v3
  let noOverlap := (vs.filter (fun v => v ≠ v1 && v ≠ v2 && v ≠ v3)).all (strictlyOutside v1 v2 v3)
  isInside && noOverlap

def findEar (inside : P2 → P2 → P2 → Bool) (vs : List P2) : Option Nat :=
  (List.range vs.length).find? (earTest inside vs)

/-- `Vec::swap_remove(i)` (for `i < len`) -/
def swapRemove (l : List Nat) (i : Nat) : List Nat := (l.set i (l.getLastD 0)).dropLast

/-- `darts.remove((ear + 1) % n); darts.push(nd2); darts.swap_remove(ear);` -/
def dartSurgery (darts : List Nat) (ear nd2 : Nat) : List Nat :=
  let n := darts.length
  swapRemove ((darts.eraseIdx ((ear + 1) % n)) ++ [nd2]) ear

/-- the `for sl in new_darts.chunks_exact(2)` loop followed by `assert_eq!(n, 3)` -/
def earclipLoop (cfg : Cfg Val) (nn : Nat) (inside : P2 → P2 → P2 → Bool) :
    List (Nat × Nat) → List Nat → List P2 → P Val Unit
  | [], _, vs => if vs.length = 3 then pure () else Prog.panic
  | (nd1, nd2) :: rest, darts, vs =>
      match findEar inside vs with
      | none => abort errNoEar
      | some ear => do
          let n := vs.length
          let dEar1 := darts.getD ear 0
          let dEar2 := darts.getD ((ear + 1) % n) 0
          let b0e1 ← rB 0 dEar1
          let b1e2 ← rB 1 dEar2
          oneUnsew2 cfg nn b0e1
          oneUnsew2 cfg nn dEar2
          oneSew2 cfg nn dEar2 nd1
          oneSew2 cfg nn nd1 dEar1
          oneSew2 cfg nn b0e1 nd2
          oneSew2 cfg nn nd2 b1e2
          twoSew2 cfg nn nd1 nd2
          earclipLoop cfg nn inside rest (dartSurgery darts ear nd2) (vs.eraseIdx ((ear + 1) % n))

/-- `ear_clipping::process_cell` -/
def earclipCell (cfg : Cfg Val) (n : Nat) (inside : P2 → P2 → P2 → Bool) (face : Nat) (nds : List Nat) :
    P Val Unit := do
  let darts ← orbit2 n .faceLinear face
  let vs ← faceVertices n darts
  match checkRequirements darts.length nds.length with
  | .error e => abort e
  | .ok () => earclipLoop cfg n inside (chunks2 nds) darts (vs.map Val.p2)

def earclipCellCCW (cfg : Cfg Val) (n face : Nat) (nds : List Nat) : P Val Unit :=
  earclipCell cfg n insideCCW face nds

def earclipCellCW (cfg : Cfg Val) (n face : Nat) (nds : List Nat) : P Val Unit :=
  earclipCell cfg n insideCW face nds

end HC
