/-
  L1 — the state of a combinatorial map (2-D: 3 β rows, 3-D: 4 β rows) and its
  transactional variables.

  Rust                                   model
  ----                                   -----
  betas: Vec<[TVar<u32>; N]>             b : Array (Array Nat)   (row i = β_i, column = dart)
  unused_darts: Vec<TVar<bool>>          u : Array Bool
  vertices: AttrSparseVec<VertexN<T>>    a[0] : Array (Option X)       (storage 0)
  attributes: AttrStorageManager         a[1..] : Array (Option X)     (one per attribute kind)
  n_darts                                n
-/
import Honeycomb.Model.Basic
import Honeycomb.Model.Stm

namespace HC

/-- error values: the variant name of the Rust error enum and its dart payload -/
structure Err where
  tag : String
  args : List Nat := []
  deriving Repr, DecidableEq, Inhabited

structure Map (X : Type) where
  n : Nat
  b : Array (Array Nat)
  u : Array Bool
  a : Array (Array (Option X))
  /-- fault countdown of the *test attribute types* (thread-local in the harness, not a TVar):
      0 = disabled, k+1 = the (k+1)-th attribute-law call from now fails.  Only the C06 fault
      campaign sets it. -/
  fc : Nat := 0
  deriving Repr

inductive MVar where
  | b (i d : Nat)
  | u (d : Nat)
  | a (s d : Nat)
  | fc
  deriving DecidableEq, Repr

inductive MVal (X : Type) where
  | n (x : Nat)
  | f (x : Bool)
  | o (x : Option X)
  deriving Repr

namespace MVal
variable {X : Type}
def nat : MVal X → Nat | .n x => x | _ => 0
def bool : MVal X → Bool | .f x => x | _ => false
def opt : MVal X → Option X | .o x => x | _ => none
end MVal

namespace Map
variable {X : Type}

def β (m : Map X) (i d : Nat) : Nat := rd (rd m.b i) d
def setβ (m : Map X) (i d v : Nat) : Map X := { m with b := wr m.b i (wr (rd m.b i) d v) }
def okβ (m : Map X) (i d : Nat) : Bool := i < m.b.size && d < (rd m.b i).size

def unused (m : Map X) (d : Nat) : Bool := rd m.u d
def setU (m : Map X) (d : Nat) (v : Bool) : Map X := { m with u := wr m.u d v }
def okU (m : Map X) (d : Nat) : Bool := d < m.u.size

def att (m : Map X) (s d : Nat) : Option X := rd (rd m.a s) d
def setA (m : Map X) (s d : Nat) (v : Option X) : Map X :=
  { m with a := wr m.a s (wr (rd m.a s) d v) }
def okA (m : Map X) (s d : Nat) : Bool := s < m.a.size && d < (rd m.a s).size

/-! lens laws -/

theorem β_setβ (m : Map X) (i d v j e : Nat) :
    (m.setβ i d v).β j e = if i = j ∧ d = e ∧ m.okβ i d then v else m.β j e := by
  unfold β setβ okβ
  simp only [rd_wr]
  by_cases h1 : i = j
  · subst h1
    by_cases h2 : i < m.b.size
    · simp only [h2, and_self, if_true, rd_wr]
      by_cases h3 : d = e <;> simp [h3]
    · simp [h2]
  · simp [h1]

theorem okβ_setβ (m : Map X) (i d v j e : Nat) : (m.setβ i d v).okβ j e = m.okβ j e := by
  unfold setβ okβ
  simp only [size_wr, rd_wr]
  by_cases h1 : i = j ∧ i < m.b.size
  · obtain ⟨h1, h2⟩ := h1
    subst h1
    simp [h2, size_wr]
  · simp [h1]

theorem unused_setβ (m : Map X) (i d v e : Nat) : (m.setβ i d v).unused e = m.unused e := rfl
theorem okU_setβ (m : Map X) (i d v e : Nat) : (m.setβ i d v).okU e = m.okU e := rfl
theorem att_setβ (m : Map X) (i d v s e : Nat) : (m.setβ i d v).att s e = m.att s e := rfl
theorem okA_setβ (m : Map X) (i d v s e : Nat) : (m.setβ i d v).okA s e = m.okA s e := rfl
theorem n_setβ (m : Map X) (i d v : Nat) : (m.setβ i d v).n = m.n := rfl

theorem unused_setU (m : Map X) (d e : Nat) (v : Bool) :
    (m.setU d v).unused e = if d = e ∧ m.okU d then v else m.unused e := by
  unfold unused setU okU; simp [rd_wr]

theorem okU_setU (m : Map X) (d e : Nat) (v : Bool) : (m.setU d v).okU e = m.okU e := by
  unfold setU okU; simp [size_wr]

theorem β_setU (m : Map X) (d : Nat) (v : Bool) (j e : Nat) : (m.setU d v).β j e = m.β j e := rfl
theorem okβ_setU (m : Map X) (d : Nat) (v : Bool) (j e : Nat) : (m.setU d v).okβ j e = m.okβ j e := rfl
theorem att_setU (m : Map X) (d : Nat) (v : Bool) (s e : Nat) : (m.setU d v).att s e = m.att s e := rfl
theorem okA_setU (m : Map X) (d : Nat) (v : Bool) (s e : Nat) : (m.setU d v).okA s e = m.okA s e := rfl
theorem n_setU (m : Map X) (d : Nat) (v : Bool) : (m.setU d v).n = m.n := rfl

theorem att_setA (m : Map X) (s d : Nat) (v : Option X) (t e : Nat) :
    (m.setA s d v).att t e = if s = t ∧ d = e ∧ m.okA s d then v else m.att t e := by
  unfold att setA okA
  simp only [rd_wr]
  by_cases h1 : s = t
  · subst h1
    by_cases h2 : s < m.a.size
    · simp only [h2, and_self, if_true, rd_wr]
      by_cases h3 : d = e <;> simp [h3]
    · simp [h2]
  · simp [h1]

theorem okA_setA (m : Map X) (s d : Nat) (v : Option X) (t e : Nat) :
    (m.setA s d v).okA t e = m.okA t e := by
  unfold setA okA
  simp only [size_wr, rd_wr]
  by_cases h1 : s = t ∧ s < m.a.size
  · obtain ⟨h1, h2⟩ := h1
    subst h1
    simp [h2, size_wr]
  · simp [h1]

theorem β_setA (m : Map X) (s d : Nat) (v : Option X) (j e : Nat) : (m.setA s d v).β j e = m.β j e := rfl
theorem okβ_setA (m : Map X) (s d : Nat) (v : Option X) (j e : Nat) : (m.setA s d v).okβ j e = m.okβ j e := rfl
theorem unused_setA (m : Map X) (s d : Nat) (v : Option X) (e : Nat) : (m.setA s d v).unused e = m.unused e := rfl
theorem okU_setA (m : Map X) (s d : Nat) (v : Option X) (e : Nat) : (m.setA s d v).okU e = m.okU e := rfl
theorem n_setA (m : Map X) (s d : Nat) (v : Option X) : (m.setA s d v).n = m.n := rfl

end Map

instance {X : Type} : Store (Map X) MVar (MVal X) where
  sget m v := match v with
    | .b i d => .n (m.β i d)
    | .u d => .f (m.unused d)
    | .a s d => .o (m.att s d)
    | .fc => .n m.fc
  sset m v x := match v, x with
    | .b i d, .n y => m.setβ i d y
    | .u d, .f y => m.setU d y
    | .a s d, .o y => m.setA s d y
    | .fc, .n y => { m with fc := y }
    | _, _ => m
  svalid m v := match v with
    | .b i d => m.okβ i d
    | .u d => m.okU d
    | .a s d => m.okA s d
    | .fc => true
  styped _ v x := match v, x with
    | .b _ _, .n _ => true
    | .u _, .f _ => true
    | .a _ _, .o _ => true
    | .fc, .n _ => true
    | _, _ => false

/-- transactional closures over a map -/
abbrev P (X α : Type) := Prog MVar (MVal X) Err α

section Prim
variable {X α : Type}

/-- `self.betas[(i, d)].read(trans)?` -/
def rB (i d : Nat) : P X Nat := .read (.b i d) (fun x => .ret x.nat)
/-- `self.betas[(i, d)].write(trans, v)?` -/
def wB (i d v : Nat) : P X Unit := .write (.b i d) (.n v) (.ret ())
def rU (d : Nat) : P X Bool := .read (.u d) (fun x => .ret x.bool)
def wU (d : Nat) (v : Bool) : P X Unit := .write (.u d) (.f v) (.ret ())
def rA (s d : Nat) : P X (Option X) := .read (.a s d) (fun x => .ret x.opt)
def wA (s d : Nat) (v : Option X) : P X Unit := .write (.a s d) (.o v) (.ret ())
def rF : P X Nat := .read .fc (fun x => .ret x.nat)
def wF (v : Nat) : P X Unit := .write .fc (.n v) (.ret ())
def abort (e : Err) : P X α := .abort e

open Store

@[simp] theorem run_ret (a : α) (m : Map X) : run (Prog.ret a : P X α) m = (.ok a, m) := rfl
@[simp] theorem run_abort (e : Err) (m : Map X) : run (abort e : P X α) m = (.err e, m) := rfl
@[simp] theorem run_abort' (e : Err) (m : Map X) : run (Prog.abort e : P X α) m = (.err e, m) := rfl
@[simp] theorem run_panic (m : Map X) : run (Prog.panic : P X α) m = (.panic, m) := rfl
@[simp] theorem run_retry (m : Map X) : run (Prog.retry : P X α) m = (.retry, m) := rfl

@[simp] theorem run_rB (i d : Nat) (k : Nat → P X α) (m : Map X) :
    run ((rB i d).bind k) m = if m.okβ i d then run (k (m.β i d)) m else (.panic, m) := by
  simp [rB, run, svalid, sget, MVal.nat]

@[simp] theorem run_wB (i d v : Nat) (k : Unit → P X α) (m : Map X) :
    run ((wB i d v).bind k) m = if m.okβ i d then run (k ()) (m.setβ i d v) else (.panic, m) := by
  simp [wB, run, svalid, sset, styped]

@[simp] theorem run_rU (d : Nat) (k : Bool → P X α) (m : Map X) :
    run ((rU d).bind k) m = if m.okU d then run (k (m.unused d)) m else (.panic, m) := by
  simp [rU, run, svalid, sget, MVal.bool]

@[simp] theorem run_wU (d : Nat) (v : Bool) (k : Unit → P X α) (m : Map X) :
    run ((wU d v).bind k) m = if m.okU d then run (k ()) (m.setU d v) else (.panic, m) := by
  simp [wU, run, svalid, sset, styped]

@[simp] theorem run_rA (s d : Nat) (k : Option X → P X α) (m : Map X) :
    run ((rA s d).bind k) m = if m.okA s d then run (k (m.att s d)) m else (.panic, m) := by
  simp [rA, run, svalid, sget, MVal.opt]

@[simp] theorem run_wA (s d : Nat) (v : Option X) (k : Unit → P X α) (m : Map X) :
    run ((wA s d v).bind k) m = if m.okA s d then run (k ()) (m.setA s d v) else (.panic, m) := by
  simp [wA, run, svalid, sset, styped]

@[simp] theorem run_rF (k : Nat → P X α) (m : Map X) :
    run ((rF).bind k) m = run (k m.fc) m := by
  simp [rF, run, svalid, sget, MVal.nat]

@[simp] theorem run_wF (v : Nat) (k : Unit → P X α) (m : Map X) :
    run ((wF v).bind k) m = run (k ()) { m with fc := v } := by
  simp [wF, run, svalid, sset, styped]

@[simp] theorem run_rB' (i d : Nat) (m : Map X) :
    run (rB i d : P X Nat) m = if m.okβ i d then (.ok (m.β i d), m) else (.panic, m) := by
  simp [rB, run, svalid, sget, MVal.nat]

@[simp] theorem run_wB' (i d v : Nat) (m : Map X) :
    run (wB i d v : P X Unit) m = if m.okβ i d then (.ok (), m.setβ i d v) else (.panic, m) := by
  simp [wB, run, svalid, sset, styped]

@[simp] theorem run_rU' (d : Nat) (m : Map X) :
    run (rU d : P X Bool) m = if m.okU d then (.ok (m.unused d), m) else (.panic, m) := by
  simp [rU, run, svalid, sget, MVal.bool]

@[simp] theorem run_wU' (d : Nat) (v : Bool) (m : Map X) :
    run (wU d v : P X Unit) m = if m.okU d then (.ok (), m.setU d v) else (.panic, m) := by
  simp [wU, run, svalid, sset, styped]

@[simp] theorem run_rA' (s d : Nat) (m : Map X) :
    run (rA s d : P X (Option X)) m = if m.okA s d then (.ok (m.att s d), m) else (.panic, m) := by
  simp [rA, run, svalid, sget, MVal.opt]

@[simp] theorem run_wA' (s d : Nat) (v : Option X) (m : Map X) :
    run (wA s d v : P X Unit) m = if m.okA s d then (.ok (), m.setA s d v) else (.panic, m) := by
  simp [wA, run, svalid, sset, styped]

end Prim

end HC
