/-
  L0 — the concurrent protocol of `fast-stm` at commit granularity (granularity A of DESIGN §4.1).

  Shared memory: every variable holds a value and a version stamp (the identity of the `Arc`
  holding the value: a commit installs a NEW `Arc`, i.e. bumps the version).
  A thread runs its transactions one after the other.  An attempt keeps a log: the variables read
  from shared memory with the value AND version first seen (`LogVar::Read/ReadWrite`), and its
  writes.  Thread steps:
    * read  : through the log (`Log.read`), the first read of a variable hits shared memory;
    * write : to the log only;
    * `ret a`   : `commit()` — validate every logged read version against shared memory
                  (`Arc::ptr_eq`); valid ⇒ publish the writes (new versions), the transaction is
                  committed with result `a`; invalid ⇒ the attempt is dropped and restarted;
    * `abort e` : `atomically_with_err` returns `Err(e)` WITHOUT validating: nothing is published;
    * `retry`   : the attempt is dropped and restarted;  `panic`: the thread's transaction ends,
                  nothing is published.
  Any interleaving of thread steps is allowed (a schedule is a list of thread indices).
-/
import Honeycomb.Model.Stm

namespace HC.Proto
open HC

variable {Var Val ε α : Type} [DecidableEq Var] [DecidableEq α]

/-- plain value store: every variable exists, every value is well-typed -/
instance funStore : Store (Var → Val) Var Val where
  sget s v := s v
  sset s v x := fun w => if v = w then x else s w
  svalid _ _ := true
  styped _ _ _ := true

/-- shared memory with version stamps -/
abbrev VStore (Var Val : Type) := Var → Val × Nat

def vals (st : VStore Var Val) : Var → Val := fun v => (st v).1

/-- an attempt: program counter, first reads (value and version), writes (newest first) -/
structure Attempt (Var Val ε α : Type) where
  pc : Prog Var Val ε α
  reads : List (Var × Val × Nat) := []
  writes : List (Var × Val) := []

def Attempt.toLog (a : Attempt Var Val ε α) : Log Var Val :=
  { reads := a.reads.map (fun r => (r.1, r.2.1)), writes := a.writes }

/-- `commit()`'s validation: every logged read still has the version first seen -/
def Attempt.valid (a : Attempt Var Val ε α) (st : VStore Var Val) : Bool :=
  a.reads.all (fun r => (st r.1).2 = r.2.2)

/-- publish the writes, oldest first; every write installs a new version -/
def publish (ws : List (Var × Val)) (st : VStore Var Val) : VStore Var Val :=
  ws.foldr (fun p s => fun w => if p.1 = w then (p.2, (s w).2 + 1) else s w) st

structure Thread (Var Val ε α : Type) where
  /-- transactions still to run; the head is the one being attempted -/
  todo : List (Prog Var Val ε α)
  att : Attempt Var Val ε α
  /-- results of the finished transactions of this thread, oldest first -/
  results : List (Out ε α) := []

def Thread.start (ps : List (Prog Var Val ε α)) : Thread Var Val ε α :=
  { todo := ps, att := { pc := ps.headD .panic } }

/-- move on to the next transaction -/
def Thread.finish (t : Thread Var Val ε α) (o : Out ε α) : Thread Var Val ε α :=
  { todo := t.todo.tail, att := { pc := t.todo.tail.headD .panic }, results := t.results ++ [o] }

/-- drop the attempt and start the same transaction again -/
def Thread.restart (t : Thread Var Val ε α) : Thread Var Val ε α :=
  { t with att := { pc := t.todo.headD .panic } }

structure Sys (Var Val ε α : Type) where
  store : VStore Var Val
  threads : List (Thread Var Val ε α)
  /-- ghost: the committed transactions in commit order, with thread index and returned value -/
  commits : List (Nat × Prog Var Val ε α × α) := []

/-- one step of thread `t` on shared memory `st`: new thread state, new memory, commit record -/
def threadStep (t : Thread Var Val ε α) (st : VStore Var Val) :
    Thread Var Val ε α × VStore Var Val × Option (Prog Var Val ε α × α) :=
  match t.todo with
  | [] => (t, st, none)
  | p0 :: _ =>
    match t.att.pc with
    | .read v k =>
        let ℓ := t.att.toLog
        match ℓ.lastWrite v with
        | some x => ({ t with att := { t.att with pc := k x } }, st, none)
        | none =>
          match ℓ.firstRead v with
          | some x => ({ t with att := { t.att with pc := k x } }, st, none)
          | none =>
              ({ t with att := { t.att with pc := k (st v).1, reads := (v, (st v).1, (st v).2) :: t.att.reads } },
                st, none)
    | .write v x k => ({ t with att := { t.att with pc := k, writes := (v, x) :: t.att.writes } }, st, none)
    | .ret a =>
        if t.att.valid st then (t.finish (.ok a), publish t.att.writes st, some (p0, a))
        else (t.restart, st, none)
    | .abort e => (t.finish (.err e), st, none)
    | .retry => (t.restart, st, none)
    | .panic => (t.finish .panic, st, none)

def Sys.step (s : Sys Var Val ε α) (i : Nat) : Sys Var Val ε α :=
  match s.threads[i]? with
  | none => s
  | some t =>
      let (t', st', c) := threadStep t s.store
      { store := st'
        threads := s.threads.set i t'
        commits := match c with
          | some (p, a) => s.commits ++ [(i, p, a)]
          | none => s.commits }

/-- run a schedule (list of thread indices; indices out of range are skipped) -/
def Sys.exec (s : Sys Var Val ε α) (sched : List Nat) : Sys Var Val ε α := sched.foldl Sys.step s

def Sys.init (st : Var → Val) (progs : List (List (Prog Var Val ε α))) : Sys Var Val ε α :=
  { store := fun v => (st v, 0), threads := progs.map Thread.start }

/-- sequential replay of a commit log: each transaction runs alone, to completion, on the store
    left by the previous one, and must return the recorded value -/
def replay : List (Nat × Prog Var Val ε α × α) → (Var → Val) → Option (Var → Val)
  | [], s => some s
  | (_, p, a) :: rest, s =>
      match run p s with
      | (.ok a', s') => if a' = a then replay rest s' else none
      | _ => none

end HC.Proto
