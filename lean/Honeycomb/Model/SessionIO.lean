/-
  Protocol extension for the cmap text format (C09 / C10); mirrors `harness/hcimpl/src/cmapio.rs`.

  `ser`                      → `ser <line> | <line> | …`   token lines of `serialize` (or `panic`)
  `loadtext <mask> <toks…>`  → `ok` (the session now holds the map) / `layout <Variant> [code]`
                               (rejected by `CMapFile::try_from`: a panic of `from_cmap_file`) /
                               `err <Variant> <code>` / `panic`;  `|` separates lines
  `rt`                       → `rt <b1> <b2>`: serialize, rebuild, serialize again;
                               b1 = same text, b2 = same darts, β, flags and vertex values
-/
import Honeycomb.Model.Session
import Honeycomb.Model.CmapText

namespace HC
open CmapText

def linesStr (ls : List Line) : String :=
  " | ".intercalate (ls.map fun l => " ".intercalate l)

/-- `toks.split(|t| t == "|")` -/
def splitBar : List String → List Line
  | [] => [[]]
  | t :: ts =>
    if t = "|" then [] :: splitBar ts else
    match splitBar ts with
    | [] => [[t]]
    | l :: ls => (t :: l) :: ls

def layoutStr (e : Err) : String :=
  if e.args.isEmpty then s!"layout {e.tag}" else s!"layout {e.tag} {natsStr e.args}"

/-- second flag of `rt` (`same_map` in the harness) -/
def sameMap (a b : Map Val) : Bool :=
  a.n = b.n
  && (List.range a.n).all (fun d =>
      a.β 0 d = b.β 0 d && a.β 1 d = b.β 1 d && a.β 2 d = b.β 2 d && a.unused d = b.unused d)
  && iterVertices2 a = iterVertices2 b
  && (iterVertices2 a).all (fun v => a.att 0 v = b.att 0 v)

def rtStr (m : Map Val) : String :=
  if serializePanics m then "panic" else
  let t1 := serialize pkgVersion m
  match parseFile t1 with
  | .error e => layoutStr e
  | .ok f =>
    match build 1 f with
    | .ok m2 =>
      if serializePanics m2 then "panic" else
      let t2 := serialize pkgVersion m2
      s!"rt {decide (t1 = t2)} {sameMap m m2}"
    | .err e => errStr e
    | .retry => "retry"
    | .panic => "panic"

def topIO (s : Sess) (toks : List String) : Option (Sess × String) :=
  match toks with
  | "loadtext" :: mask :: rest =>
    match mask.toNat? with
    | none => some (s, "bad-op")
    | some mask =>
      match parseFile (splitBar rest) with
      | .error e => some (s, layoutStr e)
      | .ok f =>
        match build 6 f with
        | .ok m => some ({ dim := 2, mask := mask, cfg := stdCfg 3 mask, m := m }, "ok")
        | .err e => some (s, errStr e)
        | .retry => some (s, "retry")
        | .panic => some (s, "panic")
  | ["ser"] =>
    if s.dim ≠ 2 then some (s, "bad-op") else
    if serializePanics s.m then some (s, "panic")
    else some (s, "ser " ++ linesStr (serialize pkgVersion s.m))
  | ["rt"] =>
    if s.dim ≠ 2 then some (s, "bad-op") else some (s, rtStr s.m)
  | _ => none

end HC
