/-
  Protocol extension for the cmap text format (C09 / C10); mirrors `harness/hcimpl/src/cmapio.rs`.

  `ser`                      → `ser <line> | <line> | …`   token lines of `serialize` (or `panic`)
  `loadtext <mask> <toks…>`  → `ok` (the session now holds the map) / `layout <Variant> [code]`
                               (rejected by `CMapFile::try_from`: a panic of `from_cmap_file`) /
                               `err <Variant> <code>` / `panic`;  `|` separates lines
  `rt`                       → `rt <b1> <b2>`: serialize, rebuild, serialize again;
                               b1 = same text, b2 = same darts, β, flags and vertex values
  `serhex`                   → `serhex <hex>`: the BYTES of `serialize` (character-level model
                               `serializeChars`), the two coordinate fields of every vertex line
                               replaced by their exact rational text, every other byte kept
  `loadhex <mask> [<hex>]`   → as `loadtext`, from raw bytes (character-level reader `parseFileC`);
                               invalid UTF-8 → `panic` (`read_to_string(..).expect(..)`)
-/
import Honeycomb.Model.Session
import Honeycomb.Model.CmapText
import Honeycomb.Model.CmapChars

namespace HC
open CmapText

def linesStr (ls : List Line) : String :=
  " | ".intercalate (ls.map fun l => " ".intercalate l)

/-- `toks.split(|t| t == "|")` -/
def splitBar : List String → List Line
  | [] => [[]]
  | t :: ts =>
    if t = "|" then [] :: splitBar ts else
    match splitBar ts with
    | [] => [[t]]
    | l :: ls => (t :: l) :: ls

def layoutStr (e : Err) : String :=
  if e.args.isEmpty then s!"layout {e.tag}" else s!"layout {e.tag} {natsStr e.args}"

/-- second flag of `rt` (`same_map` in the harness) -/
def sameMap (a b : Map Val) : Bool :=
  a.n = b.n
  && (List.range a.n).all (fun d =>
      a.β 0 d = b.β 0 d && a.β 1 d = b.β 1 d && a.β 2 d = b.β 2 d && a.unused d = b.unused d)
  && iterVertices2 a = iterVertices2 b
  && (iterVertices2 a).all (fun v => a.att 0 v = b.att 0 v)

def rtStr (m : Map Val) : String :=
  if serializePanics m then "panic" else
  let t1 := serialize pkgVersion m
  match parseFile t1 with
  | .error e => layoutStr e
  | .ok f =>
    match build 1 f with
    | .ok m2 =>
      if serializePanics m2 then "panic" else
      let t2 := serialize pkgVersion m2
      s!"rt {decide (t1 = t2)} {sameMap m m2}"
    | .err e => errStr e
    | .retry => "retry"
    | .panic => "panic"

def hexDigit (n : Nat) : Char := if n < 10 then Char.ofNat (48 + n) else Char.ofNat (87 + n)

def hexOfBytes (b : ByteArray) : String :=
  String.ofList (b.toList.flatMap fun x => [hexDigit (x.toNat / 16), hexDigit (x.toNat % 16)])

def hexVal (c : Char) : Option Nat :=
  if '0' ≤ c ∧ c ≤ '9' then some (c.toNat - 48)
  else if 'a' ≤ c ∧ c ≤ 'f' then some (c.toNat - 87)
  else if 'A' ≤ c ∧ c ≤ 'F' then some (c.toNat - 55)
  else none

def bytesOfHex : List Char → Option (List UInt8)
  | [] => some []
  | [_] => none
  | a :: b :: r =>
    match hexVal a, hexVal b, bytesOfHex r with
    | some x, some y, some bs => some (UInt8.ofNat (16 * x + y) :: bs)
    | _, _, _ => none

def loadHex (s : Sess) (mask : String) (hex : String) : Sess × String :=
  match mask.toNat?, bytesOfHex hex.toList with
  | some mask, some bs =>
    match String.fromUTF8? (ByteArray.mk bs.toArray) with
    | none => (s, "panic")
    | some text =>
      match parseFileC text.toList with
      | .error e => (s, layoutStr e)
      | .ok f =>
        match build 6 f with
        | .ok m => ({ dim := 2, mask := mask, cfg := stdCfg 3 mask, m := m }, "ok")
        | .err e => (s, errStr e)
        | .retry => (s, "retry")
        | .panic => (s, "panic")
  | _, _ => (s, "bad-op")

def topIO (s : Sess) (toks : List String) : Option (Sess × String) :=
  match toks with
  | ["loadhex", mask] => some (loadHex s mask "")
  | ["loadhex", mask, hex] => some (loadHex s mask hex)
  | ["serhex"] =>
    if s.dim ≠ 2 then some (s, "bad-op") else
    if serializePanics s.m then some (s, "panic")
    else some (s, "serhex " ++ hexOfBytes (String.ofList (serializeChars pkgVersion ratStr s.m)).toUTF8)
  | "loadtext" :: mask :: rest =>
    match mask.toNat? with
    | none => some (s, "bad-op")
    | some mask =>
      match parseFile (splitBar rest) with
      | .error e => some (s, layoutStr e)
      | .ok f =>
        match build 6 f with
        | .ok m => some ({ dim := 2, mask := mask, cfg := stdCfg 3 mask, m := m }, "ok")
        | .err e => some (s, errStr e)
        | .retry => some (s, "retry")
        | .panic => some (s, "panic")
  | ["ser"] =>
    if s.dim ≠ 2 then some (s, "bad-op") else
    if serializePanics s.m then some (s, "panic")
    else some (s, "ser " ++ linesStr (serialize pkgVersion s.m))
  | ["rt"] =>
    if s.dim ≠ 2 then some (s, "bad-op") else some (s, rtStr s.m)
  | _ => none

end HC
