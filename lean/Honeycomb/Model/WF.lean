/-
  Well-formedness predicates of C01 / C02 (decidable, bounded quantifiers) and the
  allocation invariant of C18.
-/
import Honeycomb.Model.Ops

namespace HC
variable {X : Type}

/-- all vectors have the length `n_darts`; `nb` β rows -/
structure Sized (nb : Nat) (m : Map X) : Prop where
  npos : 0 < m.n
  rows : m.b.size = nb
  row : ∀ i, i < nb → (rd m.b i).size = m.n
  usz : m.u.size = m.n
  asz : ∀ s, s < m.a.size → m.n ≤ (rd m.a s).size

/-- the structural invariants quoted by C01 (`nb = 3`) and C02 (`nb = 4`) -/
structure WFβ (nb : Nat) (m : Map X) : Prop where
  /-- every image of the null dart is the null dart -/
  null : ∀ i, i < nb → m.β i 0 = 0
  /-- every image is an existing dart -/
  range : ∀ i, i < nb → ∀ d, d < m.n → m.β i d < m.n
  /-- β0 is exactly the inverse of β1 -/
  inv01 : ∀ d, d < m.n → m.β 1 d ≠ 0 → m.β 0 (m.β 1 d) = d
  inv10 : ∀ d, d < m.n → m.β 0 d ≠ 0 → m.β 1 (m.β 0 d) = d
  /-- β2 (and β3) are fixed-point-free involutions on their domain -/
  invol : ∀ i, i < nb → 2 ≤ i → ∀ d, d < m.n → m.β i d ≠ 0 → m.β i (m.β i d) = d ∧ m.β i d ≠ d
  /-- removed darts are free -/
  unusedFree : ∀ d, d < m.n → m.unused d = true → ∀ i, i < nb → m.β i d = 0

structure WF (nb : Nat) (m : Map X) : Prop extends Sized nb m, WFβ nb m

/-- removed darts are nobody's image (a consequence of `WFβ`, stated for the oracle) -/
def NoImageOfUnused (nb : Nat) (m : Map X) : Prop :=
  ∀ i, i < nb → ∀ e, e < m.n → m.unused (m.β i e) = true → m.β i e = 0

/-- the mirror condition of C02 -/
def Mirror (m : Map X) : Prop :=
  ∀ d, d < m.n → m.β 1 d ≠ 0 → m.β 3 d ≠ 0 → m.β 3 (m.β 1 d) ≠ 0 →
    m.β 1 (m.β 3 (m.β 1 d)) = m.β 3 d

instance (nb : Nat) (m : Map X) : Decidable (Sized nb m) :=
  decidable_of_iff (0 < m.n ∧ m.b.size = nb ∧ (∀ i, i < nb → (rd m.b i).size = m.n) ∧
      m.u.size = m.n ∧ (∀ s, s < m.a.size → m.n ≤ (rd m.a s).size))
    ⟨fun ⟨a, b, c, d, e⟩ => ⟨a, b, c, d, e⟩, fun ⟨a, b, c, d, e⟩ => ⟨a, b, c, d, e⟩⟩

set_option synthInstance.maxSize 2048 in
set_option synthInstance.maxHeartbeats 200000 in
instance (nb : Nat) (m : Map X) : Decidable (WFβ nb m) :=
  decidable_of_iff ((∀ i, i < nb → m.β i 0 = 0) ∧
      (∀ i, i < nb → ∀ d, d < m.n → m.β i d < m.n) ∧
      (∀ d, d < m.n → m.β 1 d ≠ 0 → m.β 0 (m.β 1 d) = d) ∧
      (∀ d, d < m.n → m.β 0 d ≠ 0 → m.β 1 (m.β 0 d) = d) ∧
      (∀ i, i < nb → 2 ≤ i → ∀ d, d < m.n → m.β i d ≠ 0 → m.β i (m.β i d) = d ∧ m.β i d ≠ d) ∧
      (∀ d, d < m.n → m.unused d = true → ∀ i, i < nb → m.β i d = 0))
    ⟨fun ⟨a, b, c, d, e, f⟩ => ⟨a, b, c, d, e, f⟩, fun ⟨a, b, c, d, e, f⟩ => ⟨a, b, c, d, e, f⟩⟩

instance (nb : Nat) (m : Map X) : Decidable (WF nb m) :=
  decidable_of_iff (Sized nb m ∧ WFβ nb m) ⟨fun ⟨a, b⟩ => ⟨a, b⟩, fun ⟨a, b⟩ => ⟨a, b⟩⟩

instance (nb : Nat) (m : Map X) : Decidable (NoImageOfUnused nb m) := by
  unfold NoImageOfUnused; exact inferInstance

instance (m : Map X) : Decidable (Mirror m) := by
  unfold Mirror; exact inferInstance

end HC
