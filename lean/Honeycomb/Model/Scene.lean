/-
  L2 — the viewer's scene extraction (`honeycomb-render/src/import_map.rs`):
  `extract_data_from_map` (`extract2`) and `extract_data_from_3d_map` (`extract3`).

  Rust                                         model
  ----                                         -----
  map_vertices / map_edges / map_faces         `Reader.vs / es / fs`   (`iter_vertices` … collected)
  index_map: HashMap<VertexIdType, usize>      `rowOf vs`              (position in `map_vertices`)
  vertex_vals: Vec<Vec3>  (→ `MapVertices`)    `Scene.table`
  VertexBundle / EdgeBundle / FaceBundle       `Scene.verts / edges / faces`
  DartBundle                                   `DartEnt` in `Scene.darts` (spawn order)
  FaceNormals / VolumeNormals                  only the *keys*, in insertion order (`fnKeys`, `vnKeys`);
                                               the vectors are `f32` arithmetic (glam) and are checked
                                               on the implementation by the oracle of tools/props/c20.py

  `none` = the start-up system panics: `expect` on a vertex without coordinates, `index_map[..]` on
  a missing key, `vertex_ids[1]` / `vertex_ids[n_v - 2]` on a face whose `Custom(&[1])` walk has one
  dart, or an out-of-range index inside an id / orbit computation.

  The 2-D and the 3-D system are the same code up to the functions they call on the map; those are
  collected in a `Reader` so that `extractWith` (and the theorems of `Props/C20.lean`) are shared.
-/
import Honeycomb.Model.Ops2
import Honeycomb.Model.Ops3
import Honeycomb.Model.Val

namespace HC

/-- components of a `DartBundle`: `DartId, VertexId, EdgeId, FaceId, VolumeId, Dart{start,end}` -/
structure DartEnt where
  d : Nat
  v : Nat
  e : Nat
  f : Nat
  vol : Nat
  s : Nat
  t : Nat
  deriving Repr, DecidableEq

/-- everything the start-up system inserts / spawns, in insertion / spawn order -/
structure Scene where
  /-- `MapVertices`: row ↦ coordinates -/
  table : List Val
  /-- `(VertexId, Vertex(row))` -/
  verts : List (Nat × Nat)
  /-- `(EdgeId, Edge(row0, row1))` -/
  edges : List (Nat × Nat × Nat)
  /-- `(FaceId, Face(rows))` -/
  faces : List (Nat × List Nat)
  darts : List DartEnt
  /-- keys `(face id, row)` inserted into `FaceNormals`, in insertion order (with repetitions) -/
  fnKeys : List (Nat × Nat)
  /-- keys `(volume id, row)` inserted into `VolumeNormals` (`none`: the 2-D system has no such
      resource) -/
  vnKeys : Option (List (Nat × Nat))
  deriving Repr, DecidableEq

/-- result of a (read-only) closure run non-transactionally on the map; `none` = panic -/
def evalP {α : Type} (p : P Val α) (m : Map Val) : Option α :=
  match (run p m).1 with
  | .ok a => some a
  | _ => none

/-- `index_map[&v]`: the position of `v` in the vertex id list (the list has no repetition, so
    "last insertion wins" of the `HashMap` is not observable); `none` = the index panics -/
def rowOf : List Nat → Nat → Option Nat
  | [], _ => none
  | x :: xs, v => if x = v then some 0 else (rowOf xs v).map (· + 1)

/-- `iter().map(f).collect()` where `f` may panic -/
def mapO {α β : Type} (f : α → Option β) : List α → Option (List β)
  | [] => some []
  | a :: as =>
    match f a, mapO f as with
    | some b, some bs => some (b :: bs)
    | _, _ => none

/-- the calls the extraction makes on the map -/
structure Reader where
  /-- `iter_vertices().collect()` -/
  vs : List Nat
  /-- `iter_edges().collect()` -/
  es : List Nat
  /-- `iter_faces().collect()` -/
  fs : List Nat
  /-- `force_read_vertex` -/
  coords : Nat → Option Val
  /-- `vertex_id` / `edge_id` / `volume_id` (the 2-D system stores the constant 1) -/
  vid : Nat → Option Nat
  eid : Nat → Option Nat
  volid : Nat → Option Nat
  /-- `orbit(OrbitPolicy::Custom(&[1]), d).collect()` -/
  walk : Nat → Option (List Nat)
  /-- the dart whose vertex is the second end of edge `id`:
      2-D `β2 id`, else `β1 id` when `id` is 2-free;
      3-D `β3 id`, else `β2 id`, else `β1 id` -/
  edgeEnd : Nat → Nat
  /-- darts of the second side of a face (`tmp2`; empty in 2-D) -/
  side2 : Nat → Option (List Nat)

namespace Reader

/-- `index_map[&cmap.vertex_id(d)]` -/
def rowOfDart (R : Reader) (d : Nat) : Option Nat := (R.vid d).bind (rowOf R.vs)

end Reader

/-- `tmp.push(tmp[0]); tmp.windows(2)`: every element with its cyclic successor -/
def cyclicPairs {α : Type} (l : List α) : List (α × α) := l.zip (l.tail ++ l.take 1)

/-- the `DartBundle`s built from one `Custom(&[1])` walk `w` of face `f` -/
def dartBundles (R : Reader) (f : Nat) (w : List Nat) : Option (List DartEnt) :=
  match mapO R.rowOfDart w with
  | none => none
  | some rows =>
    mapO (fun (p : (Nat × Nat) × (Nat × Nat)) =>
      match R.vid p.1.1, R.eid p.1.1, R.volid p.1.1 with
      | some v, some e, some c => some { d := p.1.1, v := v, e := e, f := f, vol := c, s := p.1.2, t := p.2.2 }
      | _, _, _ => none) (cyclicPairs (w.zip rows))

/-- `EdgeBundle` of edge `id` -/
def edgeBundle (R : Reader) (id : Nat) : Option (Nat × Nat × Nat) :=
  match R.rowOfDart id, R.rowOfDart (R.edgeEnd id) with
  | some r1, some r2 => some (id, r1, r2)
  | _, _ => none

/-- the body of the `map_faces.iter().map(..)` closure for face `f`:
    the `FaceBundle`, the `FaceNormals` keys it inserts, the `DartBundle`s it pushes.
    The three normal blocks insert `(f, rows[0])`, `(f, rows[i])` for `0 < i < n_v - 1`,
    `(f, rows[n_v - 1])` — i.e. every corner — and index `rows[1]`, `rows[n_v - 2]`: a walk of one
    dart panics. -/
def faceBundle (R : Reader) (f : Nat) : Option ((Nat × List Nat) × List (Nat × Nat) × List DartEnt) :=
  match R.walk f with
  | none => none
  | some w =>
    match mapO R.rowOfDart w with
    | none => none
    | some rows =>
      if rows.length < 2 then none else
      match dartBundles R f w, (R.side2 f).bind (dartBundles R f) with
      | some d1, some d2 => some ((f, rows), rows.map (fun r => (f, r)), d1 ++ d2)
      | _, _ => none

/-- the part of both start-up systems that does not depend on the dimension -/
def extractWith (R : Reader) (vn : Option (List (Nat × Nat))) : Option Scene :=
  match mapO R.coords R.vs,
        mapO (fun v => (rowOf R.vs v).map (fun r => (v, r))) R.vs,
        mapO (edgeBundle R) R.es,
        mapO (faceBundle R) R.fs with
  | some table, some verts, some edges, some fbs =>
      some { table := table, verts := verts, edges := edges
             faces := fbs.map (·.1)
             darts := (fbs.map (·.2.2)).flatten
             fnKeys := (fbs.map (·.2.1)).flatten
             vnKeys := vn }
  | _, _, _, _ => none

/-! ## 2-D: `extract_data_from_map` -/

def reader2 (m : Map Val) : Reader where
  vs := iterVertices2 m
  es := iterEdges2 m
  fs := iterFaces2 m
  coords v := m.att 0 v
  vid d := evalP (vertexId2 m.n d) m
  eid d := evalP (edgeId2 d) m
  volid _ := some 1
  walk d := evalP (orbit2 m.n (.custom [1]) d) m
  edgeEnd id := if m.β 2 id = 0 then m.β 1 id else m.β 2 id
  side2 _ := some []

def extract2 (m : Map Val) : Option Scene := extractWith (reader2 m) none

/-! ## 3-D: `extract_data_from_3d_map` -/

def reader3 (m : Map Val) : Reader where
  vs := iterVertices3 m
  es := iterEdges3 m
  fs := iterFaces3 m
  coords v := m.att 0 v
  vid d := evalP (vertexId3 m.n d) m
  eid d := evalP (edgeId3 m.n d) m
  volid d := evalP (volumeId3 m.n d) m
  walk d := evalP (orbit3 m.n (.custom [1]) d) m
  edgeEnd id :=
    if m.β 3 id = 0 then (if m.β 2 id = 0 then m.β 1 id else m.β 2 id) else m.β 3 id
  /- `orbit(Custom(&[1]), β3 id).filter_map(|d| if d == NULL { None } else { Some(..) })`:
     the orbit of the null dart is `[0]`, which the filter empties -/
  side2 f := (evalP (orbit3 m.n (.custom [1]) (m.β 3 f)) m).map (fun w => w.filter (· ≠ 0))

/-- `unique_by(face_id)`: first dart of every face id, in order -/
def uniqueByKey : List (Nat × Nat) → List Nat → List Nat
  | [], _ => []
  | (d, k) :: rest, seen => if seen.contains k then uniqueByKey rest seen else d :: uniqueByKey rest (seen ++ [k])

/-- keys inserted into `VolumeNormals` by the loop over `iter_volumes()`:
    for every dart `d` of `orbit(Volume, vol)`, the key `(vol, index_map[vertex_id(d)])`.
    The per-face normals `norms` are computed first, from the `Custom(&[1])` walk of the first
    dart of every face id (more `index_map` lookups, which can panic); `norms[&fid]` itself cannot
    fail since every face id of the orbit is a key of `norms`. -/
def volKeys3 (m : Map Val) (R : Reader) : Option (List (Nat × Nat)) :=
  (mapO (fun vol =>
    match evalP (orbit3 m.n .volume vol) m with
    | none => none
    | some ds =>
      match mapO (fun d => evalP (faceId3 m.n d) m) ds with
      | none => none
      | some fids =>
        let reps := uniqueByKey (ds.zip fids) []
        match mapO (fun d => (R.walk d).bind (fun w => mapO R.rowOfDart (w ++ [d]))) reps,
              mapO R.rowOfDart ds with
        | some _, some rows => some (rows.map (fun r => (vol, r)))
        | _, _ => none) (iterVolumes3 m)).map List.flatten

def extract3 (m : Map Val) : Option Scene :=
  let R := reader3 m
  match extractWith R (some []) with
  | none => none
  | some sc =>
    -- the volume loop runs after the face loop; a panic there loses everything
    match volKeys3 m R with
    | none => none
    | some k => some { sc with vnKeys := some k }

end HC
