/-
  L2 — the cmap text format of `CMap2` at CHARACTER level (C09b, C10b): everything except the
  decimal text of the coordinate values.

  Rust                                                         model
  ----                                                         -----
  dim2/serialize.rs   `CMap2::serialize`  (every `write!`)     `serializeChars`
  builder/io.rs       `CMapFile::try_from` on the characters   `parseFileC`   (`stepLineC`, `parseLinesC`)
  `str::lines`, `str::trim`, `str::split_whitespace`           `linesOf`, `trimWs`, `splitWs`
  `char::is_whitespace` (Unicode `White_Space`)                `isWs`
  `from_cmap_file(..).build()` on a text                       `loadChars`

  A text is a `List Char`.  The coordinate values are written through a parameter
  `fmt : Rat → String` (Rust: `Display for f64`), only assumed to produce non-empty, blank-free
  strings; the drivers instantiate it with the exact rational text `ratStr` (the implementation
  driver replaces the two coordinate fields of every `[VERTICES]` line by that text and keeps
  every other byte).

  Numerals: `{}` / `{:>width$}` of an unsigned integer = `Nat.toDigits 10` (= `Nat.repr`),
  right-aligned with blanks to `width = n_darts.to_string().len()`; the reader's
  `parse::<u32 / usize>` is `parseUChars` of `CmapText.lean` (optional `+`, leading zeros
  accepted, no `_`, no blank, bound check).

  Import-free (core only).
-/
import Honeycomb.Model.CmapText

namespace HC
namespace CmapText

/-! ## characters: blanks, lines, tokens -/

/-- `char::is_whitespace`: the Unicode `White_Space` property -/
def isWs (c : Char) : Bool :=
  let n := c.toNat
  (9 ≤ n && n ≤ 13) || n = 32 || n = 0x85 || n = 0xA0 || n = 0x1680 ||
  (0x2000 ≤ n && n ≤ 0x200A) || n = 0x2028 || n = 0x2029 || n = 0x202F || n = 0x205F || n = 0x3000

/-- `str::trim` -/
def trimWs (cs : List Char) : List Char :=
  ((cs.dropWhile isWs).reverse.dropWhile isWs).reverse

/-- prepend a character to the first piece -/
def pushChar (c : Char) : List (List Char) → List (List Char)
  | t :: r => (c :: t) :: r
  | [] => [[c]]

/-- `str::split_whitespace`: the maximal blank-free runs.  `splitGo cs = (tokens, b)` where `b`
    says that the first token starts at the first character of `cs`. -/
def splitGo : List Char → List (List Char) × Bool
  | [] => ([], false)
  | c :: cs =>
    if isWs c then ((splitGo cs).1, false)
    else if (splitGo cs).2 then (pushChar c (splitGo cs).1, true)
    else ([c] :: (splitGo cs).1, true)

def splitWs (cs : List Char) : List (List Char) := (splitGo cs).1

/-- `str::lines`: split at `\n`, no final empty line (the `\r` of a `\r\n` ending is a blank and
    disappears with the `trim` / `split_whitespace` applied to every line) -/
def linesOf : List Char → List (List Char)
  | [] => []
  | c :: cs =>
    if c = '\n' then [] :: linesOf cs else pushChar c (linesOf cs)

/-- the tokens of one line -/
def lineToks (l : List Char) : Line := (splitWs l).map String.ofList

/-- a text as token lines: what the token-level model `parseFile` / `load` reads -/
def tokenise (cs : List Char) : List Line := (linesOf cs).map lineToks

/-! ## `CMap2::serialize`, character by character -/

/-- `{}` of an unsigned integer -/
def digits (n : Nat) : List Char := Nat.toDigits 10 n

/-- `{:>width$}` -/
def padLeft (w : Nat) (cs : List Char) : List Char := List.replicate (w - cs.length) ' ' ++ cs

/-- the buffer `b_i`: `(0..n_darts).for_each(|d| write!(buf, "{:>width$} ", self.beta::<I>(d)))`
    with `width = n_darts.to_string().len()` -/
def betaBuf (m : Map Val) (i : Nat) : List Char :=
  ((List.range m.n).map fun d => padLeft (digits m.n).length (digits (m.β i d)) ++ [' ']).flatten

/-- `.filter(|(_, v)| v.read_atomic()).for_each(|(i, _)| write!(writer, "{i} "))` -/
def unusedBuf (m : Map Val) : List Char :=
  (((List.range m.u.size).filter fun d => m.unused d).map fun i => digits i ++ [' ']).flatten

/-- `writeln!(writer, "{v} {} {}", val.0, val.1)` when the slot holds a value -/
def vertexChars (fmt : Rat → String) (m : Map Val) (v : Nat) : List Char :=
  match m.att 0 v with
  | none => []
  | some (.pt x y _) => digits v ++ [' '] ++ (fmt x).toList ++ [' '] ++ (fmt y).toList ++ ['\n']
  | some (.tm _) => digits v ++ [' ', '?', ' ', '?', '\n']  -- ill-typed slot, as in `vertexLine`

/-- every `write!` / `writeln!` of `serialize`, in order -/
def serializeChars (ver : String) (fmt : Rat → String) (m : Map Val) : List Char :=
  "[META]".toList ++ ['\n'] ++
  (ver.toList ++ [' '] ++ ['2'] ++ [' '] ++ digits (m.n - 1)) ++ ['\n'] ++
  ['\n'] ++
  "[BETAS]".toList ++ ['\n'] ++
  trimWs (betaBuf m 0) ++ ['\n'] ++
  trimWs (betaBuf m 1) ++ ['\n'] ++
  trimWs (betaBuf m 2) ++ ['\n'] ++
  ['\n'] ++
  "[UNUSED]".toList ++ ['\n'] ++
  unusedBuf m ++ ['\n'] ++
  ['\n'] ++
  "[VERTICES]".toList ++ ['\n'] ++
  ((iterVertices2 m).map (vertexChars fmt m)).flatten

/-- the token-level serializer with the same coordinate formatter (`serialize` is the instance
    `fmt = ratStr`) -/
def vertexLineF (fmt : Rat → String) (m : Map Val) (v : Nat) : Option Line :=
  match m.att 0 v with
  | none => none
  | some (.pt x y _) => some [natTok v, fmt x, fmt y]
  | some (.tm _) => some [natTok v, "?", "?"]

def serializeF (ver : String) (fmt : Rat → String) (m : Map Val) : List Line :=
  [["[META]"], [ver, "2", natTok (m.n - 1)], [],
   ["[BETAS]"], betaLine m 0, betaLine m 1, betaLine m 2, [],
   ["[UNUSED]"], unusedLine m, [],
   ["[VERTICES]"]] ++ (iterVertices2 m).filterMap (vertexLineF fmt m)

/-! ## `CMapFile::try_from` on the characters -/

/-- the `HashMap<String, String>`: a content is the list of its (trimmed, non-empty,
    comment-free) lines; Rust joins them with `\n` and splits them again with `lines()` -/
abbrev SecsC := Sec → Option (List (List Char))

def SecsC.put (s : SecsC) (k : Sec) (v : List (List Char)) : SecsC :=
  fun k' => if k' = k then some v else s k'

/-- one iteration of `for line in value.trim().lines()` -/
def stepLineC (st : SecsC × Option Sec) (line : List Char) : Except Err (SecsC × Option Sec) :=
  let t := trimWs line
  if t.isEmpty || t.head? = some '#' then .ok st
  else if t.head? = some '[' && t.contains ']' then
    match secOfName (String.ofList ((trimBrackets t).map Char.toLower)) with
    | none => .error errUnknownHeader
    | some s =>
      if (st.1 s).isSome then .error errDuplicated
      else .ok (st.1.put s [], some s)
  else
    match st.2 with
    | none => .ok st
    | some s =>
      -- `trimmed.split('#').next().unwrap().trim()`
      let c := trimWs (splitAt1 (· = '#') t).1
      if c.isEmpty then .ok st
      else .ok (st.1.put s ((st.1 s).getD [] ++ [c]), some s)

def parseLinesC : List (List Char) → SecsC × Option Sec → Except Err SecsC
  | [], st => .ok st.1
  | l :: ls, st =>
    match stepLineC st l with
    | .error e => .error e
    | .ok st' => parseLinesC ls st'

/-- `CMapFile::try_from(String)`; the section contents are tokenised where the builder does it
    (`split_whitespace` on the META content, on every BETAS / VERTICES line, on the UNUSED
    content) -/
def parseFileC (cs : List Char) : Except Err CFile :=
  match parseLinesC (linesOf cs) (fun _ => none, none) with
  | .error e => .error e
  | .ok secs =>
    match secs .smeta with
    | none => .error (errMissing 0)
    | some mt =>
      match secs .sbetas with
      | none => .error (errMissing 1)
      | some bs =>
        match parseMeta (mt.map lineToks) with
        | .error e => .error e
        | .ok (v, d, n) =>
          .ok { version := v, dim := d, nd := n, betas := bs.map lineToks,
                unused := (secs .sunused).map (·.map lineToks),
                vertices := (secs .sverts).map (·.map lineToks) }

/-- `CMapBuilder::from_cmap_file(text).build()` (errors of the first stage returned as `err`, as
    in `load`) -/
def loadChars (ns : Nat) (cs : List Char) : Out Err (Map Val) :=
  match parseFileC cs with
  | .error e => .err e
  | .ok f => build ns f

end CmapText
end HC
