/-
  Protocol extension for VTK export / import (C11); mirrors `harness/hcimpl/src/vtk.rs`.

  `vtkexp`   → `ok <x y z>* ; <num_cells> ; <legacy vertex list> ; <type codes>`  — the content of the
               `UnstructuredGridPiece` written by `to_vtk_ascii` / `to_vtk_binary` (the harness parses
               both texts back with `vtkio` and checks that they carry the same data) — or `panic`
  `vtkimp <mask> <x y z>* ; <num_cells> ; <legacy vertex list> ; <type codes>`
             → `ok <m>` (the session now holds the built map; `<m>` = mask of the requested attributes
               that the built map really contains: always 0) / `err <Variant> <code>` / `panic`.
               `bad-op` unless there are exactly four groups, complete coordinate triples and
               `num_cells ≤ length of the vertex list` (the `vtkio` writer needs that).
  `vtkascii` → `ok <tokens of the text of to_vtk_ascii>` (coordinate tokens as exact rationals) or `panic`
  `vtkrt`    → export the session's map, import the result: `ok 0` (the session now holds the
               re-imported map) / `err …` / `panic`
-/
import Honeycomb.Model.Session
import Honeycomb.Model.Vtk
import Honeycomb.Model.VtkText

namespace HC
open Vtk

/-- `toks.split(|t| t == ";")` (empty groups are kept) -/
def splitSemi : List String → List (List String)
  | [] => [[]]
  | t :: ts =>
    if t = ";" then [] :: splitSemi ts else
    match splitSemi ts with
    | [] => [[t]]
    | l :: ls => (t :: l) :: ls

def allSomeV {α : Type} (l : List (Option α)) : Option (List α) := optAll l

def triples : List Rat → Option (List Val)
  | [] => some []
  | x :: y :: z :: r => (triples r).map (fun l => Val.pt x y z :: l)
  | _ => none

def ptFlatStr : Val → String
  | .pt x y z => s!"{ratStr x} {ratStr y} {ratStr z}"
  | .tm _ => "? ? ?"

def pieceStr (pts : List Val) (cells : List VCell) : String :=
  let l := toLegacy cells
  " ".intercalate (pts.map ptFlatStr) ++ " ; " ++ toString l.1 ++ " ; " ++ natsStr l.2.1 ++ " ; " ++ natsStr l.2.2

def vtkOutcome (s : Sess) (o : Out Err (Map Val)) : Sess × String :=
  match o with
  | .ok m => ({ dim := 2, mask := 0, cfg := stdCfg 3 0, m := m }, "ok 0")
  | .err e => (s, errStr e)
  | .retry => (s, "retry")
  | .panic => (s, "panic")

def topVtk (s : Sess) (toks : List String) : Option (Sess × String) :=
  match toks with
  | ["vtkexp"] =>
    if s.dim ≠ 2 then some (s, "bad-op") else
    match exportPiece s.m with
    | .ok (pts, cells) => some (s, "ok " ++ pieceStr pts cells)
    | .err e => some (s, errStr e)
    | .retry => some (s, "retry")
    | .panic => some (s, "panic")
  | ["vtkascii"] =>
    if s.dim ≠ 2 then some (s, "bad-op") else
    match VtkText.asciiTokens s.m with
    | .ok toks => some (s, "ok " ++ " ".intercalate toks)
    | .err e => some (s, errStr e)
    | .retry => some (s, "retry")
    | .panic => some (s, "panic")
  | ["vtkrt"] =>
    if s.dim ≠ 2 then some (s, "bad-op") else some (vtkOutcome s (roundTrip s.m))
  | "vtkimp" :: mask :: rest =>
    match mask.toNat? with
    | none => some (s, "bad-op")
    | some mask =>
      match splitSemi rest with
      | [gp, [nc], gv, gt] =>
        match allSomeV (gp.map parseRat), nc.toNat?, allSomeV (gv.map String.toNat?), allSomeV (gt.map String.toNat?) with
        | some cs, some nc, some vs, some ts =>
          match triples cs with
          | none => some (s, "bad-op")
          | some pts =>
            if nc > vs.length then some (s, "bad-op") else
            some (vtkOutcome s (importLegacy pts nc vs ts mask))
        | _, _, _, _ => some (s, "bad-op")
      | _ => some (s, "bad-op")
  | _ => none

end HC
