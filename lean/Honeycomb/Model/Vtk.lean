/-
  L2 — VTK export / import of `CMap2`, on DATA (C11).

  Rust                                                              model
  ----                                                              -----
  dim2/serialize.rs   `build_unstructured_piece`                    `exportPiece`  (`lineCell`, `faceCell`)
  dim2/serialize.rs   `to_vtk_ascii` / `to_vtk_binary`              `exportPiece` + `toLegacy` (the writer is `vtkio`)
  builder/io.rs       `build_2d_from_vtk`                           `importLegacy` (`compLoop`, `importCells`,
                                                                     `cellStep`, `buildFace`, `corner`, `sewLoop`)
  builder/structure.rs `from_vtk_file(..).build()`                  `importLegacy` (the reader is `vtkio`)

  `vtkio` (legacy reader / writer, ASCII and binary) is OUTSIDE the model: the model works on the
  content of the single inline `UnstructuredGridPiece`: the point list (one `Val.pt x y z` per
  point), and the legacy cell description `num_cells`, the flat vertex list `n v0 … v(n-1) …` and
  the cell type codes (VTK numbering: 1 Vertex, 2 PolyVertex, 3 Line, 4 PolyLine, 5 Triangle,
  6 TriangleStrip, 7 Polygon, 8 Pixel, 9 Quad, ≥ 10 volumes and higher-order cells).

  Facts about the code that the model mirrors (all checked by the correspondence run):
  * export numbers the points by position in `iter_vertices` (increasing vertex ids), writes `z = 0`,
    emits FIRST one `Line` per edge id whose dart is 2-free — end points `vertex_id(d)`,
    `vertex_id(β1 d)`; a 1-free such dart makes `id_map[&0]` panic — THEN one cell per face id: the
    β1-only orbit (`OrbitPolicy::Custom(&[1])`) from the face id, mapped to point indices; 3 darts
    = Triangle, 4 = Quad, ≥ 5 = Polygon, ≤ 2 silently dropped.  A vertex id without a value panics
    (`expect`).  For an OPEN face the β1-only orbit from the face id (its smallest dart) misses the
    darts before it: the exported polygon is only a part of the face.
  * import ignores `z`, ignores `Vertex` and `Line` cells (after checking their lengths), rejects
    the other non-polygonal types, and builds per Triangle / Quad / Polygon `k` consecutive new darts
    in a β1 cycle with the cell's points written at the dart ids.  `sew_buffer` is a `BTreeMap`
    keyed by `(from, to)` POINT INDICES: a later dart with the same key REPLACES the earlier one;
    the sew phase pops the smallest key, removes the opposite key and 2-sews the two darts
    (`force_sew::<2>(..).unwrap()`: an orientation failure, i.e. two end points with EQUAL
    coordinates and different indices, is a panic).  Iteration order = key order (deterministic).
  * the builder's attribute manager is NOT used (`_manager`; the map is `CMap2::new(0)`): attributes
    requested with `add_attribute` are silently absent from the built map.
  * Triangle and Quad cells are built by unrolled code (all vertex writes, then the links, then the
    buffer inserts); the model uses the Polygon loop for them too: the calls are the same and
    independent, the only observable difference would be WHICH call panics first, and a panic
    discards everything.

  Import-free (core only).
-/
import Honeycomb.Model.Ops2
import Honeycomb.Model.Val

namespace HC
namespace Vtk

/-- a cell of the unstructured grid: VTK type code and point indices -/
structure VCell where
  ty : Nat
  vids : List Nat
  deriving Repr, DecidableEq, Inhabited

/-- 0 "vertex list contains an incomplete tuple", 1 "different # of cell in CELLS and CELL_TYPES",
    2 / 3 / 4 / 5 "`Vertex` / `Line` / `Triangle` / `Quad` with incorrect # of vertices" -/
def errBadVtk (c : Nat) : Err := ⟨"BadVtkData", [c]⟩
/-- 0 "dataset not supported", 1 "not inlined data piece", 2 "unsupported coordinate type",
    3 PolyVertex, 4 PolyLine, 5 TriangleStrip, 6 Pixel, 7 "CellType not supported in 2-maps",
    8 "XML format" -/
def errUnsupported (c : Nat) : Err := ⟨"UnsupportedVtkData", [c]⟩

/-- sequencing of fallible steps over a list (`for … { …? }` / lazy `map` + `find(is_err)`) -/
def foldOut {α σ : Type} (f : α → σ → Out Err σ) : List α → σ → Out Err σ
  | [], s => .ok s
  | x :: xs, s =>
    match f x s with
    | .ok s' => foldOut f xs s'
    | .err e => .err e
    | .retry => .retry
    | .panic => .panic

def optAll {α : Type} : List (Option α) → Option (List α)
  | [] => some []
  | none :: _ => none
  | some a :: r =>
    match optAll r with
    | none => none
    | some as => some (a :: as)

/-- `[v.x(), v.y(), T::zero()]` on export, `Vertex2(x, y)` (z ignored) on import -/
def flat : Val → Val
  | .pt x y _ => .pt x y 0
  | v => v

/-! ## export: `build_unstructured_piece` -/

/-- `id_map[&vid]`: position of `vid` in the `iter_vertices` list (`None` = the `BTreeMap` index
    panics) -/
def indexIn : List Nat → Nat → Option Nat
  | [], _ => none
  | x :: xs, v => if x = v then some 0 else (indexIn xs v).map (· + 1)

/-- `map.vertex_id(d)` (non-transactional) -/
def vidNT (m : Map Val) (d : Nat) : Option Nat :=
  match run (vertexId2 m.n d) m with
  | (.ok v, _) => some v
  | _ => none

/-- `id_map[&map.vertex_id(d)]` -/
def pointOf (m : Map Val) (vids : List Nat) (d : Nat) : Option Nat :=
  match vidNT m d with
  | some v => indexIn vids v
  | none => none

/-- `map.orbit(OrbitPolicy::Custom(&[1]), f)` collected -/
def walk1 (m : Map Val) (f : Nat) : Option (List Nat) :=
  match run (orbit2 m.n (.custom [1]) f) m with
  | (.ok o, _) => some o
  | _ => none

/-- 3 Triangle, 4 Quad, 5.. Polygon -/
def cellTypeOfCount (k : Nat) : Nat := if k = 3 then 5 else if k = 4 then 9 else 7

/-- one element of `edge_data` (after the `β2 = 0` filter) -/
def lineCell (m : Map Val) (vids : List Nat) (e : Nat) : Option VCell :=
  match pointOf m vids e with
  | none => none
  | some a =>
    match pointOf m vids (m.β 1 e) with
    | none => none
    | some b => some ⟨3, [a, b]⟩

/-- one element of `face_data` followed by the `match count`; outer `none` = panic, inner `none` =
    "silent ignore" -/
def faceCell (m : Map Val) (vids : List Nat) (f : Nat) : Option (Option VCell) :=
  match walk1 m f with
  | none => none
  | some o =>
    match optAll (o.map (pointOf m vids)) with
    | none => none
    | some ix => if ix.length ≤ 2 then some none else some (some ⟨cellTypeOfCount ix.length, ix⟩)

/-- 2-free edge ids, in `iter_edges` order -/
def boundaryEdges (m : Map Val) : List Nat := (iterEdges2 m).filter (fun e => m.β 2 e = 0)

/-- `build_unstructured_piece`: points and cells (Lines first, then faces) -/
def exportPiece (m : Map Val) : Out Err (List Val × List VCell) :=
  let vids := iterVertices2 m
  match optAll (vids.map (fun v => m.att 0 v)) with
  | none => .panic
  | some pts =>
    match optAll ((boundaryEdges m).map (lineCell m vids)) with
    | none => .panic
    | some lines =>
      match optAll ((iterFaces2 m).map (faceCell m vids)) with
      | none => .panic
      | some fcs => .ok (pts.map flat, lines ++ fcs.filterMap id)

/-- the legacy cell description: `(num_cells, flat vertex list, types)` -/
def toLegacy (cells : List VCell) : Nat × List Nat × List Nat :=
  (cells.length, (cells.map (fun c => c.vids.length :: c.vids)).flatten, cells.map (·.ty))

/-! ## import: `build_2d_from_vtk` -/

/-- `sew_buffer: BTreeMap<(usize, usize), DartIdType>` as an association list with unique keys -/
abbrev Buf := List ((Nat × Nat) × Nat)

/-- the order of `(usize, usize)` keys -/
def keyLt (a b : Nat × Nat) : Bool := a.1 < b.1 || (a.1 == b.1 && a.2 < b.2)

/-- `BTreeMap::insert`: an existing entry with the same key is replaced -/
def bufInsert (b : Buf) (k : Nat × Nat) (d : Nat) : Buf := b.filter (fun e => e.1 ≠ k) ++ [(k, d)]

/-- the entry `pop_first` returns -/
def bufMin : Buf → Option ((Nat × Nat) × Nat)
  | [] => none
  | e :: es =>
    match bufMin es with
    | none => some e
    | some f => if keyLt f.1 e.1 then some f else some e

def bufErase (b : Buf) (k : Nat × Nat) : Buf := b.filter (fun e => e.1 ≠ k)

def bufFind (b : Buf) (k : Nat × Nat) : Option Nat :=
  match b.find? (fun e => e.1 = k) with
  | some e => some e.2
  | none => none

/-- `force_write_vertex` = `atomically(|t| self.vertices.write(t, id, v))` -/
def writeVtx (id : Nat) (v : Val) : P Val (Option Val) := do
  let old ← rA 0 id
  wA 0 id (some v)
  pure old

/-- corner `i` of a cell with first dart `d0`: `force_write_vertex(di, vertices[vids[i]])`,
    `force_link::<1>(di, dip1).unwrap()`, `sew_buffer.insert((vids[i], vids[(i+1) % k]), di)` -/
def corner (pts : List Val) (vids : List Nat) (d0 : Nat) (i : Nat) (st : Map Val × Buf) :
    Out Err (Map Val × Buf) :=
  let k := vids.length
  let di := d0 + i
  let dn := if i = k - 1 then d0 else di + 1
  let a := vids.getD i 0
  let b := vids.getD ((i + 1) % k) 0
  match pts[a]? with
  | none => .panic
  | some p =>
    match atomically (writeVtx di p) st.1 with
    | (.ok _, m1) =>
      match atomically (oneLinkCore di dn) m1 with
      | (.ok _, m2) => .ok (m2, bufInsert st.2 (a, b) di)
      | _ => .panic
    | _ => .panic

/-- `add_free_darts(k)` then the corners in order -/
def buildFace (pts : List Val) (vids : List Nat) (st : Map Val × Buf) : Out Err (Map Val × Buf) :=
  let r := st.1.addFreeDarts vids.length
  foldOut (corner pts vids r.1) (List.range vids.length) (r.2, st.2)

/-- the `match cell_type` of the building closure -/
def cellStep (pts : List Val) (c : VCell) (st : Map Val × Buf) : Out Err (Map Val × Buf) :=
  match c.ty with
  | 1 => if c.vids.length ≠ 1 then .err (errBadVtk 2) else .ok st
  | 2 => .err (errUnsupported 3)
  | 3 => if c.vids.length ≠ 2 then .err (errBadVtk 3) else .ok st
  | 4 => .err (errUnsupported 4)
  | 5 => if c.vids.length ≠ 3 then .err (errBadVtk 4) else buildFace pts c.vids st
  | 6 => .err (errUnsupported 5)
  | 7 => buildFace pts c.vids st
  | 8 => .err (errUnsupported 6)
  | 9 => if c.vids.length ≠ 4 then .err (errBadVtk 5) else buildFace pts c.vids st
  | _ => .err (errUnsupported 7)

/-- the attribute configuration of the built map: none (`CMap2::new(0)`) -/
def cfg0 : Cfg Val := stdCfg 3 0

/-- `while let Some(((id0, id1), d0)) = sew_buffer.pop_first() { if let Some(d1) =
    sew_buffer.remove(&(id1, id0)) { force_sew::<2>(d0, d1).unwrap() } }`.
    Fuel = number of entries + 1 (every round removes the popped entry). -/
def sewLoop : Nat → Buf → Map Val → Out Err (Map Val)
  | 0, _, _ => .panic
  | f + 1, buf, m =>
    match bufMin buf with
    | none => .ok m
    | some e =>
      let rest := bufErase buf e.1
      match bufFind rest (e.1.2, e.1.1) with
      | none => sewLoop f rest m
      | some d1 =>
        match atomically (twoSew2 cfg0 m.n e.2 d1) m with
        | (.ok _, m') => sewLoop f (bufErase rest (e.1.2, e.1.1)) m'
        | _ => .panic

/-- the map `CMap2::new(0)`: the null dart only -/
def emptyMap : Map Val := Map.empty 3 6 1

/-- the cell phase: every cell in order, stopping at the first error -/
def buildCells (pts : List Val) (cells : List VCell) : Out Err (Map Val × Buf) :=
  foldOut (cellStep (pts.map flat)) cells (emptyMap, [])

/-- `build_2d_from_vtk` on a typed cell list.  `_mask` = the attributes of the builder: ignored by
    the code. -/
def importCells (pts : List Val) (cells : List VCell) (_mask : Nat := 0) : Out Err (Map Val) :=
  match buildCells pts cells with
  | .ok (m, buf) => sewLoop (buf.length + 1) buf m
  | .err e => .err e
  | .retry => .retry
  | .panic => .panic

/-- the `for vertex_id in &verts` loop: split the flat legacy list into cells.  `acc` holds the
    cells so far, newest first, each reversed. -/
def compLoop : List Nat → Nat → List (List Nat) → List (List Nat)
  | [], _, acc => (acc.map List.reverse).reverse
  | v :: vs, 0, acc => compLoop vs v ([] :: acc)
  | v :: vs, t + 1, c :: acc => compLoop vs t ((v :: c) :: acc)
  | v :: vs, t + 1, [] => compLoop vs t [[v]]

/-- `build_2d_from_vtk` on the content of the legacy piece -/
def importLegacy (pts : List Val) (numCells : Nat) (verts types : List Nat) (mask : Nat := 0) :
    Out Err (Map Val) :=
  if numCells ≠ types.length then .err (errBadVtk 1) else
  let comps := compLoop verts 0 []
  if numCells ≠ comps.length then .panic else
  importCells pts ((types.zip comps).map (fun tc => ⟨tc.1, tc.2⟩)) mask

/-- export then import (what `vtkrt` does) -/
def roundTrip (m : Map Val) : Out Err (Map Val) :=
  match exportPiece m with
  | .ok (pts, cells) =>
    let l := toLegacy cells
    importLegacy pts l.1 l.2.1 l.2.2
  | .err e => .err e
  | .retry => .retry
  | .panic => .panic

end Vtk
end HC
