/-
  L2 — the cmap text format of `CMap2`, at TOKEN level (C09, C10).

  Rust                                                         model
  ----                                                         -----
  dim2/serialize.rs        `CMap2::serialize`                  `serialize`
  builder/io.rs            `CMapFile::try_from`                `parseFile`   (`stepLine`, `parseLines`)
  builder/io.rs            `parse_meta`                        `parseMeta`
  builder/io.rs            `build_2d_from_cmap_file`           `build`  (`parseRows`, `setLoop`, `unusedLoop`, `verticesLoop`)
  builder/structure.rs     `from_cmap_file(..).build()`        `load`

  A text is a list of lines, a line a list of tokens (maximal runs of non-blank characters).
  What is *not* modelled is the character level: column padding (`{:>width$}`), the blank
  separating tokens, trailing blanks, and the decimal printing / parsing of floats.  Coordinates
  are opaque tokens: the model prints the exact rational text `ratStr` and the harness converts
  the float tokens of the real output to the same notation before comparing (and converts
  `p/q` tokens back to the shortest decimal before feeding a text to the real loader).

  The only public entry point is `CMapBuilder::from_cmap_file(path).build()`; `from_cmap_file`
  *unwraps* the result of `CMapFile::try_from`, i.e. every error of `parseFile` is a (documented)
  panic there.  `load` keeps the two stages apart: `parseFile` errors are returned as `err` with
  the variants `UnknownHeader / DuplicatedSection / MissingSection / BadMetaData 0-2` (the driver
  prints them as `layout …`), errors of `build` are `BadMetaData 3 / InconsistentData / BadValue`.
  C10 quantifies over the texts whose layout is accepted, i.e. `parseFile f = .ok _`.

  Import-free (core only).
-/
import Honeycomb.Model.Ops2
import Honeycomb.Model.Val

namespace HC
namespace CmapText

abbrev Line := List String

/-! ## error values: `BuilderError` variant + a code for its `&'static str` payload -/

/-- 0 "incorrect format", 1 "could not parse dimension", 2 "could not parse dart number",
    3 "mismatch between requested dimension and header" -/
def errBadMeta (c : Nat) : Err := ⟨"BadMetaData", [c]⟩
/-- 0 "wrong number of beta functions", 1+i "wrong number of values for the beta i function",
    4 "non-null image of the null dart", 5 "beta image is not an existing dart",
    6 "beta 0 is not the inverse of beta 1", 7 "beta 2 is not a fixed-point-free involution",
    8 "unused ID is not a free dart, or is listed twice", 9 "vertex ID is not an existing dart" -/
def errInconsistent (c : Nat) : Err := ⟨"InconsistentData", [c]⟩
/-- 0,1,2 "could not parse a b{0,1,2} value", 3 "could not parse an unused ID",
    4 "incorrect vertex line format", 5 "could not parse vertex ID", 6 / 7 x / y coordinate -/
def errBadValue (c : Nat) : Err := ⟨"BadValue", [c]⟩
/-- 0 "meta", 1 "betas" -/
def errMissing (c : Nat) : Err := ⟨"MissingSection", [c]⟩
def errUnknownHeader : Err := ⟨"UnknownHeader", []⟩
def errDuplicated : Err := ⟨"DuplicatedSection", []⟩

/-! ## numerals: `<u32 as FromStr>` / `<usize as FromStr>` -/

def stripPlus : List Char → List Char
  | '+' :: r => r
  | cs => cs

/-- Rust's unsigned `from_str`: an optional `+`, at least one ASCII digit, nothing else
    (no `_`, no `-`), value below the type's bound.  (`String.toNat?` accepts `1_000`.) -/
def parseUChars (bound : Nat) (cs : List Char) : Option Nat :=
  let ds := stripPlus cs
  if ds.isEmpty || !ds.all Char.isDigit then none else
  let v := Nat.ofDigitChars 10 ds 0
  if v < bound then some v else none

def u32Bound : Nat := 2 ^ 32
def usizeBound : Nat := 2 ^ 64

/-- `DartIdType` / `VertexIdType` = `u32` -/
def parseU32 (s : String) : Option Nat := parseUChars u32Bound s.toList
def parseUsize (s : String) : Option Nat := parseUChars usizeBound s.toList

/-! ## coordinate tokens -/

/-- split at the first occurrence of a separator -/
def splitAt1 (p : Char → Bool) : List Char → List Char × Option (List Char)
  | [] => ([], none)
  | x :: xs =>
    if p x then ([], some xs) else
    match splitAt1 p xs with
    | (a, b) => (x :: a, b)

def allDigits (ds : List Char) : Bool := ds.all Char.isDigit
def digitsVal (ds : List Char) : Nat := Nat.ofDigitChars 10 ds 0

/-- optional `-` -/
def splitMinus : List Char → Bool × List Char
  | '-' :: r => (true, r)
  | cs => (false, cs)

/-- optional `+` or `-` (Rust's `Sign?`) -/
def splitSign : List Char → Bool × List Char
  | '+' :: r => (false, r)
  | '-' :: r => (true, r)
  | cs => (false, cs)

/-- the harness' exact notation `-?digits/digits` (1–18 digits each, non-zero denominator);
    not part of the file format: the implementation driver rewrites such a token to the
    shortest decimal of the quotient before the real loader sees it -/
def parseRatio (cs : List Char) : Option Rat :=
  match splitAt1 (· = '/') cs with
  | (a0, some b) =>
    let neg := (splitMinus a0).1
    let a := (splitMinus a0).2
    if a.isEmpty || b.isEmpty || !allDigits a || !allDigits b || 18 < a.length || 18 < b.length then none else
    let q := digitsVal b
    if q = 0 then none else
    some (mkRat (if neg then -(digitsVal a : Int) else (digitsVal a : Int)) q)
  | _ => none

/-- the finite part of Rust's `f64::from_str` grammar
    `Sign? (Digit+ | Digit+ '.' Digit* | Digit* '.' Digit+) ([eE] Sign? Digit+)?`
    with its exact rational value.  Deviations, kept out of the compared streams:
    `inf / infinity / nan` are valid in Rust but not representable in `Val` (→ `none`);
    exponents above 30 in magnitude are refused; the rounding to the nearest `f64` is not
    modelled (the generators only use exactly representable values). -/
def parseDecimal (cs : List Char) : Option Rat :=
  let neg := (splitSign cs).1
  let body := (splitSign cs).2
  match splitAt1 (fun c => c = 'e' || c = 'E') body with
  | (mant, ex) =>
    match splitAt1 (· = '.') mant with
    | (ip, fp) =>
      let fpd := fp.getD []
      if !allDigits ip || !allDigits fpd || (ip.isEmpty && fpd.isEmpty) then none else
      let e? : Option Int := match ex with
        | none => some 0
        | some e =>
          let eneg := (splitSign e).1
          let ed := (splitSign e).2
          if ed.isEmpty || !allDigits ed || 30 < digitsVal ed then none
          else some (if eneg then -(digitsVal ed : Int) else (digitsVal ed : Int))
      match e? with
      | none => none
      | some e =>
        -- ± digits · 10^(e - |fraction|), exactly
        let n : Int := if neg then -(digitsVal (ip ++ fpd) : Int) else (digitsVal (ip ++ fpd) : Int)
        some (if e < 0 then mkRat n (10 ^ (fpd.length + e.natAbs))
              else mkRat (n * 10 ^ e.natAbs) (10 ^ fpd.length))

def parseCoord (s : String) : Option Rat :=
  let cs := s.toList
  if cs.contains '/' then parseRatio cs else parseDecimal cs

/-! ## `CMap2::serialize` -/

/-- `env!("CARGO_PKG_VERSION")` of honeycomb-core (checked by the correspondence run) -/
def pkgVersion : String := "0.8.1"

def natTok (n : Nat) : String := Nat.repr n

/-- one β line: `(0..n_darts).for_each(|d| write!("{:>width$} ", self.beta::<I>(d)))` -/
def betaLine (m : Map Val) (i : Nat) : Line :=
  (List.range m.n).map fun d => natTok (m.β i d)

/-- `self.unused_darts.iter().enumerate().filter(|(_, v)| v.read_atomic())` (index 0 included) -/
def unusedLine (m : Map Val) : Line :=
  ((List.range m.u.size).filter fun d => m.unused d).map natTok

/-- `if let Some(val) = self.force_read_vertex(v) { writeln!("{v} {} {}", val.0, val.1) }` -/
def vertexLine (m : Map Val) (v : Nat) : Option Line :=
  match m.att 0 v with
  | none => none
  | some (.pt x y _) => some [natTok v, ratStr x, ratStr y]
  | some (.tm _) => some [natTok v, "?", "?"]  -- ill-typed slot; no driver command produces it

/-- the lines of `serialize`, blank lines included (`[]`); the `[UNUSED]` content line is
    always written, possibly empty -/
def serialize (ver : String) (m : Map Val) : List Line :=
  [["[META]"], [ver, "2", natTok (m.n - 1)], [],
   ["[BETAS]"], betaLine m 0, betaLine m 1, betaLine m 2, [],
   ["[UNUSED]"], unusedLine m, [],
   ["[VERTICES]"]] ++ (iterVertices2 m).filterMap (vertexLine m)

/-- whether `serialize` panics: the iterator `iter_vertices` calls `vertex_id` on every in-use
    dart, which indexes the β rows with stored images (possible only on ill-formed maps) -/
def serializePanics (m : Map Val) : Bool :=
  m.n = 0 || (List.range m.n).any fun d =>
    d ≠ 0 && !m.unused d && (match (run (vertexId2 m.n d) m).1 with
      | .ok _ => false
      | _ => true)

/-! ## `CMapFile::try_from` -/

inductive Sec where
  | smeta | sbetas | sunused | sverts
  deriving DecidableEq, Repr

/-- the `HashMap<String, String>` of sections; a content is the list of its non-empty lines -/
structure Secs where
  smeta : Option (List Line) := none
  sbetas : Option (List Line) := none
  sunused : Option (List Line) := none
  sverts : Option (List Line) := none
  deriving Repr

def Secs.sel (s : Secs) : Sec → Option (List Line)
  | .smeta => s.smeta
  | .sbetas => s.sbetas
  | .sunused => s.sunused
  | .sverts => s.sverts

def Secs.put (s : Secs) (k : Sec) (v : List Line) : Secs :=
  match k with
  | .smeta => { s with smeta := some v }
  | .sbetas => { s with sbetas := some v }
  | .sunused => { s with sunused := some v }
  | .sverts => { s with sverts := some v }

def secOfName (s : String) : Option Sec :=
  if s = "meta" then some .smeta
  else if s = "betas" then some .sbetas
  else if s = "unused" then some .sunused
  else if s = "vertices" then some .sverts
  else none

def isBracket (c : Char) : Bool := c = '[' || c = ']'

/-- `trimmed.trim_matches(['[', ']'])` -/
def trimBrackets (cs : List Char) : List Char :=
  ((cs.dropWhile isBracket).reverse.dropWhile isBracket).reverse

/-- `trimmed.trim_matches(['[', ']']).to_lowercase()` of the whole line (comment included).
    ASCII lowering: no non-ASCII string lowers to one of the four section names. -/
def sectionName (l : Line) : String :=
  String.ofList ((trimBrackets (" ".intercalate l).toList).map Char.toLower)

/-- `trimmed.starts_with('[') && trimmed.contains(']')` -/
def isHeader (l : Line) : Bool :=
  match l with
  | [] => false
  | t :: _ => t.toList.head? = some '[' && l.any (fun t => t.toList.contains ']')

/-- `trimmed.split('#').next().unwrap().trim()`, as tokens -/
def stripComment : Line → Line
  | [] => []
  | t :: ts =>
    if t.toList.contains '#' then
      match (splitAt1 (· = '#') t.toList).1 with
      | [] => []
      | p => [String.ofList p]
    else t :: stripComment ts

/-- one iteration of the `for line in value.trim().lines()` loop; the state is the section map
    and `current_section` -/
def stepLine (st : Secs × Option Sec) (l : Line) : Except Err (Secs × Option Sec) :=
  match l with
  | [] => .ok st
  | t :: _ =>
    if t.toList.head? = some '#' then .ok st
    else if isHeader l then
      match secOfName (sectionName l) with
      | none => .error errUnknownHeader
      | some s =>
        if (st.1.sel s).isSome then .error errDuplicated
        else .ok (st.1.put s [], some s)
    else
      match st.2 with
      | none => .ok st
      | some s =>
        let c := stripComment l
        if c.isEmpty then .ok st
        else .ok (st.1.put s ((st.1.sel s).getD [] ++ [c]), some s)

def parseLines : List Line → Secs × Option Sec → Except Err Secs
  | [], st => .ok st.1
  | l :: ls, st =>
    match stepLine st l with
    | .error e => .error e
    | .ok st' => parseLines ls st'

/-- `parse_meta`: `split_whitespace` over the whole section content -/
def parseMeta (content : List Line) : Except Err (String × Nat × Nat) :=
  match content.flatten with
  | [v, d, n] =>
    match parseUsize d with
    | none => .error (errBadMeta 1)
    | some d =>
      match parseUsize n with
      | none => .error (errBadMeta 2)
      | some n => .ok (v, d, n)
  | _ => .error (errBadMeta 0)

/-- `CMapFile` -/
structure CFile where
  version : String
  dim : Nat
  nd : Nat
  betas : List Line
  unused : Option (List Line)
  vertices : Option (List Line)
  deriving Repr

def parseFile (lines : List Line) : Except Err CFile :=
  match parseLines lines ({}, none) with
  | .error e => .error e
  | .ok secs =>
    match secs.smeta with
    | none => .error (errMissing 0)
    | some mt =>
      match secs.sbetas with
      | none => .error (errMissing 1)
      | some bs =>
        match parseMeta mt with
        | .error e => .error e
        | .ok (v, d, n) =>
          .ok { version := v, dim := d, nd := n, betas := bs, unused := secs.sunused, vertices := secs.sverts }

/-! ## `build_2d_from_cmap_file` -/

/-- `set_betas`: one transaction, three writes -/
def setBetas (d b0 b1 b2 : Nat) : P Val Unit := do
  wB 0 d b0
  wB 1 d b1
  wB 2 d b2

/-- `force_write_vertex` = `atomically(|t| self.vertices.write(t, id, v))` (`replace`) -/
def forceWriteVertex (id : Nat) (v : Val) : P Val (Option Val) := do
  let old ← rA 0 id
  wA 0 id (some v)
  pure old

/-- the parsing `multizip` loop: every image, null-dart column included, dart by dart in the
    order b0, b1, b2; the first token that is not a `u32` aborts with its `BadValue` -/
def parseRows : List String → List String → List String →
    Except Err (List Nat × List Nat × List Nat)
  | t0 :: r0, t1 :: r1, t2 :: r2 =>
    match parseU32 t0 with
    | none => .error (errBadValue 0)
    | some b0 =>
      match parseU32 t1 with
      | none => .error (errBadValue 1)
      | some b1 =>
        match parseU32 t2 with
        | none => .error (errBadValue 2)
        | some b2 =>
          match parseRows r0 r1 r2 with
          | .error e => .error e
          | .ok rows => .ok (b0 :: rows.1, b1 :: rows.2.1, b2 :: rows.2.2)
  | _, _, _ => .ok ([], [], [])

/-- `images[d][i]` -/
def tbl (rows : List Nat × List Nat × List Nat) (i d : Nat) : Nat :=
  match i with
  | 0 => rows.1.getD d 0
  | 1 => rows.2.1.getD d 0
  | 2 => rows.2.2.getD d 0
  | _ => 0

/-- `images[0] == [0, 0, 0]` -/
def nullOK (T : Nat → Nat → Nat) : Bool :=
  decide (T 0 0 = 0) && decide (T 1 0 = 0) && decide (T 2 0 = 0)

/-- `!images.iter().flatten().any(|&b| b >= n_darts)` -/
def rangeOK (T : Nat → Nat → Nat) (n : Nat) : Bool :=
  (List.range n).all fun d => decide (T 0 d < n) && decide (T 1 d < n) && decide (T 2 d < n)

/-- the two tests of the per-dart loop, the inverse test first -/
def dartCheck (T : Nat → Nat → Nat) (d : Nat) : Option Err :=
  if (T 1 d ≠ 0 ∧ T 0 (T 1 d) ≠ d) ∨ (T 0 d ≠ 0 ∧ T 1 (T 0 d) ≠ d) then some (errInconsistent 6)
  else if T 2 d ≠ 0 ∧ (T 2 (T 2 d) ≠ d ∨ T 2 d = d) then some (errInconsistent 7)
  else none

/-- `for (d, imgs) in images.iter().enumerate().skip(1) { map.set_betas(d, imgs) }` -/
def setLoop (T : Nat → Nat → Nat) : List Nat → Map Val → Out Err (Map Val)
  | [], m => .ok m
  | d :: ds, m =>
    match atomically (setBetas d (T 0 d) (T 1 d) (T 2 d)) m with
    | (.ok _, m') => setLoop T ds m'
    | _ => .panic

/-- the `[UNUSED]` loop: parse, validate (`d == 0 || d >= n_darts || !is_free(d) || is_unused(d)`,
    short-circuit), `remove_free_dart` (whose assertions can no longer fire) -/
def unusedLoop : List String → Map Val → Out Err (Map Val)
  | [], m => .ok m
  | t :: ts, m =>
    match parseU32 t with
    | none => .err (errBadValue 3)
    | some d =>
      if d = 0 || decide (m.n ≤ d) || !m.isFree 3 d || m.unused d then .err (errInconsistent 8) else
      match m.removeFreeDart 3 d with
      | (.ok _, m') => unusedLoop ts m'
      | _ => .panic

/-- `map.force_write_vertex(id, v)` as a loader step: an index panic aborts the build -/
def writeVertex (id : Nat) (v : Val) (m : Map Val) : Out Err (Map Val) :=
  match atomically (forceWriteVertex id v) m with
  | (.ok _, m') => .ok m'
  | _ => .panic

/-- the format checks of one `[VERTICES]` line, in the order of the code -/
def parseVertexLine (l : Line) : Except Err (Nat × Rat × Rat) :=
  match l with
  | [] => .error (errBadValue 4)
  | tid :: r =>
    match parseU32 tid with
    | none => .error (errBadValue 5)
    | some id =>
      match r with
      | [] => .error (errBadValue 4)
      | tx :: r =>
        match parseCoord tx with
        | none => .error (errBadValue 6)
        | some x =>
          match r with
          | [] => .error (errBadValue 4)
          | ty :: r =>
            match parseCoord ty with
            | none => .error (errBadValue 7)
            | some y =>
              if !r.isEmpty then .error (errBadValue 4) else .ok (id, x, y)

/-- one line of the `[VERTICES]` section: format, then
    `id == 0 || id >= n_darts || is_unused(id)` (short-circuit), then the write -/
def vertexStep (l : Line) (m : Map Val) : Out Err (Map Val) :=
  match parseVertexLine l with
  | .error e => .err e
  | .ok v =>
    if v.1 = 0 || decide (m.n ≤ v.1) || m.unused v.1 then .err (errInconsistent 9)
    else writeVertex v.1 (.pt v.2.1 v.2.2 0) m

def verticesLoop : List Line → Map Val → Out Err (Map Val)
  | [], m => .ok m
  | l :: ls, m =>
    match vertexStep l m with
    | .ok m' => verticesLoop ls m'
    | o => o

/-- last part of `build_2d_from_cmap_file`: `set_betas` for every dart, `[UNUSED]`, `[VERTICES]` -/
def buildMap (ns : Nat) (f : CFile) (T : Nat → Nat → Nat) : Out Err (Map Val) :=
  match setLoop T (List.range' 1 f.nd) (Map.empty 3 ns (f.nd + 1)) with
  | .ok m1 =>
    match unusedLoop ((f.unused.getD []).flatten) m1 with
    | .ok m2 => verticesLoop (f.vertices.getD []) m2
    | o => o
  | o => o

/-- middle part: the structural checks on the parsed images (null dart, range, then per dart the
    inverse test and the β2 test) -/
def buildRows (ns : Nat) (f : CFile) (rows : List Nat × List Nat × List Nat) : Out Err (Map Val) :=
  if !nullOK (tbl rows) then .err (errInconsistent 4) else
  if !rangeOK (tbl rows) (f.nd + 1) then .err (errInconsistent 5) else
  match (List.range' 1 f.nd).findSome? (dartCheck (tbl rows)) with
  | some e => .err e
  | none => buildMap ns f (tbl rows)

/-- `build_2d_from_cmap_file` (after the validation fix 7170072); `ns` = number of attribute
    storages of the builder's manager plus one (storage 0 = vertices), all created undefined with
    `n_darts` slots.  Order: dimension, number and lengths of the β lines, parse every image,
    null dart, range, per dart inverse / β2, `set_betas`, `[UNUSED]`, `[VERTICES]`. -/
def build (ns : Nat) (f : CFile) : Out Err (Map Val) :=
  if f.dim ≠ 2 then .err (errBadMeta 3) else
  match f.betas with
  | [l0, l1, l2] =>
    if l0.length ≠ f.nd + 1 then .err (errInconsistent 1) else
    if l1.length ≠ f.nd + 1 then .err (errInconsistent 2) else
    if l2.length ≠ f.nd + 1 then .err (errInconsistent 3) else
    match parseRows l0 l1 l2 with
    | .error e => .err e
    | .ok rows => buildRows ns f rows
  | _ => .err (errInconsistent 0)

/-- the two stages in sequence (as `builder/tests.rs` chains them); through the public
    `from_cmap_file` the first stage's errors surface as panics -/
def load (ns : Nat) (lines : List Line) : Out Err (Map Val) :=
  match parseFile lines with
  | .error e => .err e
  | .ok f => build ns f

end CmapText
end HC
