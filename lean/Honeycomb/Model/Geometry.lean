/-
  Model of the geometric primitives (property C19).

  Rust sources mirrored here, one definition per `impl` block / method:
    honeycomb-core/src/geometry/dim2/vector.rs   (`Vector2<T>`)   → `V2`
    honeycomb-core/src/geometry/dim2/vertex.rs   (`Vertex2<T>`)   → `P2`
    honeycomb-core/src/geometry/dim3/vector.rs   (`Vector3<T>`)   → `V3`
    honeycomb-core/src/geometry/dim3/vertex.rs   (`Vertex3<T>`)   → `P3`
    honeycomb-core/src/geometry/mod.rs           (`CoordsError`)
    honeycomb-kernels/src/skewness/mod.rs        (`compute_face_skewness_2d/3d`, discrete part)

  The coordinate type `α` is a parameter carrying *operations only* (`Add`, `Sub`, …; no laws),
  as `T: CoordsFloat` is in the Rust.  The driver instantiates it with `Rat`; the proofs
  (`Props/C19.lean`) with an arbitrary field, with `ℝ` and with a rounded arithmetic.

  Conventions
  * A binary operator `a ∘ b` and its compound assignment `a ∘= b` are SEPARATE definitions.  The
    compound form is written as the sequence of field updates the Rust performs, so that
    "`a ∘= b` gives the same result as `a ∘ b`" is a statement about two definitions.
    The model describes what the code DOES, statement by statement (this is how finding D12 —
    `SubAssign for Vector2` subtracting `rhs.0` twice — was caught; fixed in /repo 90eb331).
  * `assert!(!rhs.is_zero())` of `Div`/`DivAssign` is the `none` result (panic) of `div`/`divAssign`.
  * `norm` needs `hypot`/`sqrt`; the executable model never takes a root.  `unit_dir` is modelled by
    `unitDirPre`, which returns the *radicand* `s = ‖v‖²` and the unnormalised direction `v`; the
    Rust result is `v / √s` (see `Props/C19.lean`, `unitDirR`).  The Rust tests `norm.is_zero()`
    where `norm = hypot(x, y)` (2-D) resp. `sqrt(x·x + y·y + z·z)` (3-D); a root is zero exactly
    when its radicand is, so the model tests `s = 0`.
-/

namespace HC.Geo

/-- `geometry/mod.rs: enum CoordsError` -/
inductive CoordsError where
  | invalidUnitDir
  | invalidNormDir
  deriving Repr, DecidableEq, Inhabited

def CoordsError.toStr : CoordsError → String
  | .invalidUnitDir => "InvalidUnitDir"
  | .invalidNormDir => "InvalidNormDir"

/-- `Vector2<T>(pub T, pub T)` -/
structure V2 (α : Type) where
  x : α
  y : α
  deriving Repr, DecidableEq, Inhabited

/-- `Vertex2<T>(pub T, pub T)` -/
structure P2 (α : Type) where
  x : α
  y : α
  deriving Repr, DecidableEq, Inhabited

/-- `Vector3<T>(pub T, pub T, pub T)` -/
structure V3 (α : Type) where
  x : α
  y : α
  z : α
  deriving Repr, DecidableEq, Inhabited

/-- `Vertex3<T>(pub T, pub T, pub T)` -/
structure P3 (α : Type) where
  x : α
  y : α
  z : α
  deriving Repr, DecidableEq, Inhabited

variable {α : Type}

/-! ## `Vector2` (dim2/vector.rs) -/
section V2ops
variable [Add α] [Sub α] [Mul α] [Div α] [Neg α]

/-- `Vector2::unit_x` -/
def V2.unitX [OfNat α 0] [OfNat α 1] : V2 α := ⟨1, 0⟩
/-- `Vector2::unit_y` -/
def V2.unitY [OfNat α 0] [OfNat α 1] : V2 α := ⟨0, 1⟩
/-- `#[derive(Default)]` -/
def V2.default [OfNat α 0] : V2 α := ⟨0, 0⟩
/-- `From<(T, T)>` -/
def V2.ofTuple (p : α × α) : V2 α := ⟨p.1, p.2⟩
/-- `into_inner` -/
def V2.intoInner (v : V2 α) : α × α := (v.x, v.y)

/-- `impl Add<Vector2<T>> for Vector2<T>` -/
def V2.add (a b : V2 α) : V2 α := ⟨a.x + b.x, a.y + b.y⟩

/-- `impl AddAssign<Vector2<T>> for Vector2<T>`: `self.0 += rhs.0; self.1 += rhs.1;` -/
def V2.addAssign (a b : V2 α) : V2 α :=
  let s := a
  let s := { s with x := s.x + b.x }
  let s := { s with y := s.y + b.y }
  s

/-- `impl Sub<Vector2<T>> for Vector2<T>` -/
def V2.sub (a b : V2 α) : V2 α := ⟨a.x - b.x, a.y - b.y⟩

/-- `impl SubAssign<Vector2<T>> for Vector2<T>`: `self.0 -= rhs.0; self.1 -= rhs.1;`
    (until /repo commit 90eb331 the second statement repeated the first — finding D12, fixed). -/
def V2.subAssign (a b : V2 α) : V2 α :=
  let s := a
  let s := { s with x := s.x - b.x }
  let s := { s with y := s.y - b.y }
  s

/-- `impl Mul<T> for Vector2<T>` -/
def V2.mul (a : V2 α) (k : α) : V2 α := ⟨a.x * k, a.y * k⟩

/-- `impl MulAssign<T> for Vector2<T>` -/
def V2.mulAssign (a : V2 α) (k : α) : V2 α :=
  let s := a
  let s := { s with x := s.x * k }
  let s := { s with y := s.y * k }
  s

/-- body of `Div` after the assertion -/
def V2.divCore (a : V2 α) (k : α) : V2 α := ⟨a.x / k, a.y / k⟩

/-- `impl Div<T> for Vector2<T>`: `assert!(!rhs.is_zero())`; `none` = panic -/
def V2.div [OfNat α 0] [DecidableEq α] (a : V2 α) (k : α) : Option (V2 α) :=
  if k = 0 then none else some (V2.divCore a k)

/-- `impl DivAssign<T> for Vector2<T>` -/
def V2.divAssign [OfNat α 0] [DecidableEq α] (a : V2 α) (k : α) : Option (V2 α) :=
  if k = 0 then none else
    let s := a
    let s := { s with x := s.x / k }
    let s := { s with y := s.y / k }
    some s

/-- `impl Neg for Vector2<T>` -/
def V2.neg (a : V2 α) : V2 α := ⟨-a.x, -a.y⟩

/-- `Vector2::dot`: `self.0 * other.0 + self.1 * other.1` -/
def V2.dot (a b : V2 α) : α := a.x * b.x + a.y * b.y

/-- radicand of `Vector2::norm` (`hypot(x, y) = √(x·x + y·y)`) -/
def V2.normSq (a : V2 α) : α := a.x * a.x + a.y * a.y

/-- `Vector2::unit_dir` without the root: `Err(InvalidUnitDir)` when the norm is zero, otherwise the
    radicand `s` and the direction `v`; the Rust value is `Ok(v / √s)`. -/
def V2.unitDirPre [OfNat α 0] [DecidableEq α] (a : V2 α) : Except CoordsError (α × V2 α) :=
  if V2.normSq a = 0 then .error .invalidUnitDir else .ok (V2.normSq a, a)

/-- `Vector2::normal_dir`: `Self(-self.1, self.0).unit_dir().map_err(|_| InvalidNormDir)` -/
def V2.normalDirPre [OfNat α 0] [DecidableEq α] (a : V2 α) : Except CoordsError (α × V2 α) :=
  match V2.unitDirPre (⟨-a.y, a.x⟩ : V2 α) with
  | .ok r => .ok r
  | .error _ => .error .invalidNormDir

end V2ops

/-! ## `Vector3` (dim3/vector.rs) -/
section V3ops
variable [Add α] [Sub α] [Mul α] [Div α] [Neg α]

def V3.unitX [OfNat α 0] [OfNat α 1] : V3 α := ⟨1, 0, 0⟩
def V3.unitY [OfNat α 0] [OfNat α 1] : V3 α := ⟨0, 1, 0⟩
def V3.unitZ [OfNat α 0] [OfNat α 1] : V3 α := ⟨0, 0, 1⟩
def V3.default [OfNat α 0] : V3 α := ⟨0, 0, 0⟩
def V3.ofTuple (p : α × α × α) : V3 α := ⟨p.1, p.2.1, p.2.2⟩
def V3.intoInner (v : V3 α) : α × α × α := (v.x, v.y, v.z)
/-- `impl From<Vector2<T>> for Vector3<T>` -/
def V3.ofV2 [OfNat α 0] (v : V2 α) : V3 α := ⟨v.x, v.y, 0⟩

/-- `impl Add<Vector3<T>> for Vector3<T>` -/
def V3.add (a b : V3 α) : V3 α := ⟨a.x + b.x, a.y + b.y, a.z + b.z⟩

/-- `impl AddAssign<Vector3<T>> for Vector3<T>` -/
def V3.addAssign (a b : V3 α) : V3 α :=
  let s := a
  let s := { s with x := s.x + b.x }
  let s := { s with y := s.y + b.y }
  let s := { s with z := s.z + b.z }
  s

/-- `impl Sub<Vector3<T>> for Vector3<T>` -/
def V3.sub (a b : V3 α) : V3 α := ⟨a.x - b.x, a.y - b.y, a.z - b.z⟩

/-- `impl SubAssign<Vector3<T>> for Vector3<T>` -/
def V3.subAssign (a b : V3 α) : V3 α :=
  let s := a
  let s := { s with x := s.x - b.x }
  let s := { s with y := s.y - b.y }
  let s := { s with z := s.z - b.z }
  s

/-- `impl Mul<T> for Vector3<T>` -/
def V3.mul (a : V3 α) (k : α) : V3 α := ⟨a.x * k, a.y * k, a.z * k⟩

/-- `impl MulAssign<T> for Vector3<T>` -/
def V3.mulAssign (a : V3 α) (k : α) : V3 α :=
  let s := a
  let s := { s with x := s.x * k }
  let s := { s with y := s.y * k }
  let s := { s with z := s.z * k }
  s

def V3.divCore (a : V3 α) (k : α) : V3 α := ⟨a.x / k, a.y / k, a.z / k⟩

/-- `impl Div<T> for Vector3<T>`: `assert!(!rhs.is_zero())`; `none` = panic -/
def V3.div [OfNat α 0] [DecidableEq α] (a : V3 α) (k : α) : Option (V3 α) :=
  if k = 0 then none else some (V3.divCore a k)

/-- `impl DivAssign<T> for Vector3<T>` -/
def V3.divAssign [OfNat α 0] [DecidableEq α] (a : V3 α) (k : α) : Option (V3 α) :=
  if k = 0 then none else
    let s := a
    let s := { s with x := s.x / k }
    let s := { s with y := s.y / k }
    let s := { s with z := s.z / k }
    some s

/-- `impl Neg for Vector3<T>` -/
def V3.neg (a : V3 α) : V3 α := ⟨-a.x, -a.y, -a.z⟩

/-- `Vector3::dot`: `self.0 * other.0 + self.1 * other.1 + self.2 * other.2` -/
def V3.dot (a b : V3 α) : α := a.x * b.x + a.y * b.y + a.z * b.z

/-- `Vector3::cross` -/
def V3.cross (a b : V3 α) : V3 α :=
  ⟨a.y * b.z - a.z * b.y, a.z * b.x - a.x * b.z, a.x * b.y - a.y * b.x⟩

/-- radicand of `Vector3::norm`: `self.0 * self.0 + self.1 * self.1 + self.2 * self.2` -/
def V3.normSq (a : V3 α) : α := a.x * a.x + a.y * a.y + a.z * a.z

/-- `Vector3::unit_dir` without the root (see `V2.unitDirPre`) -/
def V3.unitDirPre [OfNat α 0] [DecidableEq α] (a : V3 α) : Except CoordsError (α × V3 α) :=
  if V3.normSq a = 0 then .error .invalidUnitDir else .ok (V3.normSq a, a)

end V3ops

/-! ## `Vertex2` (dim2/vertex.rs) -/
section P2ops
variable [Add α] [Sub α] [Mul α] [Div α]

def P2.default [OfNat α 0] : P2 α := ⟨0, 0⟩
def P2.ofTuple (p : α × α) : P2 α := ⟨p.1, p.2⟩
def P2.intoInner (v : P2 α) : α × α := (v.x, v.y)

/-- `Vertex2::average`: `((lhs.0 + rhs.0) / two, (lhs.1 + rhs.1) / two)` -/
def P2.average [OfNat α 2] (a b : P2 α) : P2 α := ⟨(a.x + b.x) / 2, (a.y + b.y) / 2⟩

/-- `Vertex2::cross_product_from_vertices`:
    `(v2.x - v1.x) * (v3.y - v2.y) - (v2.y - v1.y) * (v3.x - v2.x)` -/
def P2.orient (v1 v2 v3 : P2 α) : α :=
  (v2.x - v1.x) * (v3.y - v2.y) - (v2.y - v1.y) * (v3.x - v2.x)

/-- `impl Add<Vector2<T>> for Vertex2<T>` -/
def P2.addV (p : P2 α) (v : V2 α) : P2 α := ⟨p.x + v.x, p.y + v.y⟩

/-- `impl AddAssign<Vector2<T>> for Vertex2<T>` -/
def P2.addVAssign (p : P2 α) (v : V2 α) : P2 α :=
  let s := p
  let s := { s with x := s.x + v.x }
  let s := { s with y := s.y + v.y }
  s

/-- `impl Add<&Vector2<T>> for Vertex2<T>` -/
def P2.addVRef (p : P2 α) (v : V2 α) : P2 α := ⟨p.x + v.x, p.y + v.y⟩

/-- `impl AddAssign<&Vector2<T>> for Vertex2<T>` -/
def P2.addVRefAssign (p : P2 α) (v : V2 α) : P2 α :=
  let s := p
  let s := { s with x := s.x + v.x }
  let s := { s with y := s.y + v.y }
  s

/-- `impl Sub<Vector2<T>> for Vertex2<T>` -/
def P2.subV (p : P2 α) (v : V2 α) : P2 α := ⟨p.x - v.x, p.y - v.y⟩

/-- `impl SubAssign<Vector2<T>> for Vertex2<T>` -/
def P2.subVAssign (p : P2 α) (v : V2 α) : P2 α :=
  let s := p
  let s := { s with x := s.x - v.x }
  let s := { s with y := s.y - v.y }
  s

/-- `impl Sub<&Vector2<T>> for Vertex2<T>` -/
def P2.subVRef (p : P2 α) (v : V2 α) : P2 α := ⟨p.x - v.x, p.y - v.y⟩

/-- `impl SubAssign<&Vector2<T>> for Vertex2<T>` -/
def P2.subVRefAssign (p : P2 α) (v : V2 α) : P2 α :=
  let s := p
  let s := { s with x := s.x - v.x }
  let s := { s with y := s.y - v.y }
  s

/-- `impl Sub<Vertex2<T>> for Vertex2<T>` (`Output = Vector2<T>`) -/
def P2.sub (a b : P2 α) : V2 α := ⟨a.x - b.x, a.y - b.y⟩

end P2ops

/-! ## `Vertex3` (dim3/vertex.rs) -/
section P3ops
variable [Add α] [Sub α] [Mul α] [Div α]

def P3.default [OfNat α 0] : P3 α := ⟨0, 0, 0⟩
def P3.ofTuple (p : α × α × α) : P3 α := ⟨p.1, p.2.1, p.2.2⟩
def P3.intoInner (v : P3 α) : α × α × α := (v.x, v.y, v.z)
/-- `impl From<Vertex2<T>> for Vertex3<T>` -/
def P3.ofP2 [OfNat α 0] (v : P2 α) : P3 α := ⟨v.x, v.y, 0⟩

/-- `Vertex3::average` -/
def P3.average [OfNat α 2] (a b : P3 α) : P3 α :=
  ⟨(a.x + b.x) / 2, (a.y + b.y) / 2, (a.z + b.z) / 2⟩

/-- `impl Add<Vector3<T>> for Vertex3<T>` -/
def P3.addV (p : P3 α) (v : V3 α) : P3 α := ⟨p.x + v.x, p.y + v.y, p.z + v.z⟩

/-- `impl AddAssign<Vector3<T>> for Vertex3<T>` -/
def P3.addVAssign (p : P3 α) (v : V3 α) : P3 α :=
  let s := p
  let s := { s with x := s.x + v.x }
  let s := { s with y := s.y + v.y }
  let s := { s with z := s.z + v.z }
  s

/-- `impl Add<&Vector3<T>> for Vertex3<T>` -/
def P3.addVRef (p : P3 α) (v : V3 α) : P3 α := ⟨p.x + v.x, p.y + v.y, p.z + v.z⟩

/-- `impl AddAssign<&Vector3<T>> for Vertex3<T>` -/
def P3.addVRefAssign (p : P3 α) (v : V3 α) : P3 α :=
  let s := p
  let s := { s with x := s.x + v.x }
  let s := { s with y := s.y + v.y }
  let s := { s with z := s.z + v.z }
  s

/-- `impl Sub<Vector3<T>> for Vertex3<T>` -/
def P3.subV (p : P3 α) (v : V3 α) : P3 α := ⟨p.x - v.x, p.y - v.y, p.z - v.z⟩

/-- `impl SubAssign<Vector3<T>> for Vertex3<T>` -/
def P3.subVAssign (p : P3 α) (v : V3 α) : P3 α :=
  let s := p
  let s := { s with x := s.x - v.x }
  let s := { s with y := s.y - v.y }
  let s := { s with z := s.z - v.z }
  s

/-- `impl Sub<&Vector3<T>> for Vertex3<T>` -/
def P3.subVRef (p : P3 α) (v : V3 α) : P3 α := ⟨p.x - v.x, p.y - v.y, p.z - v.z⟩

/-- `impl SubAssign<&Vector3<T>> for Vertex3<T>` -/
def P3.subVRefAssign (p : P3 α) (v : V3 α) : P3 α :=
  let s := p
  let s := { s with x := s.x - v.x }
  let s := { s with y := s.y - v.y }
  let s := { s with z := s.z - v.z }
  s

/-- `impl Sub<Vertex3<T>> for Vertex3<T>` (`Output = Vector3<T>`) -/
def P3.sub (a b : P3 α) : V3 α := ⟨a.x - b.x, a.y - b.y, a.z - b.z⟩

end P3ops

/-! ## Skewness (honeycomb-kernels/src/skewness/mod.rs), discrete part

`compute_face_skewness_2d/3d` walk the face from the dart `fid`: with `d1 = fid`, `d2 = β1 d1`,
`d3 = β1 d2` they measure the corner angle at the vertex of `d2` between the vertices of `d1`
and `d3`, advance `(d1, d2, d3) ← (d2, d3, β1 d3)` and stop when `d1` is `fid` again.  The angle
itself is `acos(vin·vout / (‖vin‖·‖vout‖))` — not executable exactly; the model takes the list of
corner angles as an input (`corners` gives the vertex triples in the order the loop visits them).
-/
section Skew

/-- vertex triples `(v1, v2, v3)` visited by the loop on the closed polygon `pts` (the vertices of
    the darts `fid, β1 fid, β1² fid, …`): `(p_i, p_{i+1}, p_{i+2})` for `i = 0 … n-1`, cyclically -/
def corners {β : Type} (pts : List β) : List (β × β × β) :=
  let n := pts.length
  (List.range n).filterMap fun i =>
    match pts[i % n]?, pts[(i + 1) % n]?, pts[(i + 2) % n]? with
    | some a, some b, some c => some (a, b, c)
    | _, _, _ => none

variable [Sub α] [Mul α] [Div α] [Min α] [Max α] [NatCast α] [OfNat α 0] [OfNat α 2]

/-- `min_theta` after the loop.  The Rust starts the fold at `T::max_value()`; every angle is below
    it, so folding from the first angle is the same value (the loop body runs at least once). -/
def minAngle (t : α) (ts : List α) : α := ts.foldl (fun m θ => min m θ) t

/-- `max_theta` after the loop (Rust: fold from `T::min_value()`) -/
def maxAngle (t : α) (ts : List α) : α := ts.foldl (fun m θ => max m θ) t

/-- `ideal_theta = f64::from(cnt - 2) * PI / f64::from(cnt)` -/
def idealAngle (pi : α) (n : Nat) : α := ((n : α) - 2) * pi / (n : α)

/-- the value returned after the loop, given the measured corner angles in visiting order:
    `((max_theta - ideal) / (PI - ideal)).max((ideal - min_theta) / ideal)` -/
def skewOfAngles (pi : α) (θs : List α) : α :=
  match θs with
  | [] => 0   -- unreachable: the loop body runs before the exit test
  | t :: ts =>
    let ideal := idealAngle pi θs.length
    max ((maxAngle t ts - ideal) / (pi - ideal)) ((ideal - minAngle t ts) / ideal)

end Skew

end HC.Geo
