/-
  Protocol extension for C16 / C17 (must match `harness/hcimpl/src/gris.rs`):

    orient <nv> <nseg> a0 b0 …   `detect_orientation_issue` on the segment list (indices < nv):
                                 `err InconsistentOrientation in-boundary-inconsistency` / `ok`
    ogrid <c> <min> <max>        sizing of `compute_overlapping_grid` along one axis without shift:
                                 `ok <origin> <n_cells>` (model only; compared by tools/props/c16.py with
                                 the bounding box of the map `grisubal none …` returns)
    gcross <cx> <cy> <ox> <oy> <nx> x1 y1 x2 y2
                                 step 1 of the kernel for the segment (x1,y1) → (x2,y2) on the grid with that
                                 origin / cell lengths: the crossing points in the order of the segment,
                                 `ok n | x y | …` (implementation: the vertices of the map `grisubal none …`
                                 returned that lie inside the segment); `gcrosss …` (model only): `dart t s ; …`
    gcrossd <cx> <cy> <ox> <oy> <nx> <ny> x1 y1 x2 y2
                                 the slots of step 1 in identifier order, `ok dart t ; …`, a slot left at
                                 `(NULL_DART_ID, NaN)` printed `0 nan` (implementation: the hook
                                 `grisubal::verif::intersection_data` on a fresh nx × ny grid; model: `slotsOf`)
    ogridg grisubal|capture <clip> <cx> <cy> <nv> x y … <nseg> a b … <npoi> p …
                                 the overlapping grid the call chooses, origin-shift loop included: `ok ox oy nx ny`
                                 (implementation: the call itself with `Clip::None`, then the bounding box of the returned
                                 map; model: `detectOrientationIssue`, `overlappingGrid`)
    gseg <cx> <cy> <ox> <oy> <nx> <ny> <nv> x y … <nseg> a b … <npoi> p …
                                 step 1 for the whole geometry on a fresh grid: `ok K>V … | dart t ; …`: the content of
                                 `new_segments` sorted by key (`R` regular, `P` point of interest, `I` intersection, `C` corner)
                                 and the slot vector (implementation: hooks `verif::segments`, `verif::intersection_data`)
    gedges <nv> x y … <np> K>V … <nd> d …   step 4 on the session map (hook `verif::edge_data`): `ok start n x y … end ; …`
    gins <ne> (start n x y … end) …          step 5 on the session map (hook `verif::insert_edges`), edges in the order given
    gids <nk> k… <n> (d t|0 nan)…  steps 2 + 3 on the session map for the slot vector given (implementation: the hook
                                 `grisubal::verif::intersection_darts`; model: `stepsTwoThree` with the iteration order
                                 `k…` of the `HashMap`, `nk = 0`: first-insertion order): `ok id …` / `panic`
    bndinit                      the 2-D session map gets the `Boundary` storage of the clip step (storage 9)
    wbnd <dart> <L|R|N|->        `force_write_attribute::<Boundary>(dart, Left|Right|None)` / remove; reply `ok`
    clip left|right              `clip_left` / `clip_right` (`Model/Clip.lean`): `ok` /
                                 `err InconsistentOrientation between-boundary-inconsistency` / `panic`
    ancinit                      the 2-D session map gets the three anchor storages (6, 7, 8)
    wanchor v|e|f <id> <A><k>    `force_write_attribute` of `VertexAnchor|EdgeAnchor|FaceAnchor`
                                 (`A` ∈ N C S B as far as the kind has the variant); reply `ok`
    anchors                      anchors of every vertex / edge / face id of in-use darts
    classify                     `classify_capture`: `ok` / `err MissingAttribute` /
                                 `err UnsupportedGeometry` / `panic`

  The geometric commands `grisubal …` / `capture …` are answered by the implementation only.
-/
import Honeycomb.Model.Session
import Honeycomb.Model.Capture
import Honeycomb.Model.Grisubal
import Honeycomb.Model.Clip
import Honeycomb.Model.GrisubalInsert

namespace HC
namespace Cap

def anchorsRegistered (s : Sess) : Bool :=
  s.dim = 2 ∧ s.cfg.kinds.getD sVA 9 ≠ 9 ∧ s.cfg.kinds.getD sEA 9 ≠ 9 ∧ s.cfg.kinds.getD sFA 9 ≠ 9

/-- `N3` ↦ code `4*3 + 0`; `lo` = smallest dimension the anchor kind has -/
def parseAnchor (lo : Nat) (t : String) : Option Nat := do
  let c ← t.toList.head?
  let k ← (t.drop 1).toString.toNat?
  let dim ← match c with
    | 'N' => some 0
    | 'C' => some 1
    | 'S' => some 2
    | 'B' => some 3
    | _ => none
  if dim < lo then none else some (4 * k + dim)

def anchorStr (v : Option Val) : String :=
  match v with
  | some (.tm (.leaf c)) =>
      (match c % 4 with | 0 => "N" | 1 => "C" | 2 => "S" | _ => "B") ++ toString (c / 4)
  | some _ => "?"
  | none => "-"

def anchorsStr (m : Map Val) : String :=
  let grp (ids : List Nat) (st : Nat) : String :=
    " ".intercalate (ids.map fun c => s!"{c}:{anchorStr (m.att st c)}")
  s!"ok v {grp (iterVertices2 m) sVA} | e {grp (iterEdges2 m) sEA} | f {grp (iterFaces2 m) sFA}"

def parsePairs : List String → Option (List (Nat × Nat))
  | [] => some []
  | a :: b :: rest => do
      let a ← a.toNat?
      let b ← b.toNat?
      let r ← parsePairs rest
      some ((a, b) :: r)
  | _ => none

def parsePts : Nat → List String → Option (List (Rat × Rat) × List String)
  | 0, rest => some ([], rest)
  | n + 1, x :: y :: rest => do
      let x ← parseRat x
      let y ← parseRat y
      let (r, rest') ← parsePts n rest
      some ((x, y) :: r, rest')
  | _, _ => none

def gvStr : GV → String
  | .regular i => s!"R{i}"
  | .poi i => s!"P{i}"
  | .intersec i => s!"I{i}"
  | .corner d => s!"C{d}"

def gvKey : GV → Nat × Nat
  | .regular i => (0, i)
  | .poi i => (1, i)
  | .intersec i => (2, i)
  | .corner d => (3, d)

def gvParse (t : String) : Option GV := do
  let n ← (t.drop 1).toNat?
  match t.front with
  | 'R' => some (.regular n)
  | 'P' => some (.poi n)
  | 'I' => some (.intersec n)
  | 'C' => some (.corner n)
  | _ => none

def gvLt (a b : GV) : Bool := (gvKey a).1 < (gvKey b).1 || ((gvKey a).1 = (gvKey b).1 && (gvKey a).2 < (gvKey b).2)

def insertGV (p : GV × GV) : List (GV × GV) → List (GV × GV)
  | [] => [p]
  | q :: qs => if gvLt p.1 q.1 then p :: q :: qs else q :: insertGV p qs

def parseNats : Nat → List String → Option (List Nat × List String)
  | 0, rest => some ([], rest)
  | n + 1, x :: rest => do
      let x ← x.toNat?
      let (r, rest') ← parseNats n rest
      some (x :: r, rest')
  | _, _ => none

def parseGVPairs : Nat → List String → Option (List (GV × GV) × List String)
  | 0, rest => some ([], rest)
  | n + 1, x :: rest => do
      match x.splitOn ">" with
      | [k, v] =>
          let k ← gvParse k
          let v ← gvParse v
          let (r, rest') ← parseGVPairs n rest
          some ((k, v) :: r, rest')
      | _ => none
  | _, _ => none

def parseEdges : Nat → List String → Option (List MEdge × List String)
  | 0, rest => some ([], rest)
  | n + 1, a :: k :: rest => do
      let a ← a.toNat?
      let k ← k.toNat?
      let (pts, rest1) ← parsePts k rest
      match rest1 with
      | b :: rest2 =>
          let b ← b.toNat?
          let (r, rest3) ← parseEdges n rest2
          some ({ start := a, inter := pts, stop := b } :: r, rest3)
      | [] => none
  | _, _ => none

def edgeStr (e : MEdge) : String :=
  s!"{e.start} {e.inter.length}" ++ String.join (e.inter.map fun p => s!" {ratStr p.1} {ratStr p.2}") ++ s!" {e.stop}"

def slotStr : Slot → String
  | some (d, t) => s!"{d} {ratStr t}"
  | none => "0 nan"

def parseSlots : List String → Option (List Slot)
  | [] => some []
  | d :: t :: rest => do
      let d ← d.toNat?
      let r ← parseSlots rest
      if t = "nan" then some (none :: r)
      else do
        let t ← parseRat t
        some (some (d, t) :: r)
  | _ => none

end Cap

/-- `impl AttributeUpdate for Boundary` (`grisubal/model.rs`): equal tags merge to themselves, different
    ones to `Boundary::None`; `merge_incomplete = Ok(attr)`; `merge_from_none = Ok(Boundary::None)`;
    `split` is `unreachable!()` (reported here as `FailedSplit`: the clip step never sews). -/
def boundaryLaw : Law Val where
  merge a b := .ok (if a = b then a else bdNone)
  mergeInc a := .ok a
  mergeNone := .ok bdNone
  split _ := .error errFailedSplit
  splitNone := .error errInsufficient
  ticks := false

open Cap in
def topCapture (s : Sess) (toks : List String) : Option (Sess × String) :=
  match toks with
  | "orient" :: nv :: ns :: rest =>
      match nv.toNat?, ns.toNat?, parsePairs rest with
      | some nv, some ns, some segs =>
          if nv = 0 ∨ segs.length ≠ ns ∨ segs.any (fun p => p.1 ≥ nv ∨ p.2 ≥ nv) then some (s, "bad-op")
          else if detectOrientationIssue segs then
            some (s, "err InconsistentOrientation in-boundary-inconsistency")
          else some (s, "ok")
      | _, _, _ => some (s, "bad-op")
  | "gseg" :: cx :: cy :: ox :: oy :: nx :: _ny :: nv :: rest =>
      match parseRat cx, parseRat cy, parseRat ox, parseRat oy, nx.toNat?, nv.toNat? with
      | some cx, some cy, some ox, some oy, some nx, some nv =>
        match parsePts nv rest with
        | some (verts, ns :: rest1) =>
          match ns.toNat? with
          | some ns =>
            match parsePairs (rest1.take (2 * ns)), rest1.drop (2 * ns) with
            | some segs, np :: rest2 =>
              match np.toNat? with
              | some np =>
                match parseNats np rest2 with
                | some (poi, []) =>
                    if cx ≤ 0 ∨ cy ≤ 0 ∨ segs.length ≠ ns ∨ segs.any (fun p => p.1 ≥ nv ∨ p.2 ≥ nv) then some (s, "bad-op") else
                    let g : GGrid := { ox := ox, oy := oy, cx := cx, cy := cy, nx := nx }
                    let all := segmentsOf g epsF64 poi verts segs
                    -- the content of the `HashMap`: one value per key (the last one), sorted by key
                    let keys := (all.map (·.1)).eraseDups
                    let content := keys.filterMap fun k => (segNext all k).map fun v => (k, v)
                    let sorted := content.foldl (fun acc p => insertGV p acc) []
                    some (s, "ok " ++ " ".intercalate (sorted.map fun p => gvStr p.1 ++ ">" ++ gvStr p.2) ++ " | " ++
                      " ; ".intercalate ((slotsAll g epsF64 verts segs).map slotStr))
                | _ => some (s, "bad-op")
              | none => some (s, "bad-op")
            | _, _ => some (s, "bad-op")
          | none => some (s, "bad-op")
        | _ => some (s, "bad-op")
      | _, _, _, _, _, _ => some (s, "bad-op")
  | "gedges" :: nv :: rest =>
      if s.dim ≠ 2 then some (s, "bad-op") else
      match nv.toNat? with
      | none => some (s, "bad-op")
      | some nv =>
        match parsePts nv rest with
        | some (verts, np :: rest1) =>
          match np.toNat? with
          | some np =>
            match parseGVPairs np rest1 with
            | some (pairs, nd :: rest2) =>
              match nd.toNat? with
              | some nd =>
                match parseNats nd rest2 with
                | some (darts, []) =>
                    match edgeData (s.m.β 1) (s.m.β 2) verts pairs darts (crossKeys pairs) with
                    | .ok es => some (s, if es.isEmpty then "ok" else "ok " ++ " ; ".intercalate (es.map edgeStr))
                    | .panic => some (s, "panic")
                    | .diverges => some (s, "diverges")
                | _ => some (s, "bad-op")
              | none => some (s, "bad-op")
            | _ => some (s, "bad-op")
          | none => some (s, "bad-op")
        | _ => some (s, "bad-op")
  | "gins" :: ne :: rest =>
      if s.dim ≠ 2 ∨ s.cfg.kinds.getD sBd 9 = 9 then some (s, "bad-op") else
      match ne.toNat? with
      | none => some (s, "bad-op")
      | some ne =>
        match parseEdges ne rest with
        | some (edges, []) =>
            if edges.any (fun e => e.start ≥ s.m.n ∨ e.stop ≥ s.m.n) then some (s, "bad-op") else
            let (o, m') := stepFive s.m (anchorsRegistered s) edges
            match o with
            | .ok _ => some ({ s with m := m' }, "ok")
            | .retry => some ({ s with m := m' }, "diverges")
            | _ => some ({ s with m := m' }, "panic")
        | _ => some (s, "bad-op")
  | "gids" :: nk :: rest =>
      if s.dim ≠ 2 then some (s, "bad-op") else
      match nk.toNat? with
      | none => some (s, "bad-op")
      | some nk =>
        match (rest.take nk).mapM String.toNat?, rest.drop nk with
        | some keys, n :: pairs =>
          match n.toNat?, parseSlots pairs with
          | some n, some slots =>
              if slots.length ≠ n ∨ keys.length ≠ nk then some (s, "bad-op") else
              -- the darts the implementation refuses: out of range, or the null dart with a position
              if (pairs.zipIdx.any fun x => x.2 % 2 = 0 ∧ (x.1.toNat?.getD 0) ≥ s.m.n) ∨
                 slots.any (fun sl => match sl with | some (d, _) => d = 0 | none => false) then some (s, "bad-op") else
              let edges := edgesOf (hitsOf (s.m.β 2) slots)
              let keys := if nk = 0 then edges else keys
              -- the iteration order must list every key of the map once
              if keys.eraseDups.length ≠ keys.length ∨ keys.length ≠ edges.length ∨ edges.any (fun e => !keys.contains e) then
                some (s, "bad-op") else
              let (res, o, m') := stepsTwoThree s.m slots keys
              match o with
              | .ok _ => some ({ s with m := m' }, if res.isEmpty then "ok" else "ok " ++ " ".intercalate (res.map toString))
              | .retry => some ({ s with m := m' }, "diverges")
              | _ => some ({ s with m := m' }, "panic")
          | _, _ => some (s, "bad-op")
        | _, _ => some (s, "bad-op")
  | "ogridg" :: cmd :: _clip :: cx :: cy :: nv :: rest =>
      -- the grid `grisubal` / `capture_geometry` chooses: `detect_orientation_issue`, then `compute_overlapping_grid`
      -- with `keep_all_poi = false` / `true` (origin-shift loop included)
      if cmd ≠ "grisubal" ∧ cmd ≠ "capture" then some (s, "bad-op") else
      match parseRat cx, parseRat cy, nv.toNat? with
      | some cx, some cy, some nv =>
        match parsePts nv rest with
        | some (verts, ns :: rest') =>
          match ns.toNat? with
          | some ns =>
            match parsePairs (rest'.take (2 * ns)) with
            | some segs =>
                if cx ≤ 0 ∨ cy ≤ 0 ∨ segs.length ≠ ns ∨ segs.any (fun p => p.1 ≥ nv ∨ p.2 ≥ nv) then some (s, "bad-op") else
                if detectOrientationIssue segs then some (s, "err InconsistentOrientation in-boundary-inconsistency") else
                match overlappingGrid verts segs cx cy (cmd = "capture") with
                | .ok ox oy nx ny _ => some (s, s!"ok {ratStr ox} {ratStr oy} {nx} {ny}")
                | .invalidShape msg => some (s, "err InvalidShape " ++ msg.replace " " "-")
                | .panic => some (s, "panic")
                | .diverges => some (s, "diverges")
            | none => some (s, "bad-op")
          | none => some (s, "bad-op")
        | _ => some (s, "bad-op")
      | _, _, _ => some (s, "bad-op")
  | ["ogrid", c, mn, mx] =>
      match parseRat c, parseRat mn, parseRat mx with
      | some c, some mn, some mx =>
          if c ≤ 0 then some (s, "bad-op")
          else some (s, s!"ok {ratStr (gridOrigin mn c 0)} {gridCells mn mx c 0}")
      | _, _, _ => some (s, "bad-op")
  | ["gcrossd", cx, cy, ox, oy, nx, _ny, x1, y1, x2, y2] =>
      match parseRat cx, parseRat cy, parseRat ox, parseRat oy, nx.toNat?, parseRat x1, parseRat y1,
          parseRat x2, parseRat y2 with
      | some cx, some cy, some ox, some oy, some nx, some x1, some y1, some x2, some y2 =>
          if cx ≤ 0 ∨ cy ≤ 0 then some (s, "bad-op") else
          let g : GGrid := { ox := ox, oy := oy, cx := cx, cy := cy, nx := nx }
          let cs := slotsOf g epsF64 (x1, y1) (x2, y2)
          if cs.isEmpty then some (s, "ok")
          else some (s, "ok " ++ " ; ".intercalate (cs.map fun c =>
            match c with
            | some (d, t) => s!"{d} {ratStr t}"
            | none => "0 nan"))
      | _, _, _, _, _, _, _, _, _ => some (s, "bad-op")
  | [cmd, cx, cy, ox, oy, nx, x1, y1, x2, y2] =>
      if cmd ≠ "gcross" ∧ cmd ≠ "gcrosss" then none else
      match parseRat cx, parseRat cy, parseRat ox, parseRat oy, nx.toNat?, parseRat x1, parseRat y1,
          parseRat x2, parseRat y2 with
      | some cx, some cy, some ox, some oy, some nx, some x1, some y1, some x2, some y2 =>
          if cx ≤ 0 ∨ cy ≤ 0 then some (s, "bad-op") else
          let g : GGrid := { ox := ox, oy := oy, cx := cx, cy := cy, nx := nx }
          let cs := crossingsOf g epsF64 (x1, y1) (x2, y2)
          if cmd = "gcross" then
            let pts := cs.map fun c =>
              let p := segPoint (x1, y1) (x2, y2) c.s
              s!"{ratStr p.1} {ratStr p.2}"
            if pts.isEmpty then some (s, "ok 0")
            else some (s, s!"ok {pts.length} | " ++ " | ".intercalate pts)
          else
            some (s, "ok " ++ " ; ".intercalate (cs.map fun c => s!"{c.dart} {ratStr c.t} {ratStr c.s}"))
      | _, _, _, _, _, _, _, _, _ => some (s, "bad-op")
  | ["bndinit"] =>
      if s.dim ≠ 2 then some (s, "bad-op") else
      let ks := s.cfg.kinds ++ List.replicate (10 - s.cfg.kinds.length) 9
      let cfg : Cfg Val := { s.cfg with
        kinds := ks.set sBd 0
        law := fun st => if st = sBd then boundaryLaw else s.cfg.law st }
      some ({ s with cfg := cfg, m := s.m.withStorages 10 }, "ok")
  | ["wbnd", d, v] =>
      if s.dim ≠ 2 ∨ s.cfg.kinds.getD sBd 9 = 9 then some (s, "bad-op") else
      match d.toNat? with
      | none => some (s, "bad-op")
      | some d =>
        let val : Option (Option Val) := match v with
          | "L" => some (some bdLeft)
          | "R" => some (some bdRight)
          | "N" => some (some bdNone)
          | "-" => some none
          | _ => none
        match val with
        | none => some (s, "bad-op")
        | some val =>
          if d < s.m.n ∧ s.m.okA sBd d then some ({ s with m := s.m.setA sBd d val }, "ok")
          else some (s, "panic")
  | ["clip", side] =>
      if s.dim ≠ 2 ∨ s.cfg.kinds.getD sBd 9 = 9 then some (s, "bad-op") else
      if side ≠ "left" ∧ side ≠ "right" then some (s, "bad-op") else
      let prog := if side = "left" then clipLeft s.m.n (anchorsRegistered s) else clipRight s.m.n (anchorsRegistered s)
      let (o, m') := run prog s.m
      let out := match o with
        | .ok _ => "ok"
        | .err _ => "err InconsistentOrientation between-boundary-inconsistency"
        | .retry => "diverges"
        | .panic => "panic"
      some ({ s with m := m' }, out)
  | ["ancinit"] =>
      if s.dim ≠ 2 then some (s, "bad-op") else
      let mask := s.mask ||| 224
      some ({ s with mask := mask, cfg := stdCfg 3 mask, m := s.m.withStorages stdStorages }, "ok")
  | ["wanchor", k, id, a] =>
      if !anchorsRegistered s then some (s, "bad-op") else
      match id.toNat? with
      | none => some (s, "bad-op")
      | some id =>
        let st : Option (Nat × Nat) := match k with
          | "v" => some (sVA, 0)
          | "e" => some (sEA, 1)
          | "f" => some (sFA, 2)
          | _ => none
        match st with
        | none => some (s, "bad-op")
        | some (st, lo) =>
          match parseAnchor lo a with
          | none => some (s, "bad-op")
          | some c =>
            if id < s.m.n ∧ s.m.okA st id then
              some ({ s with m := s.m.setA st id (some (.tm (.leaf c))) }, "ok")
            else some (s, "panic")
  | ["anchors"] =>
      if !anchorsRegistered s then some (s, "bad-op") else some (s, anchorsStr s.m)
  | ["classify"] =>
      if s.dim ≠ 2 then some (s, "bad-op") else
      if !anchorsRegistered s then some (s, "err MissingAttribute") else
      let (o, m') := run (classifyCapture s.m.n) s.m
      let out := match o with
        | .ok _ => "ok"
        | .err e => errStr e
        | .retry => "diverges"
        | .panic => "panic"
      some ({ s with m := m' }, out)
  | _ => none

end HC
