/-
  Protocol extension for the grid builders (C12):

    grid <dim> <split 0|1> <mask> <form> <origin…> [<n_cells…>] [<len_per_cell…>] [<lens…>]

  `form` names the descriptor fields that are set (each group has `dim` values, in the order
  n_cells, len_per_cell, lens):
    ncl = n_cells + len_per_cell     nl = n_cells + lens     lpl = len_per_cell + lens
    n | cl | l = a single field      none = no field         all = the three fields
  Counts are naturals, origin and lengths exact rationals.  Result: `ok` (the session now holds the
  built map), `err <BuilderError variant> [kind axis]`, or `panic`; the session is unchanged unless
  the result is `ok`.
-/
import Honeycomb.Model.Session
import Honeycomb.Model.Grid

namespace HC

/-- which groups a form carries: (n_cells, len_per_cell, lens) -/
def gridForm (s : String) : Option (Bool × Bool × Bool) :=
  match s with
  | "ncl" => some (true, true, false)
  | "nl" => some (true, false, true)
  | "lpl" => some (false, true, true)
  | "n" => some (true, false, false)
  | "cl" => some (false, true, false)
  | "l" => some (false, false, true)
  | "none" => some (false, false, false)
  | "all" => some (true, true, true)
  | _ => none

def allSome {α : Type} (l : List (Option α)) : Option (List α) :=
  l.foldr (fun x acc => match x, acc with
    | some a, some as => some (a :: as)
    | _, _ => none) (some [])

def pair {α : Type} (l : List α) : Option (α × α) :=
  match l with
  | [a, b] => some (a, b)
  | _ => none

def triple {α : Type} (l : List α) : Option (α × α × α) :=
  match l with
  | [a, b, c] => some (a, b, c)
  | _ => none

structure GridArgs where
  origin : List Rat
  n : Option (List Nat)
  lpc : Option (List Rat)
  lens : Option (List Rat)

def parseGridArgs (dim : Nat) (form : Bool × Bool × Bool) (params : List String) : Option GridArgs := do
  let (hn, hc, hl) := form
  let cnt := dim * (1 + (if hn then 1 else 0) + (if hc then 1 else 0) + (if hl then 1 else 0))
  if params.length ≠ cnt then none else
  let origin ← allSome ((params.take dim).map parseRat)
  let r1 := params.drop dim
  let n ← if hn then (allSome ((r1.take dim).map String.toNat?)).map some else some none
  let r2 := if hn then r1.drop dim else r1
  let lpc ← if hc then (allSome ((r2.take dim).map parseRat)).map some else some none
  let r3 := if hc then r2.drop dim else r2
  let lens ← if hl then (allSome ((r3.take dim).map parseRat)).map some else some none
  some { origin := origin, n := n, lpc := lpc, lens := lens }

def optBind {α β : Type} (x : Option (List α)) (f : List α → Option β) : Option (Option β) :=
  match x with
  | none => some none
  | some l => (f l).map some

def gridOutcome (s : Sess) (dim mask : Nat) (o : Out Err (Map Val)) : Sess × String :=
  match o with
  | .ok m => ({ dim := dim, mask := mask, cfg := stdCfg (dim + 1) mask, m := m.withStorages stdStorages }, "ok")
  | .err e => (s, errStr e)
  | .retry => (s, "retry")
  | .panic => (s, "panic")

def topGrid (s : Sess) (toks : List String) : Option (Sess × String) :=
  match toks with
  | "grid" :: dim :: split :: mask :: form :: params =>
      some <|
      match dim.toNat?, split.toNat?, mask.toNat?, gridForm form with
      | some dim, some split, some mask, some form =>
          if split > 1 then (s, "bad-op") else
          match parseGridArgs dim form params with
          | none => (s, "bad-op")
          | some a =>
            if dim = 2 then
              match pair a.origin, optBind a.n pair, optBind a.lpc pair, optBind a.lens pair with
              | some o, some n, some lpc, some lens =>
                  gridOutcome s 2 mask (build2 (split = 1) o n lpc lens)
              | _, _, _, _ => (s, "bad-op")
            else if dim = 3 then
              match triple a.origin, optBind a.n triple, optBind a.lpc triple, optBind a.lens triple with
              | some o, some n, some lpc, some lens =>
                  gridOutcome s 3 mask (build3 (split = 1) o n lpc lens)
              | _, _, _, _ => (s, "bad-op")
            else (s, "bad-op")
      | _, _, _, _ => (s, "bad-op")
  | _ => none

end HC
