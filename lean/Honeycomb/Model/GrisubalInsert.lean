/-
  L3 — steps 2 + 3 of grisubal on a map (`routines/process_intersecs_data.rs`, `routines/insert_intersecs.rs`;
  hook `grisubal::verif::intersection_darts`): the pure functions of `Model/Grisubal.lean` (`hitsOf`, `groupsOf`,
  `slicesFrom`, `intersectionIds`) applied to β2 of the map, `add_free_darts(n_tot)`, then
  `insert_vertices_on_edge(edge, block, sorted positions)` (`Model/Kernels/VertexInsertion.lean`, the model of C14) for
  every edge in the iteration order `keys` of the `HashMap`.

  Import-free (core + the model).
-/
import Honeycomb.Model.Grisubal
import Honeycomb.Model.Kernels.VertexInsertion

namespace HC

/-- step 3, `insert_intersections`: one transaction per edge, `.unwrap()`ed by the caller -/
def insertIntersections (n : Nat) : List ((Nat × List Hit) × List Nat) → P Val Unit
  | [] => pure ()
  | x :: rest => do
      insertVerticesOnEdge n x.1.1 x.2 (x.1.2.map (·.t))
      insertIntersections n rest

/-- the keys of the `HashMap` in the order of their first insertion (the order the model uses when none is given) -/
def edgesOf (hs : List (Nat × Hit)) : List Nat := (hs.map (·.1)).eraseDups

/-- `verif::intersection_darts(cmap, metadata)` for the iteration order `keys`: the vector of darts (one per slot), the
    outcome of the insertions and the resulting map -/
def stepsTwoThree (m : Map Val) (slots : List Slot) (keys : List Nat) : List Nat × Out Err Unit × Map Val :=
  let gs := groupsOf (hitsOf (m.β 2) slots) keys
  let lens := gs.map (·.2.length)
  let (base, m1) := m.addFreeDarts (2 * lens.sum)
  let sl := slicesFrom base lens
  let res := intersectionIds slots.length gs sl
  let (o, m2) := run (insertIntersections m1.n (gs.zip sl)) m1
  (res, o, m2)

end HC
