/-
  L3 — steps 2 + 3 of grisubal on a map (`routines/process_intersecs_data.rs`, `routines/insert_intersecs.rs`;
  hook `grisubal::verif::intersection_darts`): the pure functions of `Model/Grisubal.lean` (`hitsOf`, `groupsOf`,
  `slicesFrom`, `intersectionIds`) applied to β2 of the map, `add_free_darts(n_tot)`, then
  `insert_vertices_on_edge(edge, block, sorted positions)` (`Model/Kernels/VertexInsertion.lean`, the model of C14) for
  every edge in the iteration order `keys` of the `HashMap`.

  Import-free (core + the model).
-/
import Honeycomb.Model.Grisubal
import Honeycomb.Model.Kernels.VertexInsertion
import Honeycomb.Model.Clip

namespace HC

/-- step 3, `insert_intersections`: one transaction per edge, `.unwrap()`ed by the caller -/
def insertIntersections (n : Nat) : List ((Nat × List Hit) × List Nat) → P Val Unit
  | [] => pure ()
  | x :: rest => do
      insertVerticesOnEdge n x.1.1 x.2 (x.1.2.map (·.t))
      insertIntersections n rest

/-- the keys of the `HashMap` in the order of their first insertion (the order the model uses when none is given) -/
def edgesOf (hs : List (Nat × Hit)) : List Nat := (hs.map (·.1)).eraseDups

/-- `verif::intersection_darts(cmap, metadata)` for the iteration order `keys`: the vector of darts (one per slot), the
    outcome of the insertions and the resulting map -/
def stepsTwoThree (m : Map Val) (slots : List Slot) (keys : List Nat) : List Nat × Out Err Unit × Map Val :=
  let gs := groupsOf (hitsOf (m.β 2) slots) keys
  let lens := gs.map (·.2.length)
  let (base, m1) := m.addFreeDarts (2 * lens.sum)
  let sl := slicesFrom base lens
  let res := intersectionIds slots.length gs sl
  let (o, m2) := run (insertIntersections m1.n (gs.zip sl)) m1
  (res, o, m2)

/-! ## step 5: `insert_edges_in_map` (`routines/insert_new_edges.rs`) -/

/-- `build_base_edge`: `start → d_new → end` on one side, `b0(end) → b2_d_new → b1(start)` on the other; every
    `force_link` / `force_unlink` is `.unwrap()`ed (an error of the model program = a panic of the kernel) -/
def buildBaseEdge (start stop dNew b2dNew : Nat) : P Val Unit := do
  let b1s ← rB 1 start
  let b0e ← rB 0 stop
  oneUnlinkCore start
  oneUnlinkCore b0e
  iLinkCore 2 dNew b2dNew
  oneLinkCore start dNew
  oneLinkCore b2dNew b1s
  oneLinkCore dNew stop
  oneLinkCore b0e b2dNew

/-- "replace placeholder vertices": walk `β1` from the first inserted dart, write the point of interest (and, when the map
    has the anchor storages, `VertexAnchor::Node(i)`, `i` the INDEX OF THE EDGE) under the vertex identifier -/
def replaceInter (n : Nat) (hasAnchors : Bool) (i : Nat) : Nat → List Pt → P Val Unit
  | _, [] => pure ()
  | d, v :: vs => do
      let vid ← vertexId2 n d
      let _ ← writeVtx vid (.pt v.1 v.2 0)
      (if hasAnchors then do
        let _ ← rA sVA vid
        wA sVA vid (some (.tm (.leaf (4 * i))))
       else pure ())
      let d' ← rB 1 d
      replaceInter n hasAnchors i d' vs

/-- `mark_boundary`: from `β1(start)` to `end`, `Left` on the dart, `Right` on its β2 image; on a fuel (`retry` = the
    walk never meets `end`) -/
def markBoundary (stop : Nat) : Nat → Nat → P Val Unit
  | 0, _ => Prog.retry
  | f + 1, d =>
      if d = stop then pure () else do
        let _ ← rA sBd d
        wA sBd d (some bdLeft)
        let d2 ← rB 2 d
        let _ ← rA sBd d2
        wA sBd d2 (some bdRight)
        let d' ← rB 1 d
        markBoundary stop f d'

/-- one iteration of the loop of `insert_edges_in_map`: edge number `i`, its block `slice` of `2 + 2·|inter|` darts -/
def insertOneEdge (n : Nat) (hasAnchors : Bool) (i : Nat) (e : MEdge) (slice : List Nat) : P Val Unit := do
  let dNew := slice.getD 0 0
  let b2dNew := slice.getD 1 0
  buildBaseEdge e.start e.stop dNew b2dNew
  (if e.inter.isEmpty then pure () else do
    let eid ← edgeId2 dNew
    insertVerticesOnEdge n eid (slice.drop 2) (e.inter.map fun _ => (1 / 2 : Rat))
    let d ← rB 1 eid
    replaceInter n hasAnchors i d e.inter)
  let d0 ← rB 1 e.start
  markBoundary e.stop n d0

def insertEdgesFrom (n : Nat) (hasAnchors : Bool) : Nat → List (MEdge × List Nat) → P Val Unit
  | _, [] => pure ()
  | i, x :: rest => do
      insertOneEdge n hasAnchors i x.1 x.2
      insertEdgesFrom n hasAnchors (i + 1) rest

/-- `build_workload`: consecutive blocks of `2 + 2·|intermediates|` darts -/
def edgeSlices : Nat → List MEdge → List (List Nat)
  | _, [] => []
  | base, e :: es => List.range' base (2 + 2 * e.inter.length) :: edgeSlices (base + (2 + 2 * e.inter.length)) es

/-- `insert_edges_in_map(cmap, edges)` -/
def stepFive (m : Map Val) (hasAnchors : Bool) (edges : List MEdge) : Out Err Unit × Map Val :=
  let (base, m1) := m.addFreeDarts ((edges.map fun e => 2 + 2 * e.inter.length).sum)
  run (insertEdgesFrom m1.n hasAnchors 0 (edges.zip (edgeSlices base edges))) m1

end HC
