/-
  Protocol extension for C20: `scene` — run the model of the viewer's start-up system on the
  session's map and print the canonical line of `/verif/harness-render/hcrender` (entities sorted,
  `HashMap` keys sorted and deduplicated):

  `scene n=<#entities> | T: (x,y,z).. | V: id:row.. | E: id:r0,r1.. | F: id:r0,r1,.. |
   D: d:v:e:f:vol:start:end.. | FN: face,row.. | VN: vol,row.. (or none) | nok=true`

  (`hcrender` appends ` || FNV: .. | VNV: ..` with the normal vectors; the check strips that part
  before comparing.  `nok` is the implementation's own verdict "every normal is a finite unit
  vector"; the model prints the value the property requires.)
-/
import Honeycomb.Model.Session
import Honeycomb.Model.Scene

namespace HC

/-- lexicographic `≤` (the order of Rust tuples / `Vec`s of integers) -/
def lexLe : List Nat → List Nat → Bool
  | [], _ => true
  | _ :: _, [] => false
  | a :: as, b :: bs => a < b || (a == b && lexLe as bs)

def sortLex (l : List (List Nat)) : List (List Nat) := l.mergeSort lexLe

/-- remove adjacent repetitions (of a sorted list) -/
def dedupAdj : List (List Nat) → List (List Nat)
  | [] => []
  | [a] => [a]
  | a :: b :: rest => if a = b then dedupAdj (b :: rest) else a :: dedupAdj (b :: rest)

def joinWith (sep : String) (l : List Nat) : String := sep.intercalate (l.map toString)

def keysStr (l : List (Nat × Nat)) : String :=
  " ".intercalate ((dedupAdj (sortLex (l.map fun p => [p.1, p.2]))).map (joinWith ","))

def sceneStr (sc : Scene) : String :=
  let n := sc.verts.length + sc.edges.length + sc.faces.length + sc.darts.length
  let vs := (sortLex (sc.verts.map fun p => [p.1, p.2])).map (joinWith ":")
  let es := (sortLex (sc.edges.map fun p => [p.1, p.2.1, p.2.2])).map fun l =>
    match l with
    | id :: rest => s!"{id}:{joinWith "," rest}"
    | [] => ""
  let fs := (sortLex (sc.faces.map fun p => p.1 :: p.2)).map fun l =>
    match l with
    | id :: rest => s!"{id}:{joinWith "," rest}"
    | [] => ""
  let ds := (sortLex (sc.darts.map fun e => [e.d, e.v, e.e, e.f, e.vol, e.s, e.t])).map (joinWith ":")
  let parts := [
    s!"n={n}",
    "T: " ++ " ".intercalate (sc.table.map Val.toStr),
    "V: " ++ " ".intercalate vs,
    "E: " ++ " ".intercalate es,
    "F: " ++ " ".intercalate fs,
    "D: " ++ " ".intercalate ds,
    "FN: " ++ keysStr sc.fnKeys,
    "VN: " ++ (match sc.vnKeys with | none => "none" | some k => keysStr k),
    "nok=true"]
  let line := "scene " ++ " | ".intercalate parts
  -- single spaces only (empty lists)
  " ".intercalate ((line.splitOn " ").filter (· ≠ ""))

def topScene (s : Sess) (toks : List String) : Option (Sess × String) :=
  match toks with
  | ["scene"] =>
      let r := if s.dim = 2 then extract2 s.m else if s.dim = 3 then extract3 s.m else none
      match r with
      | some sc => some (s, sceneStr sc)
      | none => some (s, "panic")
  | _ => none

end HC
