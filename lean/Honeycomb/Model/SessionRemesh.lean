/-
  Protocol extension for the remeshing primitives of `honeycomb-kernels` (C15) and the anchor
  attributes.  Transactional commands (usable alone = one `atomically_with_err`, or inside
  `tx … endtx`):

    swap <edge>                               remeshing::swap_edge
    cutin <edge> <nd1> … <nd6>                remeshing::cut_inner_edge
    cutout <edge> <nd1> <nd2> <nd3>           remeshing::cut_outer_edge
    collapse <edge>                           remeshing::collapse_edge  (payload: the new vertex id)
    ranchor v|e|f <id>                        read_attribute::<Vertex|Edge|FaceAnchor>
    wanchort v|e|f <id> <N|C|S|B><k>          write_attribute (payload: the old value)
    xanchort v|e|f <id>                       remove_attribute (payload: the old value)

  Top level (shared with the capture/classification extension; `force_write_attribute`, needs the
  three anchor storages, i.e. mask bits 5, 6, 7):

    wanchor v|e|f <id> <N|C|S|B><k>           reply `ok` (`panic` when the id is out of range)

  Anchors print as `N3`, `C1`, `S0`, `B2` / `none`; `snap` prints the storages 6, 7, 8 as codes
  `4 * id + dim`.  Kernel errors print the innermost variant (`err NullEdge`, `err IncompleteEdge`,
  `err BadTopology`, `err NonCollapsibleEdge <message-slug>`, `err InvertedOrientation`, or the
  failing core operation's error); `StmError::Retry` prints `retry`.
-/
import Honeycomb.Model.Session
import Honeycomb.Model.Kernels.Swap
import Honeycomb.Model.Kernels.Cut
import Honeycomb.Model.Kernels.Collapse

namespace HC

/-- anchor storage and minimal dimension of the anchors it accepts -/
def anchorStorage (k : String) : Option (Nat × Nat) :=
  match k with
  | "v" => some (stVA, 0)
  | "e" => some (stEA, 1)
  | "f" => some (stFA, 2)
  | _ => none

/-- `<N|C|S|B><k>` ↦ code `4 * k + dim`; `minDim` excludes the variants the anchor type lacks -/
def parseAnchor (minDim : Nat) (s : String) : Option Nat := do
  let dim ← match s.take 1 |>.toString with
    | "N" => some 0
    | "C" => some 1
    | "S" => some 2
    | "B" => some 3
    | _ => none
  let k ← (s.drop 1).toString.toNat?
  if dim < minDim then none else
  -- identifiers are `u32`
  if k ≥ 4294967296 then none else
  some (4 * k + dim)

def anchorStr (v : Option Val) : String :=
  match v with
  | some (.tm (.leaf c)) => (["N", "C", "S", "B"].getD (c % 4) "?") ++ toString (c / 4)
  | some x => x.toStr
  | none => "none"

def txOpR (s : Sess) (toks : List String) : Option (P Val String) :=
  if s.dim ≠ 2 then none else
  let n := s.m.n
  let unit (p : P Val Unit) : P Val String := do p; pure ""
  match toks with
  | ["swap", e] => do
      let e ← e.toNat?
      some (unit (swapEdge s.cfg n e))
  | ["cutout", e, nd1, nd2, nd3] => do
      let e ← e.toNat?; let nd1 ← nd1.toNat?; let nd2 ← nd2.toNat?; let nd3 ← nd3.toNat?
      some (unit (cutOuterEdge s.cfg n e nd1 nd2 nd3))
  | ["cutin", e, nd1, nd2, nd3, nd4, nd5, nd6] => do
      let e ← e.toNat?; let nd1 ← nd1.toNat?; let nd2 ← nd2.toNat?; let nd3 ← nd3.toNat?
      let nd4 ← nd4.toNat?; let nd5 ← nd5.toNat?; let nd6 ← nd6.toNat?
      some (unit (cutInnerEdge s.cfg n e nd1 nd2 nd3 nd4 nd5 nd6))
  | ["collapse", e] => do
      let e ← e.toNat?
      some (do let v ← collapseEdge s.cfg n e; pure (toString v))
  | ["ranchor", k, id] => do
      let (st, _) ← anchorStorage k; let id ← id.toNat?
      some (do let v ← readAttr s.cfg st id; pure (anchorStr v))
  | ["wanchort", k, id, a] => do
      let (st, md) ← anchorStorage k; let id ← id.toNat?; let c ← parseAnchor md a
      some (do let v ← writeAttr s.cfg st id (.tm (.leaf c)); pure (anchorStr v))
  | ["xanchort", k, id] => do
      let (st, _) ← anchorStorage k; let id ← id.toNat?
      some (do let v ← removeAttr s.cfg st id; pure (anchorStr v))
  | _ => none

def topR (s : Sess) (toks : List String) : Option (Sess × String) :=
  match toks with
  | "wanchor" :: rest =>
      some <|
      if s.dim ≠ 2 then (s, "bad-op") else
      match rest with
      | [k, id, a] =>
          match anchorStorage k, id.toNat? with
          | some (st, md), some id =>
              if !(regd s.cfg stVA && regd s.cfg stEA && regd s.cfg stFA) then (s, "bad-op") else
              match parseAnchor md a with
              | none => (s, "bad-op")
              | some c =>
                  if s.m.okA st id ∧ id < s.m.n then ({ s with m := s.m.setA st id (some (.tm (.leaf c))) }, "ok")
                  else (s, "panic")
          | _, _ => (s, "bad-op")
      | _ => (s, "bad-op")
  | _ => none

end HC
