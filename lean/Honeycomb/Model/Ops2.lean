/-
  L1 — `CMap2`: cell identifiers, orbits, iterators, sews (dim2/basic_ops.rs, dim2/orbits.rs,
  dim2/sews/{one,two}.rs, dim2/links).
-/
import Honeycomb.Model.Ops

namespace HC
variable {X : Type}

/-! ## orbits and identifiers -/

/-- orbit policies; `custom` carries the β list -/
inductive Policy where
  | vertex | vertexLinear | edge | face | faceLinear | volume | volumeLinear
  | custom (bs : List Nat)
  deriving Repr, DecidableEq

/-- images examined for dart `d` under a 2-D policy, as in `orbit_transac` -/
def gen2 : Policy → Nat → P X (List Nat)
  | .vertex, d => do
      let b2 ← rB 2 d
      let b0 ← rB 0 d
      let im1 ← rB 1 b2
      let im2 ← rB 2 b0
      pure [im1, im2]
  | .vertexLinear, d => do
      let b2 ← rB 2 d
      let im ← rB 1 b2
      pure [im]
  | .edge, d => do
      let im ← rB 2 d
      pure [im]
  | .face, d => do
      let im1 ← rB 1 d
      let im2 ← rB 0 d
      pure [im1, im2]
  | .faceLinear, d => do
      let im ← rB 1 d
      pure [im]
  | .custom bs, d => do
      let rec go : List Nat → List Nat → P X (List Nat)
        | [], acc => pure acc
        | i :: is, acc => do
            if i < 3 then
              let im ← rB i d
              go is (acc ++ [im])
            else Prog.panic
      go bs []
  | .volume, _ => Prog.panic
  | .volumeLinear, _ => Prog.panic

/-- `orbit_transac` (2-D), collected -/
def orbit2 (n : Nat) (pol : Policy) (d : Nat) : P X (List Nat) := orbitWith n (gen2 pol) d

/-- `vertex_id_transac` (2-D) -/
def vertexId2 (n : Nat) (d : Nat) : P X Nat := do
  let o ← orbitWith n (gen2 .vertex) d
  pure (listMin o d)

/-- `edge_id_transac` (2-D): the shortcut `min d (β2 d)` -/
def edgeId2 (d : Nat) : P X Nat := do
  let b2 ← rB 2 d
  if b2 = 0 then pure d else pure (min b2 d)

/-- `face_id_transac` (2-D) -/
def faceId2 (n : Nat) (d : Nat) : P X Nat := do
  let o ← orbitWith n (gen2 .face) d
  pure (listMin o d)

/-! ## sews -/

def one : Nat := 1

/-- vertices then user attributes bound to vertices: `self.vertices.merge(..)` followed by
    `self.attributes.merge_attributes(Vertex, ..)` -/
def mergeVertex (cfg : Cfg X) (out l r : Nat) : P X Unit := do
  mergeS cfg 0 out l r
  mergeAttrs cfg 0 out l r

def splitVertex (cfg : Cfg X) (lout rout inp : Nat) : P X Unit := do
  splitS cfg 0 lout rout inp
  splitAttrs cfg 0 lout rout inp

/-- `one_sew` (2-D) -/
def oneSew2 (cfg : Cfg X) (n l r : Nat) : P X Unit := do
  let b2l ← rB 2 l
  if b2l = 0 then oneLinkCore l r else
  let v1 ← vertexId2 n b2l
  let v2 ← vertexId2 n r
  oneLinkCore l r
  let nv ← vertexId2 n r
  mergeS cfg 0 nv v1 v2
  mergeAttrs cfg 0 nv v1 v2

/-- `one_unsew` (2-D) -/
def oneUnsew2 (cfg : Cfg X) (n l : Nat) : P X Unit := do
  let b2l ← rB 2 l
  if b2l = 0 then oneUnlinkCore l else
  let r ← rB 1 l
  let vold ← vertexId2 n r
  oneUnlinkCore l
  let nl ← vertexId2 n b2l
  let nr ← vertexId2 n r
  splitS cfg 0 nl nr vold
  splitAttrs cfg 0 nl nr vold

/-- the orientation test of `two_sew` on the four old vertex slots: skipped unless all four
    coordinates are defined -/
def badPair (cfg : Cfg X) (pl pb1r pb1l pr : Option X) : Bool :=
  match pl, pb1r, pb1l, pr with
  | some a, some b, some c, some d => cfg.badOrient a b c d
  | _, _, _, _ => false

/-- `two_sew` (2-D) -/
def twoSew2 (cfg : Cfg X) (n l r : Nat) : P X Unit := do
  let b1l ← rB 1 l
  let b1r ← rB 1 r
  if b1l = 0 ∧ b1r = 0 then do
    iLinkCore 2 l r
    let eid ← edgeId2 l
    mergeAttrs cfg 1 eid l r
  else if b1l = 0 then do
    let lv ← vertexId2 n l
    let b1rv ← vertexId2 n b1r
    iLinkCore 2 l r
    let lvn ← vertexId2 n l
    let eid ← edgeId2 l
    mergeS cfg 0 lvn lv b1rv
    mergeAttrs cfg 0 lvn lv b1rv
    mergeAttrs cfg 1 eid l r
  else if b1r = 0 then do
    let b1lv ← vertexId2 n b1l
    let rv ← vertexId2 n r
    iLinkCore 2 l r
    let rvn ← vertexId2 n r
    let eid ← edgeId2 l
    mergeS cfg 0 rvn b1lv rv
    mergeAttrs cfg 0 rvn b1lv rv
    mergeAttrs cfg 1 eid l r
  else do
    let lv ← vertexId2 n l
    let b1rv ← vertexId2 n b1r
    let b1lv ← vertexId2 n b1l
    let rv ← vertexId2 n r
    let pl ← rA 0 lv
    let pb1r ← rA 0 b1rv
    let pb1l ← rA 0 b1lv
    let pr ← rA 0 rv
    if badPair cfg pl pb1r pb1l pr then abort (errBadGeometry 2 l r) else
    iLinkCore 2 l r
    let lvn ← vertexId2 n l
    let rvn ← vertexId2 n r
    let eid ← edgeId2 l
    mergeS cfg 0 lvn lv b1rv
    mergeS cfg 0 rvn b1lv rv
    mergeAttrs cfg 0 lvn lv b1rv
    mergeAttrs cfg 0 rvn b1lv rv
    mergeAttrs cfg 1 eid l r

/-- `two_unsew` (2-D) -/
def twoUnsew2 (cfg : Cfg X) (n l : Nat) : P X Unit := do
  let r ← rB 2 l
  let b1l ← rB 1 l
  let b1r ← rB 1 r
  if b1l = 0 ∧ b1r = 0 then do
    let eold ← edgeId2 l
    iUnlinkCore 2 l
    splitAttrs cfg 1 l r eold
  else if b1l = 0 then do
    let eold ← edgeId2 l
    let lvold ← vertexId2 n l
    iUnlinkCore 2 l
    splitAttrs cfg 1 l r eold
    let a ← vertexId2 n l
    let b ← vertexId2 n b1r
    splitS cfg 0 a b lvold
    splitAttrs cfg 0 a b lvold
  else if b1r = 0 then do
    let eold ← edgeId2 l
    let rvold ← vertexId2 n r
    iUnlinkCore 2 l
    splitAttrs cfg 1 l r eold
    let a ← vertexId2 n b1l
    let b ← vertexId2 n r
    splitS cfg 0 a b rvold
    splitAttrs cfg 0 a b rvold
  else do
    let eold ← edgeId2 l
    let lvold ← vertexId2 n l
    let rvold ← vertexId2 n r
    iUnlinkCore 2 l
    splitAttrs cfg 1 l r eold
    let a ← vertexId2 n l
    let b ← vertexId2 n b1r
    let c ← vertexId2 n b1l
    let d ← vertexId2 n r
    splitS cfg 0 a b lvold
    splitAttrs cfg 0 a b lvold
    splitS cfg 0 c d rvold
    splitAttrs cfg 0 c d rvold

/-! ## iterators (non-transactional: one `atomically` per id computation) -/

def okVal {α : Type} (r : Out Err α × Map X) (dflt : α) : α :=
  match r.1 with
  | .ok a => a
  | _ => dflt

/-- `iter_vertices` / `iter_edges` / `iter_faces` with the id function as a parameter -/
def iterCells (m : Map X) (idf : Nat → P X Nat) : List Nat :=
  (List.range m.n).filter (fun d => d ≠ 0 ∧ !m.unused d ∧ okVal (run (idf d) m) 0 = d)

def iterVertices2 (m : Map X) : List Nat := iterCells m (vertexId2 m.n)
def iterEdges2 (m : Map X) : List Nat := iterCells m edgeId2
def iterFaces2 (m : Map X) : List Nat := iterCells m (faceId2 m.n)

end HC
