/-
  Idealised binary floating-point rounding (property C19, round 2; also used by C12b).

  `rnd p x` is `x` rounded to the nearest number with `p` significant bits, ties to even, with an
  UNBOUNDED exponent range — IEEE-754 `roundTiesToEven` of binary64 (`p = 53`) / binary32 (`p = 24`)
  as long as neither overflow nor underflow (subnormal results) occurs; both are excluded, not modelled.

  Executable over core `Rat` (import-free: the driver answers `geo flop …` with it); the theory
  (`Lemmas/Rounding.lean`: exact on representable numbers, monotone, odd, relative error ≤ 2⁻ᵖ) and the
  instance of the rounding-model hypothesis (`Props/C19b.lean`) are proved about THIS definition.
  The tie to the hardware is the `flop` stream of tools/props/c19.py: the real `f64`/`f32` `+ − × ÷`
  against `rnd 53` / `rnd 24`.
-/

namespace HC.Geo

/-- `2^k` for an integer `k` -/
def pow2 (k : Int) : Rat :=
  match k with
  | .ofNat n => ((2 ^ n : Nat) : Rat)
  | .negSucc n => 1 / ((2 ^ (n + 1) : Nat) : Rat)

/-- `⌊log₂ a⌋` for `a > 0`: the difference of the bit lengths of numerator and denominator, corrected
    by one comparison -/
def ilog2 (a : Rat) : Int :=
  let k : Int := (a.num.natAbs.log2 : Int) - (a.den.log2 : Int)
  if pow2 k ≤ a then k else k - 1

/-- nearest integer, ties to even -/
def roundEven (m : Rat) : Int :=
  let f := m.floor
  let r := m - (f : Rat)
  if r < 1 / 2 then f else if 1 / 2 < r then f + 1 else if f % 2 = 0 then f else f + 1

/-- rounding of a positive number: scale so that the significand `m = a / 2^e` lies in
    `[2^(p-1), 2^p)`, round `m` to the nearest integer (ties to even), scale back -/
def rndPos (p : Nat) (a : Rat) : Rat :=
  let e : Int := ilog2 a - ((p : Int) - 1)
  ((roundEven (a / pow2 e) : Int) : Rat) * pow2 e

/-- round to nearest, ties to even, `p` significant bits, unbounded exponent -/
def rnd (p : Nat) (x : Rat) : Rat :=
  if x = 0 then 0 else if 0 < x then rndPos p x else -(rndPos p (-x))

/-! ### bounded exponent range (binary32: `p = 24, emin = -126, emax = 127`; binary64: `53, -1022, 1023`) -/

/-- largest finite number: `(2^p - 1)·2^(emax - p + 1)` -/
def maxFinite (p : Nat) (emax : Int) : Rat := ((2 ^ p - 1 : Nat) : Rat) * pow2 (emax - (p : Int) + 1)

/-- IEEE-754 `roundTiesToEven` with a BOUNDED exponent range: below `2^emin` the result is rounded on the
    fixed subnormal grid `2^(emin - p + 1)` (gradual underflow; zero included), otherwise it is `rnd p x`,
    and `none` (an infinity) when that exceeds the largest finite number (overflow). -/
def rndB (p : Nat) (emin emax : Int) (x : Rat) : Option Rat :=
  let a := if x < 0 then -x else x
  if a < pow2 emin then
    let q := pow2 (emin - (p : Int) + 1)
    let r : Rat := ((roundEven (a / q) : Int) : Rat) * q
    some (if x < 0 then -r else r)
  else
    let r := rnd p x
    if maxFinite p emax < (if r < 0 then -r else r) then none else some r

/-! ### decoding IEEE bit patterns (driver only) -/

def hexDigit (c : Char) : Option Nat :=
  if '0' ≤ c ∧ c ≤ '9' then some (c.toNat - '0'.toNat)
  else if 'a' ≤ c ∧ c ≤ 'f' then some (c.toNat - 'a'.toNat + 10)
  else if 'A' ≤ c ∧ c ≤ 'F' then some (c.toNat - 'A'.toNat + 10)
  else none

def parseHex (s : String) : Option Nat :=
  s.toList.foldl (fun acc c => match acc, hexDigit c with
    | some n, some d => some (16 * n + d)
    | _, _ => none) (if s.isEmpty then none else some 0)

/-- value of a finite IEEE bit pattern with `mb` explicit mantissa bits and `eb` exponent bits
    (`none` for infinities and NaN) -/
def decodeFloat (mb eb : Nat) (bits : Nat) : Option Rat :=
  let m := bits % 2 ^ mb
  let e := (bits / 2 ^ mb) % 2 ^ eb
  let neg := (bits / 2 ^ (mb + eb)) % 2 = 1
  let bias : Int := (2 ^ (eb - 1) - 1 : Nat)
  if e = 2 ^ eb - 1 then none else
  let v : Rat :=
    if e = 0 then (m : Rat) * pow2 (1 - bias - (mb : Int))
    else ((2 ^ mb + m : Nat) : Rat) * pow2 ((e : Int) - bias - (mb : Int))
  some (if neg then -v else v)

end HC.Geo
