/-
  L0 — the transaction discipline of `fast-stm` as used by honeycomb.

  * `Prog`     : the shape of every transactional closure (`Fn(&mut Transaction) -> …`):
                 a tree of `read` / `write` on transactional variables ending in
                 `ret`, `abort e` (user error), `retry` (`StmError::Retry`) or `panic`.
  * `run`      : direct (sequential, in-place) semantics on a store.
  * `execLog`  : the semantics of `Transaction::read/write` — reads consult the log first,
                 the first read of a variable is recorded, writes only go to the log.
  * `atomically` / `atomicallyLog` : `atomically_with_err` — publish on `ok`, drop on error.

  Import-free (core only) so that the driver can be compiled natively.
-/

namespace HC

/-- three-way outcome of a closure / call. `retry` = `StmError::Retry`, `panic` = Rust panic. -/
inductive Out (ε α : Type) where
  | ok (a : α)
  | err (e : ε)
  | retry
  | panic
  deriving Repr, DecidableEq

/-- abstract store interface: variables, values, range check and typing of values -/
class Store (S : Type) (Var Val : outParam Type) where
  sget : S → Var → Val
  sset : S → Var → Val → S
  /-- the variable exists (Rust: index in range) -/
  svalid : S → Var → Bool
  /-- the value has the type of the variable -/
  styped : S → Var → Val → Bool

open Store

class LawfulStore (S : Type) (Var Val : outParam Type) [DecidableEq Var] [Store S Var Val] : Prop where
  sget_sset : ∀ (s : S) (v w : Var) (x : Val), svalid s v = true → styped s v x = true →
      sget (sset s v x) w = if v = w then x else sget s w
  svalid_sset : ∀ (s : S) (v w : Var) (x : Val), svalid (sset s v x) w = svalid s w
  styped_sset : ∀ (s : S) (v w : Var) (x y : Val), styped (sset s v x) w y = styped s w y
  styped_sget : ∀ (s : S) (v : Var), svalid s v = true → styped s v (sget s v) = true

inductive Prog (Var Val ε α : Type) : Type where
  | ret (a : α)
  | read (v : Var) (k : Val → Prog Var Val ε α)
  | write (v : Var) (x : Val) (k : Prog Var Val ε α)
  | abort (e : ε)
  | retry
  | panic

namespace Prog

variable {Var Val ε α β : Type}

/-- the caller handles the refusal itself: an `abort e` of `p` becomes the value `.error e` and the transaction goes on
    (the writes `p` made before aborting stay in the log, exactly as in fast-stm when the closure swallows an
    `Err(TransactionError::Abort(e))` instead of propagating it with `?`) -/
def attempt : Prog Var Val ε α → Prog Var Val ε (Except ε α)
  | .ret a => .ret (.ok a)
  | .read v k => .read v (fun x => (k x).attempt)
  | .write v x k => .write v x k.attempt
  | .abort e => .ret (.error e)
  | .retry => .retry
  | .panic => .panic

def bind : Prog Var Val ε α → (α → Prog Var Val ε β) → Prog Var Val ε β
  | .ret a, f => f a
  | .read v k, f => .read v (fun x => (k x).bind f)
  | .write v x k, f => .write v x (k.bind f)
  | .abort e, _ => .abort e
  | .retry, _ => .retry
  | .panic, _ => .panic

instance : Monad (Prog Var Val ε) where
  pure := .ret
  bind := Prog.bind

@[simp] theorem pure_eq (a : α) : (pure a : Prog Var Val ε α) = .ret a := rfl
@[simp] theorem bind_eq (p : Prog Var Val ε α) (f : α → Prog Var Val ε β) : p >>= f = p.bind f := rfl
@[simp] theorem ret_bind (a : α) (f : α → Prog Var Val ε β) : (Prog.ret a).bind f = f a := rfl
@[simp] theorem read_bind (v : Var) (k : Val → Prog Var Val ε α) (f : α → Prog Var Val ε β) :
    (Prog.read v k).bind f = .read v (fun x => (k x).bind f) := rfl
@[simp] theorem write_bind (v : Var) (x : Val) (k : Prog Var Val ε α) (f : α → Prog Var Val ε β) :
    (Prog.write v x k).bind f = .write v x (k.bind f) := rfl
@[simp] theorem abort_bind (e : ε) (f : α → Prog Var Val ε β) :
    (Prog.abort e : Prog Var Val ε α).bind f = .abort e := rfl
@[simp] theorem retry_bind (f : α → Prog Var Val ε β) :
    (Prog.retry : Prog Var Val ε α).bind f = .retry := rfl
@[simp] theorem panic_bind (f : α → Prog Var Val ε β) :
    (Prog.panic : Prog Var Val ε α).bind f = .panic := rfl

theorem bind_assoc {γ : Type} (p : Prog Var Val ε α) (f : α → Prog Var Val ε β)
    (g : β → Prog Var Val ε γ) : (p.bind f).bind g = p.bind (fun a => (f a).bind g) := by
  induction p with
  | ret a => rfl
  | read v k ih => simp [bind, ih]
  | write v x k ih => simp [bind, ih]
  | abort e => rfl
  | retry => rfl
  | panic => rfl

theorem bind_ret (p : Prog Var Val ε α) : p.bind .ret = p := by
  induction p with
  | ret a => rfl
  | read v k ih => simp [bind, ih]
  | write v x k ih => simp [bind, ih]
  | abort e => rfl
  | retry => rfl
  | panic => rfl

end Prog

section Sem
variable {S Var Val ε α β : Type} [DecidableEq Var] [Store S Var Val]

/-- direct semantics: reads and writes act on the store in place.  The store at the point of
    failure is returned too (it is *not* what `atomically` publishes). -/
def run : Prog Var Val ε α → S → Out ε α × S
  | .ret a, s => (.ok a, s)
  | .read v k, s => if svalid s v then run (k (sget s v)) s else (.panic, s)
  | .write v x k, s => if svalid s v && styped s v x then run k (sset s v x) else (.panic, s)
  | .abort e, s => (.err e, s)
  | .retry, s => (.retry, s)
  | .panic, s => (.panic, s)

/-- `atomically_with_err` in the absence of concurrency: publish iff the closure returns `Ok`. -/
def atomically (p : Prog Var Val ε α) (s : S) : Out ε α × S :=
  match run p s with
  | (.ok a, s') => (.ok a, s')
  | (o, _) => (o, s)

/-- the transaction log: variables read from the store (with the value first seen) and the
    writes, newest first.  `LogVar::{Read, Write, ReadWrite}` is the per-variable summary of
    this pair. -/
structure Log (Var Val : Type) where
  reads : List (Var × Val) := []
  writes : List (Var × Val) := []

def Log.lastWrite (ℓ : Log Var Val) (v : Var) : Option Val :=
  (ℓ.writes.find? (fun p => p.1 = v)).map (·.2)

def Log.firstRead (ℓ : Log Var Val) (v : Var) : Option Val :=
  (ℓ.reads.find? (fun p => p.1 = v)).map (·.2)

/-- `Transaction::read`: logged write wins, then logged read, else read the store and log it. -/
def Log.read (ℓ : Log Var Val) (s : S) (v : Var) : Val × Log Var Val :=
  match ℓ.lastWrite v with
  | some x => (x, ℓ)
  | none =>
    match ℓ.firstRead v with
    | some x => (x, ℓ)
    | none => (sget s v, { ℓ with reads := (v, sget s v) :: ℓ.reads })

def Log.write (ℓ : Log Var Val) (v : Var) (x : Val) : Log Var Val :=
  { ℓ with writes := (v, x) :: ℓ.writes }

/-- publish the writes, oldest first (what `commit` does once validation passed; the real commit
    writes each variable once with its last value, which is observationally the same) -/
def Log.apply (ℓ : Log Var Val) (s : S) : S :=
  ℓ.writes.foldr (fun p s => sset s p.1 p.2) s

/-- log semantics: the store is never written while the closure runs -/
def execLog : Prog Var Val ε α → S → Log Var Val → Out ε α × Log Var Val
  | .ret a, _, ℓ => (.ok a, ℓ)
  | .read v k, s, ℓ =>
      if svalid s v then
        let (x, ℓ') := ℓ.read s v
        execLog (k x) s ℓ'
      else (.panic, ℓ)
  | .write v x k, s, ℓ =>
      if svalid s v && styped s v x then execLog k s (ℓ.write v x) else (.panic, ℓ)
  | .abort e, _, ℓ => (.err e, ℓ)
  | .retry, _, ℓ => (.retry, ℓ)
  | .panic, _, ℓ => (.panic, ℓ)

/-- `atomically_with_err` through the log: run on an empty log, commit on `Ok`, drop otherwise -/
def atomicallyLog (p : Prog Var Val ε α) (s : S) : Out ε α × S :=
  match execLog p s {} with
  | (.ok a, ℓ) => (.ok a, ℓ.apply s)
  | (o, _) => (o, s)

end Sem

end HC
