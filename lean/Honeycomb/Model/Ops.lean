/-
  L1 — core operations shared by `CMap2` and `CMap3`:
  link cores (`components/betas.rs`), attribute storages (`attributes/collections.rs`,
  `attributes/manager.rs`), the generic BFS used by orbits and cell ids, allocation.

  Every definition mirrors one Rust function, with the same reads in the same order.
-/
import Honeycomb.Model.Map

namespace HC

/-! ## attribute laws (`AttributeUpdate`) -/

/-- a user-supplied `AttributeUpdate` implementation; no equation is assumed -/
structure Law (X : Type) where
  merge : X → X → Except Err X
  mergeInc : X → Except Err X
  mergeNone : Except Err X
  split : X → Except Err (X × X)
  splitNone : Except Err (X × X)
  /-- whether the attribute type is one of the harness' fault-injectable test types -/
  ticks : Bool := false

/-- orbit kind a storage is bound to: 0 vertex, 1 edge, 2 face, 3 volume -/
abbrev Kind := Nat

/-- static description of a map: number of β rows and the registered attribute storages.
    Storage 0 is always the built-in vertex storage (`kind 0`). -/
structure Cfg (X : Type) where
  nb : Nat
  kinds : List Kind
  law : Nat → Law X
  /-- orientation test of `two_sew`: `(l, b1r, b1l, r) ↦ (b1l - l)·(b1r - r) ≥ 0` -/
  badOrient : X → X → X → X → Bool

variable {X : Type}

def errNonFreeBase (i l r : Nat) : Err := ⟨"NonFreeBase", [i, l, r]⟩
def errNonFreeImage (i l r : Nat) : Err := ⟨"NonFreeImage", [i, l, r]⟩
def errAlreadyFree (i l : Nat) : Err := ⟨"AlreadyFree", [i, l]⟩
def errAsym (l r : Nat) : Err := ⟨"AsymmetricalFaces", [l, r]⟩
def errBadGeometry (i l r : Nat) : Err := ⟨"BadGeometry", [i, l, r]⟩
def errInsufficient : Err := ⟨"InsufficientData", []⟩
def errFailedMerge : Err := ⟨"FailedMerge", []⟩
def errFailedSplit : Err := ⟨"FailedSplit", []⟩

/-! ## link cores (`BetaFunctions::*_core`) -/

/-- `one_link_core` -/
def oneLinkCore (l r : Nat) : P X Unit := do
  let b1l ← rB 1 l
  if b1l ≠ 0 then abort (errNonFreeBase 1 l r) else
  let b0r ← rB 0 r
  if b0r ≠ 0 then abort (errNonFreeImage 0 l r) else
  wB 1 l r
  wB 0 r l

/-- `two_link_core` / `three_link_core` (`i = 2, 3`) -/
def iLinkCore (i l r : Nat) : P X Unit := do
  let bl ← rB i l
  if bl ≠ 0 then abort (errNonFreeBase i l r) else
  let br ← rB i r
  if br ≠ 0 then abort (errNonFreeImage i l r) else
  wB i l r
  wB i r l

/-- `one_unlink_core` (`replace` = read then write) -/
def oneUnlinkCore (l : Nat) : P X Unit := do
  let r ← rB 1 l
  wB 1 l 0
  if r = 0 then abort (errAlreadyFree 1 l) else
  wB 0 r 0

/-- `two_unlink_core` / `three_unlink_core` -/
def iUnlinkCore (i l : Nat) : P X Unit := do
  let r ← rB i l
  wB i l 0
  if r = 0 then abort (errAlreadyFree i l) else
  wB i r 0

/-! ## attribute storages -/

/-- one call of a user law, with the harness' fault countdown for test attribute types -/
def lawCall {Y : Type} (ticks : Bool) (errFault : Err) (r : Except Err Y) : P X Y :=
  if ticks then do
    let c ← rF
    if c = 1 then abort errFault else
    if c > 1 then do
      wF (c - 1)
      match r with
      | .ok y => pure y
      | .error e => abort e
    else
      match r with
      | .ok y => pure y
      | .error e => abort e
  else
    match r with
    | .ok y => pure y
    | .error e => abort e

/-- the law dispatch of `AttrSparseVec::merge` -/
def mergeVal (L : Law X) (a b : Option X) : Except Err X :=
  match a, b with
  | some x, some y => L.merge x y
  | some x, none => L.mergeInc x
  | none, some y => L.mergeInc y
  | none, none => L.mergeNone

/-- the law dispatch of `AttrSparseVec::split` -/
def splitVal (L : Law X) (a : Option X) : Except Err (X × X) :=
  match a with
  | some x => L.split x
  | none => L.splitNone

/-- `AttrSparseVec::merge` on storage `s` -/
def mergeS (cfg : Cfg X) (s out l r : Nat) : P X Unit :=
  if l = r then do
    -- both inputs designate the same cell: the value only moves
    let v ← rA s l
    wA s l none
    wA s out v
  else do
  let vl ← rA s l
  let vr ← rA s r
  let L := cfg.law s
  let v ← lawCall L.ticks errFailedMerge (mergeVal L vl vr)
  wA s r none
  wA s l none
  wA s out (some v)

/-- `AttrSparseVec::split` on storage `s` -/
def splitS (cfg : Cfg X) (s lout rout inp : Nat) : P X Unit :=
  if lout = rout then do
    -- both outputs designate the same cell: the value only moves
    let v ← rA s inp
    wA s inp none
    wA s lout v
  else do
  let v ← rA s inp
  let L := cfg.law s
  let (a, b) ← lawCall L.ticks errFailedSplit (splitVal L v)
  wA s inp none
  wA s lout (some a)
  wA s rout (some b)

/-- storages `≥ 1` bound to `kind`, in registration order (Rust: `HashMap::values()`,
    unspecified order — the storages are independent, see `Props/C04`) -/
def storagesOf (cfg : Cfg X) (kind : Kind) : List Nat :=
  (List.range cfg.kinds.length).filter (fun s => s ≠ 0 ∧ cfg.kinds.getD s 4 = kind)

def forM_ {α : Type} (l : List α) (f : α → P X Unit) : P X Unit :=
  match l with
  | [] => pure ()
  | x :: xs => do f x; forM_ xs f

/-- `AttrStorageManager::merge_attributes` -/
def mergeAttrs (cfg : Cfg X) (kind : Kind) (out l r : Nat) : P X Unit :=
  forM_ (storagesOf cfg kind) (fun s => mergeS cfg s out l r)

/-- `AttrStorageManager::split_attributes` -/
def splitAttrs (cfg : Cfg X) (kind : Kind) (lout rout inp : Nat) : P X Unit :=
  forM_ (storagesOf cfg kind) (fun s => splitS cfg s lout rout inp)

/-! ## generic BFS (orbits and cell identifiers) -/

/-- `check` closure of the orbit code: push unmarked images -/
def bfsCheck (st : List Nat × List Nat) (im : Nat) : List Nat × List Nat :=
  if st.2.contains im then st else (st.1 ++ [im], st.2 ++ [im])

/-- BFS over the images produced by `gen`.  `pending` is the `VecDeque`, `marked` the `HashSet`
    (seeded with the null dart and the start), `out` the darts yielded so far.  The fuel is
    `n_darts + 1`: every popped dart is read by `gen`, hence `< n_darts`, and no dart is pushed
    twice. -/
def bfs (gen : Nat → P X (List Nat)) : Nat → List Nat → List Nat → List Nat → P X (List Nat)
  | 0, _, _, out => pure out
  | _ + 1, [], _, out => pure out
  | f + 1, d :: rest, marked, out => do
      let ims ← gen d
      let st := ims.foldl bfsCheck (rest, marked)
      bfs gen f st.1 st.2 (out ++ [d])

def orbitWith (n : Nat) (gen : Nat → P X (List Nat)) (d : Nat) : P X (List Nat) :=
  bfs gen (n + 1) [d] [0, d] []

def listMin (l : List Nat) (d : Nat) : Nat := l.foldl min d

/-! ## allocation (`&mut self`, outside transactions) -/

def Map.empty (nb : Nat) (ns : Nat) (n : Nat) : Map X :=
  { n := n
    b := Array.replicate nb (Array.replicate n 0)
    u := Array.replicate n false
    a := (Array.replicate ns (Array.replicate (n + 1) none)).setIfInBounds 0 (Array.replicate n none) }

/-- pad the storage list to `ns` storages (the new ones undefined everywhere); used by the session
    so that every registered attribute kind has its vector -/
def Map.withStorages (m : Map X) (ns : Nat) : Map X :=
  { m with a := m.a ++ Array.replicate (ns - m.a.size) (Array.replicate (m.n + 1) none) }

/-- `add_free_darts(k)`; returns the first new id -/
def Map.addFreeDarts (m : Map X) (k : Nat) : Nat × Map X :=
  (m.n, { m with
    n := m.n + k
    b := m.b.map (fun row => ext row k 0)
    u := ext m.u k false
    a := m.a.map (fun st => ext st k none) })

/-- first flagged slot of the unused vector, scanning from index 0 -/
def firstUnused (u : Array Bool) : Option Nat :=
  (List.range u.size).find? (fun i => rd u i)

/-- `insert_free_dart` -/
def Map.insertFreeDart (m : Map X) : Nat × Map X :=
  match firstUnused m.u with
  | some d => (d, m.setU d false)
  | none => m.addFreeDarts 1

/-- `remove_free_dart_transac` -/
def removeFreeDartTx (d : Nat) : P X Bool := do
  let old ← rU d
  wU d true
  pure old

/-- `is_free` (non-transactional, all β rows) -/
def Map.isFree (m : Map X) (nb d : Nat) : Bool :=
  (List.range nb).all (fun i => m.β i d = 0)

/-- `remove_free_dart`: `assert!(is_free); assert!(!atomically(remove_free_dart_transac))`.
    The transaction commits *before* the second assertion fires. -/
def Map.removeFreeDart (m : Map X) (nb d : Nat) : Out Err Unit × Map X :=
  if d < m.n then
    if m.isFree nb d then
      match atomically (removeFreeDartTx d) m with
      | (.ok false, m') => (.ok (), m')
      | (.ok true, m') => (.panic, m')
      | (_, m') => (.panic, m')
    else (.panic, m)
  else (.panic, m)

end HC
