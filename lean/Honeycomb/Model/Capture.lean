/-
  L3 — `classify_capture` and `mark_curve` (`honeycomb-kernels/src/remeshing/capture.rs`) as programs
  over a `Map Val` whose storages 6 / 7 / 8 hold the `VertexAnchor` / `EdgeAnchor` / `FaceAnchor`
  values, encoded as `Val.tm (.leaf (4 * id + anchor_dim))` (`Gen/Anchors.lean`, `Val.lean`).

  The Rust function is a sequence of single-operation transactions (`force_*`, `orbit`, `vertex_id`
  …) on one thread; the model is one `P Val` program with the same reads and writes in the same
  order, executed with `run` (writes stay when the function returns an error).  The β functions and
  the removal flags are never written, so the lazily evaluated iterators of the Rust code
  (`iter_vertices().filter_map(..)`, `orbit(..).find(..)`, `orbit(..).filter(..).for_each(..)`) can be
  unrolled as loops over `1 .. n_darts`; attribute reads stay interleaved with the writes exactly as
  in the Rust code (a vertex anchored by an earlier `mark_curve` *is* seen by the later
  `force_read_attribute` of the first loop).

  `HashSet` `marked` of the colouring loop is only used for membership: no result depends on an
  iteration order.

  Loops of the Rust code that have no syntactic bound (`while` in `mark_curve`, `while let` over
  unmarked boundaries, the face queue) run on a fuel; running out of fuel is reported as `retry`
  (the Rust loop would not terminate).  `Props/C17.lean` proves that `mark_curve` never reaches it
  on well-formed maps.

  Import-free (core + the model).
-/
import Honeycomb.Model.Ops2
import Honeycomb.Model.Val

namespace HC

/-- storages of the three anchor kinds -/
def sVA : Nat := 6
def sEA : Nat := 7
def sFA : Nat := 8

/-- `VertexAnchor::Curve(c)` / `EdgeAnchor::Curve(c)` (same code: `4c + 1`) -/
def vCurve (c : Nat) : Val := .tm (.leaf (4 * c + 1))
/-- `VertexAnchor::Surface(s)` / `EdgeAnchor::Surface(s)` / `FaceAnchor::Surface(s)` (`4s + 2`) -/
def vSurface (s : Nat) : Val := .tm (.leaf (4 * s + 2))

def errUnsupportedGeometry : Err := ⟨"UnsupportedGeometry", []⟩

/-- `.find(|d| cmap.beta::<2>(*d) == NULL_DART_ID)` over an orbit -/
def firstFree : List Nat → P Val (Option Nat)
  | [] => pure none
  | d :: ds => do
      let b ← rB 2 d
      if b = 0 then pure (some d) else firstFree ds

/-- `cmap.orbit(OrbitPolicy::Vertex, d).find(|d| cmap.beta::<2>(*d) == NULL_DART_ID)` -/
def freeDartOfVertex (n d : Nat) : P Val (Option Nat) := do
  let o ← orbit2 n .vertex d
  firstFree o

/-- the `while` loop of `mark_curve` -/
def markCurveLoop (n c : Nat) : Nat → Nat → P Val Unit
  | 0, _ => Prog.retry
  | f + 1, next => do
      let v ← vertexId2 n next
      let a ← rA sVA v
      if a.isSome then pure () else
      let fd ← freeDartOfVertex n next
      match fd with
      | some crt => do
          let vc ← vertexId2 n crt
          wA sVA vc (some (vCurve c))
          let ec ← edgeId2 crt
          wA sEA ec (some (vCurve c))
          let nx ← rB 1 crt
          markCurveLoop n c f nx
      | none => abort errUnsupportedGeometry

/-- `mark_curve(cmap, start, curve_id)` -/
def markCurve (n start c : Nat) : P Val Unit := do
  let e ← edgeId2 start
  wA sEA e (some (vCurve c))
  let next ← rB 1 start
  markCurveLoop n c (n + 1) next

/-- first loop of `classify_capture`: `for (i, dart) in cmap.iter_vertices().filter_map(..).enumerate()`;
    arguments: remaining darts of `1..n_darts`, the `enumerate` counter, `curve_id`; returns `curve_id` -/
def classifyNodes (n : Nat) : List Nat → Nat → Nat → P Val Nat
  | [], _, cid => pure cid
  | d :: ds, i, cid => do
      let un ← rU d
      if un then classifyNodes n ds i cid else
      let vid ← vertexId2 n d
      if vid ≠ d then classifyNodes n ds i cid else
      let a ← rA sVA d
      if a.isNone then classifyNodes n ds i cid else
      let fd ← freeDartOfVertex n d
      match fd with
      | none => classifyNodes n ds i cid
      | some dart => do
          markCurve n dart i
          classifyNodes n ds (i + 1) (max cid i)

/-- the search of the second loop: first in-use dart whose vertex has a 2-free dart with an
    unanchored edge; returns that 2-free dart -/
def findUnmarkedBoundary (n : Nat) : List Nat → P Val (Option Nat)
  | [] => pure none
  | d :: ds => do
      let un ← rU d
      if un then findUnmarkedBoundary n ds else
      let fd ← freeDartOfVertex n d
      match fd with
      | none => findUnmarkedBoundary n ds
      | some dd => do
          let e ← edgeId2 dd
          let a ← rA sEA e
          if a.isNone then pure (some dd) else findUnmarkedBoundary n ds

/-- second loop: `while let Some(dart) = … { curve_id += 1; … }` -/
def classifyLoops (n : Nat) : Nat → Nat → P Val Nat
  | 0, _ => Prog.retry
  | f + 1, cid => do
      let r ← findUnmarkedBoundary n (List.range' 1 (n - 1))
      match r with
      | none => pure cid
      | some dart => do
          let v ← vertexId2 n dart
          wA sVA v (some (vCurve (cid + 1)))
          markCurve n dart (cid + 1)
          classifyLoops n f (cid + 1)

/-- body of `.filter(edge unanchored).for_each(..)` over the darts of the current face;
    state: the queue and the `marked` set -/
def colourDarts (n sid : Nat) : List Nat → List Nat → List Nat → P Val (List Nat × List Nat)
  | [], q, mk => pure (q, mk)
  | d :: ds, q, mk => do
      let e ← edgeId2 d
      let a ← rA sEA e
      if a.isSome then colourDarts n sid ds q mk else
      let e' ← edgeId2 d
      wA sEA e' (some (vSurface sid))
      let v ← vertexId2 n d
      let av ← rA sVA v
      (if av.isNone then do
          let v' ← vertexId2 n d
          wA sVA v' (some (vSurface sid))
        else pure ())
      let b2 ← rB 2 d
      let nf ← faceId2 n b2
      if mk.contains nf then colourDarts n sid ds q mk
      else colourDarts n sid ds (q ++ [nf]) (mk ++ [nf])

/-- `while let Some(crt) = queue.pop_front()`; returns the `marked` set -/
def colourSurface (n sid : Nat) : Nat → List Nat → List Nat → P Val (List Nat)
  | 0, _, _ => Prog.retry
  | _ + 1, [], mk => pure mk
  | f + 1, crt :: q, mk => do
      wA sFA crt (some (vSurface sid))
      let o ← orbit2 n .face crt
      let (q', mk') ← colourDarts n sid o q mk
      colourSurface n sid f q' mk'

/-- third loop: `cmap.iter_faces().for_each(..)`; arguments: remaining darts, `surface_id`, `marked` -/
def classifySurfaces (n : Nat) : List Nat → Nat → List Nat → P Val Unit
  | [], _, _ => pure ()
  | d :: ds, sid, mk => do
      let un ← rU d
      if un then classifySurfaces n ds sid mk else
      let f ← faceId2 n d
      if f ≠ d then classifySurfaces n ds sid mk else
      let a ← rA sFA d
      if a.isSome then classifySurfaces n ds sid mk else
      let mk' ← colourSurface n sid (n + 2) [d] mk
      classifySurfaces n ds (sid + 1) mk'

/-- `iter_*().all(|c| force_read_attribute(c).is_some())` of the final `debug_assert!`s
    (`idf` = the identifier function of the cell kind, `s` = the storage) -/
def allAnchored (s : Nat) (idf : Nat → P Val Nat) : List Nat → P Val Bool
  | [] => pure true
  | d :: ds => do
      let un ← rU d
      if un then allAnchored s idf ds else
      let c ← idf d
      if c ≠ d then allAnchored s idf ds else
      let a ← rA s d
      if a.isNone then pure false else allAnchored s idf ds

/-- `classify_capture` after the three `contains_attribute` checks, without the final assertions -/
def classifyCore (n : Nat) : P Val Unit := do
  let ds := List.range' 1 (n - 1)
  let cid ← classifyNodes n ds 0 0
  let _ ← classifyLoops n (n + 1) cid
  classifySurfaces n ds 0 [0]

/-- `classify_capture` (debug build: the three `debug_assert!`s panic) -/
def classifyCapture (n : Nat) : P Val Unit := do
  classifyCore n
  let ds := List.range' 1 (n - 1)
  let av ← allAnchored sVA (vertexId2 n) ds
  if !av then Prog.panic else
  let ae ← allAnchored sEA edgeId2 ds
  if !ae then Prog.panic else
  let af ← allAnchored sFA (faceId2 n) ds
  if !af then Prog.panic else pure ()

end HC
