/-
  Protocol extension for the 2-D kernels of `honeycomb-kernels` (C13, C14).  All commands are
  transactional (usable alone = one `atomically_with_err`, or inside `tx … endtx`):

    insv <edge> <nd1> <nd2> <t|->              insert_vertex_on_edge(edge, (nd1, nd2), Some(t) | None)
    insvs <edge> <k> <d_1 … d_k> <t_1 … t_j>   insert_vertices_on_edge(edge, &[d…], &[t…])
    fan <face> <k> <d_1 … d_k>                 triangulation::fan_cell
    fanconvex <face> <k> <d_1 … d_k>           triangulation::fan_convex_cell
    earclip <ccw|cw> <face> <k> <d_1 … d_k>    triangulation::earclip_cell_countercw / _cw

  Positions are exact rationals.
-/
import Honeycomb.Model.Session
import Honeycomb.Model.Kernels.VertexInsertion
import Honeycomb.Model.Kernels.Fan
import Honeycomb.Model.Kernels.EarClip

namespace HC

def allSomeK {α : Type} (l : List (Option α)) : Option (List α) :=
  l.foldr (fun x acc => match x, acc with
    | some a, some as => some (a :: as)
    | _, _ => none) (some [])

/-- `<k> <d_1 … d_k> rest…` -/
def takeDarts (toks : List String) : Option (List Nat × List String) :=
  match toks with
  | k :: rest => do
      let k ← k.toNat?
      if rest.length < k then none else
      let ds ← allSomeK ((rest.take k).map String.toNat?)
      some (ds, rest.drop k)
  | [] => none

def txOpK (s : Sess) (toks : List String) : Option (P Val String) :=
  if s.dim ≠ 2 then none else
  let n := s.m.n
  let unit (p : P Val Unit) : P Val String := do p; pure ""
  match toks with
  | ["insv", e, nd1, nd2, t] => do
      let e ← e.toNat?; let nd1 ← nd1.toNat?; let nd2 ← nd2.toNat?
      let t ← (if t = "-" then some none else (parseRat t).map some)
      some (unit (insertVertexOnEdge n e nd1 nd2 t))
  | "insvs" :: e :: rest => do
      let e ← e.toNat?
      let (ds, rest) ← takeDarts rest
      let ts ← allSomeK (rest.map parseRat)
      some (unit (insertVerticesOnEdge n e ds ts))
  | "fan" :: f :: rest => do
      let f ← f.toNat?
      let (ds, rest) ← takeDarts rest
      if rest ≠ [] then none else
      some (unit (fanCell s.cfg n f ds))
  | "fanconvex" :: f :: rest => do
      let f ← f.toNat?
      let (ds, rest) ← takeDarts rest
      if rest ≠ [] then none else
      some (unit (fanConvexCell s.cfg n f ds))
  | "earclip" :: o :: f :: rest => do
      let f ← f.toNat?
      let (ds, rest) ← takeDarts rest
      if rest ≠ [] then none else
      match o with
      | "ccw" => some (unit (earclipCellCCW s.cfg n f ds))
      | "cw" => some (unit (earclipCellCW s.cfg n f ds))
      | _ => none
  | _ => none

end HC
