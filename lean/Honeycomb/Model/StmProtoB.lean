/-
  L0 — the concurrent protocol of `fast-stm` at LOCK granularity (granularity B of DESIGN §4.1):
  `Transaction::commit` is not one step.  It walks over the variables of its log and takes, one
  variable at a time, the write lock of a written variable / the read lock of a read-only one,
  validating the logged version of that variable AT LOCK TIME (`Arc::ptr_eq` under the lock);
  a failed validation releases everything and restarts the attempt; once every variable of the
  log is locked the read locks are dropped, the writes are stored and the write locks released.
  Other threads run between any two of these steps.  A thread that needs a lock held in an
  incompatible mode by another thread is blocked (its step is a no-op), and so is a first read
  of a variable (`read_ref_atomic` takes the read lock for an instant) while another thread
  holds its write lock.

  Modelling choices (named in the evidence): the final "drop read locks; store every write;
  unlock" is ONE step — during it every written variable is exclusively locked by the committing
  thread, so no other thread can observe or modify those variables in between; the order in
  which the variables are locked is a PARAMETER `ord` of the step function (the real code walks a
  `BTreeMap` keyed by the address of the variable's control block, i.e. a fixed global order):
  safety (Props/C07B.lean) holds for every `ord` that loses no variable, absence of deadlock
  (Props/C07Live.lean) for every `ord` that sorts along an injective rank.
-/
import Honeycomb.Model.StmProto

namespace HC.ProtoB
open HC HC.Proto

variable {Var Val ε α : Type} [DecidableEq Var] [DecidableEq α]

/-- a thread, and — while it is inside `commit()` — the variables still to lock and those locked -/
structure ThreadB (Var Val ε α : Type) where
  th : Thread Var Val ε α
  /-- `none`: running the closure; `some (todo, held)`: inside `commit()` -/
  ph : Option (List Var × List Var) := none

def wrote (t : Thread Var Val ε α) (v : Var) : Bool := t.att.writes.any (fun p => p.1 = v)

/-- the variables of the log: every read variable and every written variable -/
def logVars (t : Thread Var Val ε α) : List Var :=
  t.att.reads.map (·.1) ++ t.att.writes.map (·.1)

def heldBy (t : ThreadB Var Val ε α) (v : Var) : Bool :=
  match t.ph with
  | some (_, held) => held.contains v
  | none => false

structure SysB (Var Val ε α : Type) where
  store : VStore Var Val
  threads : List (ThreadB Var Val ε α)
  commits : List (Nat × Prog Var Val ε α × α) := []

/-- some OTHER thread holds `v` (in any mode) -/
def otherHolds (s : SysB Var Val ε α) (i : Nat) (v : Var) : Bool :=
  (List.range s.threads.length).any fun j =>
    j ≠ i && (match s.threads[j]? with | some u => heldBy u v | none => false)

/-- some OTHER thread holds the WRITE lock of `v` -/
def otherWriteHolds (s : SysB Var Val ε α) (i : Nat) (v : Var) : Bool :=
  (List.range s.threads.length).any fun j =>
    j ≠ i && (match s.threads[j]? with | some u => heldBy u v && wrote u.th v | none => false)

/-- the logged version of `v` (if `v` was read from shared memory) is still the current one -/
def validAt (t : Thread Var Val ε α) (st : VStore Var Val) (v : Var) : Bool :=
  t.att.reads.all (fun r => r.1 ≠ v || (st v).2 = r.2.2)

/-- one step of thread `i`; `ord` arranges the variables of the log in the order in which
    `commit()` locks them -/
def SysB.step (ord : List Var → List Var) (s : SysB Var Val ε α) (i : Nat) : SysB Var Val ε α :=
  match s.threads[i]? with
  | none => s
  | some tb =>
    match tb.th.todo with
    | [] => s
    | p0 :: _ =>
    match tb.ph with
    | none =>
        match tb.th.att.pc with
        | .ret _ =>
            -- enter commit(): nothing is locked yet
            { s with threads := s.threads.set i { tb with ph := some (ord (logVars tb.th), []) } }
        | .read v _ =>
            -- a first read of `v` from shared memory needs its read lock for an instant
            let ℓ := tb.th.att.toLog
            if (ℓ.lastWrite v).isNone && (ℓ.firstRead v).isNone && otherWriteHolds s i v then s
            else
              { s with store := (threadStep tb.th s.store).2.1
                       threads := s.threads.set i { tb with th := (threadStep tb.th s.store).1 } }
        | _ =>
            { s with store := (threadStep tb.th s.store).2.1
                     threads := s.threads.set i { tb with th := (threadStep tb.th s.store).1 } }
    | some (v :: todo, held) =>
        if held.contains v then
          -- already locked (a variable may occur twice in the log list)
          { s with threads := s.threads.set i { tb with ph := some (todo, held) } }
        else if wrote tb.th v then
          if otherHolds s i v then s                                  -- blocked on the write lock
          else if validAt tb.th s.store v then
            { s with threads := s.threads.set i { tb with ph := some (todo, v :: held) } }
          else { s with threads := s.threads.set i { th := tb.th.restart, ph := none } }
        else
          if otherWriteHolds s i v then s                             -- blocked on the read lock
          else if validAt tb.th s.store v then
            { s with threads := s.threads.set i { tb with ph := some (todo, v :: held) } }
          else { s with threads := s.threads.set i { th := tb.th.restart, ph := none } }
    | some ([], _) =>
        -- every variable of the log is locked: drop the read locks, store the writes, unlock
        match tb.th.att.pc with
        | .ret a =>
            { store := publish tb.th.att.writes s.store
              threads := s.threads.set i { th := tb.th.finish (.ok a), ph := none }
              commits := s.commits ++ [(i, p0, a)] }
        | _ => s

def SysB.exec (ord : List Var → List Var) (s : SysB Var Val ε α) (sched : List Nat) : SysB Var Val ε α :=
  sched.foldl (SysB.step ord) s

def SysB.init (st : Var → Val) (progs : List (List (Prog Var Val ε α))) : SysB Var Val ε α :=
  { store := fun v => (st v, 0), threads := progs.map fun ps => { th := Thread.start ps } }

end HC.ProtoB
