/-
  L3 — the clip step of grisubal (`honeycomb-kernels/src/grisubal/routines/clip.rs`): `clip_left`,
  `clip_right`, `mark_faces`, `delete_darts`, as programs over a `Map Val` whose storage 9 holds the
  per-dart `Boundary` tag (`grisubal/model.rs`: `AttributeBind` with `IdentifierType = DartIdType`, so the
  value of dart `d` sits in slot `d`), encoded as `Val.tm (.leaf code)`: 0 `Boundary::None`, 1 `Left`,
  2 `Right`; an absent value is `none`.

  The Rust functions are sequences of single-operation transactions on one thread; the model is one
  `P Val` program with the same reads and writes in the same order, executed with `run`.

  `HashSet<FaceIdType>`: `marked` is only used for membership while marking (`mark_faces`), but
  `delete_darts` *iterates* over it (`for face_id in marked`), in an unspecified order: `deleteFaces`
  takes the order as its argument; `clipWith` uses the order in which the faces were marked.
  `Props/C16Clip.lean` proves that β and the removal flags of the result do not depend on that order.

  Unbounded loop (`while let Some(face_id) = queue.pop_front()`): on a fuel (`2 * n_darts + 2`: every pop
  either finds the face marked or marks a new face, and a new face extends the queue by at most the
  number of its darts); exhaustion = `retry`.

  Import-free (core + the model).
-/
import Honeycomb.Model.Ops2
import Honeycomb.Model.Val
import Honeycomb.Model.Capture

namespace HC

/-- storage of the `Boundary` attribute -/
def sBd : Nat := 9

def bdNone : Val := .tm (.leaf 0)
def bdLeft : Val := .tm (.leaf 1)
def bdRight : Val := .tm (.leaf 2)

def errBetweenBoundary : Err := ⟨"InconsistentOrientation", []⟩

/-- `is_free` (2-map): short-circuit `&&` over β0, β1, β2 -/
def isFree2 (d : Nat) : P Val Bool := do
  let b0 ← rB 0 d
  if b0 ≠ 0 then pure false else
  let b1 ← rB 1 d
  if b1 ≠ 0 then pure false else
  let b2 ← rB 2 d
  pure (b2 = 0)

/-- the initial queue of `mark_faces`: faces of the darts tagged `mark` that are not free -/
def seedFaces (n : Nat) (mark : Val) : List Nat → P Val (List Nat)
  | [] => pure []
  | d :: ds => do
      let a ← rA sBd d
      if a = some mark then do
        let fr ← isFree2 d
        if fr then seedFaces n mark ds else do
          let f ← faceId2 n d
          let rest ← seedFaces n mark ds
          pure (f :: rest)
      else seedFaces n mark ds

/-- `darts.any(|did| Boundary(did) == Some(other))` -/
def anyTagged (tag : Val) : List Nat → P Val Bool
  | [] => pure false
  | d :: ds => do
      let a ← rA sBd d
      if a = some tag then pure true else anyTagged tag ds

/-- `darts.filter_map(|d| if matches!(Boundary(beta2(d)), Some(Boundary::None) | None) { Some(face_id(beta2(d))) } …)` -/
def untaggedNeighbours (n : Nat) : List Nat → P Val (List Nat)
  | [] => pure []
  | d :: ds => do
      let b2 ← rB 2 d
      let a ← rA sBd b2
      if a = some bdNone ∨ a = none then do
        let f ← faceId2 n b2
        let rest ← untaggedNeighbours n ds
        pure (f :: rest)
      else untaggedNeighbours n ds

/-- the `while let` loop of `mark_faces`; `marked` in insertion order (it starts as `[0]`) -/
def markLoop (n : Nat) (other : Val) : Nat → List Nat → List Nat → P Val (List Nat)
  | 0, _, _ => Prog.retry
  | _ + 1, [], marked => pure marked
  | f + 1, face :: q, marked =>
      if marked.contains face then markLoop n other f q marked else do
        let o ← orbit2 n .face face
        let bad ← anyTagged other o
        if bad then abort errBetweenBoundary else do
          let o' ← orbit2 n .face face
          let nb ← untaggedNeighbours n o'
          markLoop n other f (q ++ nb) (marked ++ [face])

/-- `mark_faces`: the marked faces without the null face, in the order they were marked -/
def markFaces (n : Nat) (mark other : Val) : P Val (List Nat) := do
  let q ← seedFaces n mark (List.range' 1 (n - 1))
  let marked ← markLoop n other (2 * n + 2) q [0]
  pure (marked.filter (· ≠ 0))

/-- `if cmap.contains_attribute::<VertexAnchor>() { force_read_attribute(vertex_id(dart_id)) } else { None }` -/
def savedAnchor (n d : Nat) (hasAnchors : Bool) : P Val (Option Val) :=
  if hasAnchors then do
    let vid' ← vertexId2 n d
    rA sVA vid'
  else pure none

/-- first statement of `delete_darts`: `(dart, vertex, anchor)` of every dart tagged `kept` -/
def savedBoundary (n : Nat) (kept : Val) (hasAnchors : Bool) : List Nat → P Val (List (Nat × Val × Option Val))
  | [] => pure []
  | d :: ds => do
      let a ← rA sBd d
      if a = some kept then do
        let vid ← vertexId2 n d
        let v ← rA 0 vid
        match v with
        | none => Prog.panic   -- `.expect("E: found a topological vertex with no associated coordinates")`
        | some v => do
          let anc ← savedAnchor n d hasAnchors
          let rest ← savedBoundary n kept hasAnchors ds
          pure ((d, v, anc) :: rest)
      else savedBoundary n kept hasAnchors ds

/-- inner loop: `force_remove_vertex(vertex_id(dart)); set_betas(dart, [0; 3]); remove_free_dart(dart)` -/
def deleteDartsOf (n : Nat) : List Nat → P Val Unit
  | [] => pure ()
  | d :: ds => do
      let vid ← vertexId2 n d
      let _ ← rA 0 vid
      wA 0 vid none
      wB 0 d 0
      wB 1 d 0
      wB 2 d 0
      -- `remove_free_dart`: `assert!(is_free)`; `assert!(!remove_free_dart_transac)`
      let fr ← isFree2 d
      if !fr then Prog.panic else
      let old ← rU d
      wU d true
      if old then Prog.panic else deleteDartsOf n ds

/-- `for face_id in marked { let darts = orbit(Face, face_id).collect(); for &dart in &darts { … } }`;
    the list is the iteration order of the `HashSet` -/
def deleteFaces (n : Nat) : List Nat → P Val Unit
  | [] => pure ()
  | f :: fs => do
      let darts ← orbit2 n .face f
      deleteDartsOf n darts
      deleteFaces n fs

/-- last loop of `delete_darts` -/
def restoreBoundary (n : Nat) : List (Nat × Val × Option Val) → P Val Unit
  | [] => pure ()
  | (d, v, anc) :: rest => do
      wB 2 d 0
      let vid ← vertexId2 n d
      let _ ← rA 0 vid
      wA 0 vid (some v)
      (match anc with
       | some a => do
           let _ ← rA sVA vid
           wA sVA vid (some a)
       | none => pure ())
      restoreBoundary n rest

/-- `delete_darts(cmap, marked, kept_boundary)` with the iteration order `order` of `marked` -/
def deleteDarts (n : Nat) (order : List Nat) (kept : Val) (hasAnchors : Bool) : P Val Unit := do
  let saved ← savedBoundary n kept hasAnchors (List.range' 1 (n - 1))
  deleteFaces n order
  restoreBoundary n saved

/-- `clip_left` (`mark = Left`, `other = Right`) / `clip_right`, the `HashSet` being iterated in the
    order `perm marked` -/
def clipWith (n : Nat) (mark other : Val) (hasAnchors : Bool) (perm : List Nat → List Nat) : P Val Unit := do
  let marked ← markFaces n mark other
  deleteDarts n (perm marked) other hasAnchors

def clipLeft (n : Nat) (hasAnchors : Bool) : P Val Unit := clipWith n bdLeft bdRight hasAnchors id
def clipRight (n : Nat) (hasAnchors : Bool) : P Val Unit := clipWith n bdRight bdLeft hasAnchors id

end HC
