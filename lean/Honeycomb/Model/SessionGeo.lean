/-
  Protocol extension for the geometric primitives (C19): stateless commands
      geo <op> <rational arguments…>
  answered from `Model/Geometry.lean` instantiated with `Rat`.  The Rust side (`harness/hcimpl/src/geo.rs`)
  runs the real operators on `f64`; the generators only send small dyadic numbers, for which every
  `+ − × ÷2ᵏ` is exact, and prints the exact value of every result.

  Replies: `ok c1 c2 [c3]` (components / scalar as exact rationals), `panic` (the `assert!` of `Div`),
  `err InvalidUnitDir|InvalidNormDir`.  For `unit_dir`/`normal_dir` the successful reply is the
  canonical description `ok s <sign pattern> unit parallel` resp. `… unit normal ccw`: the sign
  pattern of the result is compared exactly; the words `unit`, `parallel`, `normal`, `ccw` are
  tolerance tests evaluated on the Rust side only (norm within 1e-12 of 1, …) — the model prints
  them unconditionally (they are theorems `C19_unitDir_*` over ℝ).
  `geo flop <f64|f32> <add|sub|mul|div> <hex a> <hex b>` ties the idealised rounding `rnd 53` / `rnd 24` to
  the hardware arithmetic (exact comparison; see `geoFlop`).
  Model-only commands (no Rust counterpart; used by the tolerance tie of the skewness):
  `geo skewang <pi> <θ…>` and `geo corners <x y …>`.
-/
import Honeycomb.Model.Geometry
import Honeycomb.Model.Rounding
import Honeycomb.Model.Session

namespace HC
open HC.Geo

def geoV2 (v : V2 Rat) : String := s!"ok {ratStr v.x} {ratStr v.y}"
def geoP2 (v : P2 Rat) : String := s!"ok {ratStr v.x} {ratStr v.y}"
def geoV3 (v : V3 Rat) : String := s!"ok {ratStr v.x} {ratStr v.y} {ratStr v.z}"
def geoP3 (v : P3 Rat) : String := s!"ok {ratStr v.x} {ratStr v.y} {ratStr v.z}"
def geoS (q : Rat) : String := s!"ok {ratStr q}"
def geoOpt {β : Type} (f : β → String) (o : Option β) : String :=
  match o with
  | some v => f v
  | none => "panic"

def sgnStr (q : Rat) : String := if q > 0 then "1" else if q < 0 then "-1" else "0"

def geoUnit2 (tail : String) (r : Except CoordsError (Rat × V2 Rat)) : String :=
  match r with
  | .error e => s!"err {e.toStr}"
  | .ok (_, d) => s!"ok s {sgnStr d.x} {sgnStr d.y} {tail}"

def geoUnit3 (r : Except CoordsError (Rat × V3 Rat)) : String :=
  match r with
  | .error e => s!"err {e.toStr}"
  | .ok (_, d) => s!"ok s {sgnStr d.x} {sgnStr d.y} {sgnStr d.z} unit parallel"

/-- `Vector2` operators -/
def geoOpV2 (op : String) (a : List Rat) : Option String :=
  match op, a with
  | "v2unitx", [] => some (geoV2 V2.unitX)
  | "v2unity", [] => some (geoV2 V2.unitY)
  | "v2default", [] => some (geoV2 V2.default)
  | "v2tuple", [x, y] => some (let p := (V2.ofTuple (x, y)).intoInner; s!"ok {ratStr p.1} {ratStr p.2}")
  | "v2add", [ax, ay, bx, by_] => some (geoV2 (V2.add ⟨ax, ay⟩ ⟨bx, by_⟩))
  | "v2addassign", [ax, ay, bx, by_] => some (geoV2 (V2.addAssign ⟨ax, ay⟩ ⟨bx, by_⟩))
  | "v2sub", [ax, ay, bx, by_] => some (geoV2 (V2.sub ⟨ax, ay⟩ ⟨bx, by_⟩))
  | "v2subassign", [ax, ay, bx, by_] => some (geoV2 (V2.subAssign ⟨ax, ay⟩ ⟨bx, by_⟩))
  | "v2mul", [ax, ay, k] => some (geoV2 (V2.mul ⟨ax, ay⟩ k))
  | "v2mulassign", [ax, ay, k] => some (geoV2 (V2.mulAssign ⟨ax, ay⟩ k))
  | "v2div", [ax, ay, k] => some (geoOpt geoV2 (V2.div ⟨ax, ay⟩ k))
  | "v2divassign", [ax, ay, k] => some (geoOpt geoV2 (V2.divAssign ⟨ax, ay⟩ k))
  | "v2neg", [ax, ay] => some (geoV2 (V2.neg ⟨ax, ay⟩))
  | "v2dot", [ax, ay, bx, by_] => some (geoS (V2.dot ⟨ax, ay⟩ ⟨bx, by_⟩))
  | "v2unitdir", [ax, ay] => some (geoUnit2 "unit parallel" (V2.unitDirPre ⟨ax, ay⟩))
  | "v2normaldir", [ax, ay] => some (geoUnit2 "unit normal ccw" (V2.normalDirPre ⟨ax, ay⟩))
  | "v2addsub", [ax, ay, bx, by_] => some (geoV2 (V2.sub (V2.add ⟨ax, ay⟩ ⟨bx, by_⟩) ⟨ax, ay⟩))
  | _, _ => none

/-- `Vector3` operators -/
def geoOpV3 (op : String) (a : List Rat) : Option String :=
  match op, a with
  | "v3unitx", [] => some (geoV3 V3.unitX)
  | "v3unity", [] => some (geoV3 V3.unitY)
  | "v3unitz", [] => some (geoV3 V3.unitZ)
  | "v3default", [] => some (geoV3 V3.default)
  | "v3tuple", [x, y, z] =>
      some (let p := (V3.ofTuple (x, y, z)).intoInner; s!"ok {ratStr p.1} {ratStr p.2.1} {ratStr p.2.2}")
  | "v3fromv2", [x, y] => some (geoV3 (V3.ofV2 ⟨x, y⟩))
  | "v3add", [ax, ay, az, bx, by_, bz] => some (geoV3 (V3.add ⟨ax, ay, az⟩ ⟨bx, by_, bz⟩))
  | "v3addassign", [ax, ay, az, bx, by_, bz] => some (geoV3 (V3.addAssign ⟨ax, ay, az⟩ ⟨bx, by_, bz⟩))
  | "v3sub", [ax, ay, az, bx, by_, bz] => some (geoV3 (V3.sub ⟨ax, ay, az⟩ ⟨bx, by_, bz⟩))
  | "v3subassign", [ax, ay, az, bx, by_, bz] => some (geoV3 (V3.subAssign ⟨ax, ay, az⟩ ⟨bx, by_, bz⟩))
  | "v3mul", [ax, ay, az, k] => some (geoV3 (V3.mul ⟨ax, ay, az⟩ k))
  | "v3mulassign", [ax, ay, az, k] => some (geoV3 (V3.mulAssign ⟨ax, ay, az⟩ k))
  | "v3div", [ax, ay, az, k] => some (geoOpt geoV3 (V3.div ⟨ax, ay, az⟩ k))
  | "v3divassign", [ax, ay, az, k] => some (geoOpt geoV3 (V3.divAssign ⟨ax, ay, az⟩ k))
  | "v3neg", [ax, ay, az] => some (geoV3 (V3.neg ⟨ax, ay, az⟩))
  | "v3dot", [ax, ay, az, bx, by_, bz] => some (geoS (V3.dot ⟨ax, ay, az⟩ ⟨bx, by_, bz⟩))
  | "v3cross", [ax, ay, az, bx, by_, bz] => some (geoV3 (V3.cross ⟨ax, ay, az⟩ ⟨bx, by_, bz⟩))
  | "v3unitdir", [ax, ay, az] => some (geoUnit3 (V3.unitDirPre ⟨ax, ay, az⟩))
  | "v3addsub", [ax, ay, az, bx, by_, bz] =>
      some (geoV3 (V3.sub (V3.add ⟨ax, ay, az⟩ ⟨bx, by_, bz⟩) ⟨ax, ay, az⟩))
  | "v3crossdot", [ax, ay, az, bx, by_, bz] =>
      let a : V3 Rat := ⟨ax, ay, az⟩
      let b : V3 Rat := ⟨bx, by_, bz⟩
      let c := V3.cross a b
      some s!"ok {ratStr (V3.dot c a)} {ratStr (V3.dot c b)}"
  | _, _ => none

/-- `Vertex2` operators -/
def geoOpP2 (op : String) (a : List Rat) : Option String :=
  match op, a with
  | "p2default", [] => some (geoP2 P2.default)
  | "p2tuple", [x, y] => some (let p := (P2.ofTuple (x, y)).intoInner; s!"ok {ratStr p.1} {ratStr p.2}")
  | "p2average", [ax, ay, bx, by_] => some (geoP2 (P2.average ⟨ax, ay⟩ ⟨bx, by_⟩))
  | "p2orient", [ax, ay, bx, by_, cx, cy] => some (geoS (P2.orient ⟨ax, ay⟩ ⟨bx, by_⟩ ⟨cx, cy⟩))
  | "p2addv", [ax, ay, bx, by_] => some (geoP2 (P2.addV ⟨ax, ay⟩ ⟨bx, by_⟩))
  | "p2addvassign", [ax, ay, bx, by_] => some (geoP2 (P2.addVAssign ⟨ax, ay⟩ ⟨bx, by_⟩))
  | "p2addvref", [ax, ay, bx, by_] => some (geoP2 (P2.addVRef ⟨ax, ay⟩ ⟨bx, by_⟩))
  | "p2addvrefassign", [ax, ay, bx, by_] => some (geoP2 (P2.addVRefAssign ⟨ax, ay⟩ ⟨bx, by_⟩))
  | "p2subv", [ax, ay, bx, by_] => some (geoP2 (P2.subV ⟨ax, ay⟩ ⟨bx, by_⟩))
  | "p2subvassign", [ax, ay, bx, by_] => some (geoP2 (P2.subVAssign ⟨ax, ay⟩ ⟨bx, by_⟩))
  | "p2subvref", [ax, ay, bx, by_] => some (geoP2 (P2.subVRef ⟨ax, ay⟩ ⟨bx, by_⟩))
  | "p2subvrefassign", [ax, ay, bx, by_] => some (geoP2 (P2.subVRefAssign ⟨ax, ay⟩ ⟨bx, by_⟩))
  | "p2sub", [ax, ay, bx, by_] => some (geoV2 (P2.sub ⟨ax, ay⟩ ⟨bx, by_⟩))
  | "p2addsub", [ax, ay, bx, by_] => some (geoV2 (P2.sub (P2.addV ⟨ax, ay⟩ ⟨bx, by_⟩) ⟨ax, ay⟩))
  | _, _ => none

/-- `Vertex3` operators -/
def geoOpP3 (op : String) (a : List Rat) : Option String :=
  match op, a with
  | "p3default", [] => some (geoP3 P3.default)
  | "p3tuple", [x, y, z] =>
      some (let p := (P3.ofTuple (x, y, z)).intoInner; s!"ok {ratStr p.1} {ratStr p.2.1} {ratStr p.2.2}")
  | "p3fromp2", [x, y] => some (geoP3 (P3.ofP2 ⟨x, y⟩))
  | "p3average", [ax, ay, az, bx, by_, bz] => some (geoP3 (P3.average ⟨ax, ay, az⟩ ⟨bx, by_, bz⟩))
  | "p3addv", [ax, ay, az, bx, by_, bz] => some (geoP3 (P3.addV ⟨ax, ay, az⟩ ⟨bx, by_, bz⟩))
  | "p3addvassign", [ax, ay, az, bx, by_, bz] => some (geoP3 (P3.addVAssign ⟨ax, ay, az⟩ ⟨bx, by_, bz⟩))
  | "p3addvref", [ax, ay, az, bx, by_, bz] => some (geoP3 (P3.addVRef ⟨ax, ay, az⟩ ⟨bx, by_, bz⟩))
  | "p3addvrefassign", [ax, ay, az, bx, by_, bz] =>
      some (geoP3 (P3.addVRefAssign ⟨ax, ay, az⟩ ⟨bx, by_, bz⟩))
  | "p3subv", [ax, ay, az, bx, by_, bz] => some (geoP3 (P3.subV ⟨ax, ay, az⟩ ⟨bx, by_, bz⟩))
  | "p3subvassign", [ax, ay, az, bx, by_, bz] => some (geoP3 (P3.subVAssign ⟨ax, ay, az⟩ ⟨bx, by_, bz⟩))
  | "p3subvref", [ax, ay, az, bx, by_, bz] => some (geoP3 (P3.subVRef ⟨ax, ay, az⟩ ⟨bx, by_, bz⟩))
  | "p3subvrefassign", [ax, ay, az, bx, by_, bz] =>
      some (geoP3 (P3.subVRefAssign ⟨ax, ay, az⟩ ⟨bx, by_, bz⟩))
  | "p3sub", [ax, ay, az, bx, by_, bz] => some (geoV3 (P3.sub ⟨ax, ay, az⟩ ⟨bx, by_, bz⟩))
  | "p3addsub", [ax, ay, az, bx, by_, bz] =>
      some (geoV3 (P3.sub (P3.addV ⟨ax, ay, az⟩ ⟨bx, by_, bz⟩) ⟨ax, ay, az⟩))
  | _, _ => none

def pairUp : List Rat → List (P2 Rat)
  | x :: y :: rest => ⟨x, y⟩ :: pairUp rest
  | _ => []

/-- model-only commands -/
def geoOpSkew (op : String) (a : List Rat) : Option String :=
  match op, a with
  | "skewang", pi :: θs => if θs.isEmpty then none else some (geoS (skewOfAngles pi θs))
  | "corners", pts =>
      if pts.length % 2 ≠ 0 then none else
      let cs := corners (pairUp pts)
      some ("ok " ++ " ; ".intercalate (cs.map fun (a, b, c) =>
        s!"{ratStr a.x} {ratStr a.y} {ratStr b.x} {ratStr b.y} {ratStr c.x} {ratStr c.y}"))
  | _, _ => none

def geoCmd (op : String) (a : List Rat) : Option String :=
  match geoOpV2 op a with
  | some r => some r
  | none =>
  match geoOpV3 op a with
  | some r => some r
  | none =>
  match geoOpP2 op a with
  | some r => some r
  | none =>
  match geoOpP3 op a with
  | some r => some r
  | none => geoOpSkew op a

/-- `geo flop <f64|f32> <add|sub|mul|div> <hex a> <hex b>`: one correctly rounded operation of idealised
    binary64 / binary32 (`rnd 53` / `rnd 24`, Model/Rounding.lean) on two floats given by their bit patterns;
    the reply is the exact rational value of the result.  The Rust side performs the same operation on the
    hardware.  `bad-op` on NaN/infinite operands and on division by zero. -/
def geoFlop (ty op a b : String) : String :=
  let fmt : Option (Nat × Nat × Nat) :=
    match ty with
    | "f64" => some (52, 11, 53)
    | "f32" => some (23, 8, 24)
    | _ => none
  match fmt, parseHex a, parseHex b with
  | some (mb, eb, p), some ba, some bb =>
    match decodeFloat mb eb ba, decodeFloat mb eb bb with
    | some x, some y =>
      match op with
      | "add" => geoS (rnd p (x + y))
      | "sub" => geoS (rnd p (x - y))
      | "mul" => geoS (rnd p (x * y))
      | "div" => if y = 0 then "bad-op" else geoS (rnd p (x / y))
      | _ => "bad-op"
    | _, _ => "bad-op"
  | _, _, _ => "bad-op"

/-- top-level hook: `geo <op> <args…>`; stateless -/
def topGeo (s : Sess) (toks : List String) : Option (Sess × String) :=
  match toks with
  | ["geo", "flop", ty, op, a, b] => some (s, geoFlop ty op a b)
  | "geo" :: op :: args =>
      match args.mapM parseRat with
      | none => some (s, "bad-op")
      | some a =>
        match geoCmd op a with
        | some r => some (s, r)
        | none => some (s, "bad-op")
  | _ => none

end HC
