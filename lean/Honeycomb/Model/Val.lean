/-
  Concrete attribute values used by the driver (and by the non-vacuity examples):
  exact rational coordinates for the built-in vertices and a free term algebra for the
  harness' test attribute types (so that *which* values were merged/split in *which* order
  is observable).
-/
import Honeycomb.Model.Ops
import Honeycomb.Gen.Anchors

namespace HC

inductive Term where
  | leaf (n : Nat)
  | mrg (a b : Term)
  | minc (a : Term)
  | mnone
  | spl (a : Term)
  | spr (a : Term)
  | snl
  | snr
  deriving Repr, DecidableEq, Inhabited

def Term.toStr : Term → String
  | .leaf n => toString n
  | .mrg a b => "M(" ++ a.toStr ++ "," ++ b.toStr ++ ")"
  | .minc a => "I(" ++ a.toStr ++ ")"
  | .mnone => "N"
  | .spl a => "L(" ++ a.toStr ++ ")"
  | .spr a => "R(" ++ a.toStr ++ ")"
  | .snl => "NL"
  | .snr => "NR"

/-- values: a point (2-D points have `z = 0`) or a term -/
inductive Val where
  | pt (x y z : Rat)
  | tm (t : Term)
  deriving Repr, DecidableEq, Inhabited

def ratStr (q : Rat) : String := if q.den = 1 then toString q.num else s!"{q.num}/{q.den}"

def Val.toStr : Val → String
  | .pt x y z => s!"({ratStr x},{ratStr y},{ratStr z})"
  | .tm t => t.toStr


/-- `Vertex2/Vertex3 as AttributeUpdate`: average, copy, identity on one-sided merge,
    default (error) on `merge_from_none` / `split_from_none` -/
def avgLaw : Law Val where
  merge a b := match a, b with
    | .pt x y z, .pt x' y' z' => .ok (.pt ((x + x') / 2) ((y + y') / 2) ((z + z') / 2))
    | _, _ => .error errFailedMerge
  mergeInc a := .ok a
  mergeNone := .error errInsufficient
  split a := .ok (a, a)
  splitNone := .error errInsufficient
  ticks := false

/-- test attribute with every law defined (terms) -/
def termLawFull : Law Val where
  merge a b := match a, b with
    | .tm s, .tm t => .ok (.tm (.mrg s t))
    | _, _ => .error errFailedMerge
  mergeInc a := match a with
    | .tm s => .ok (.tm (.minc s))
    | _ => .error errFailedMerge
  mergeNone := .ok (.tm .mnone)
  split a := match a with
    | .tm s => .ok (.tm (.spl s), .tm (.spr s))
    | _ => .error errFailedSplit
  splitNone := .ok (.tm .snl, .tm .snr)
  ticks := true

/-- test attribute keeping the trait's default (error) for the `*_from_none` laws and for
    `merge_incomplete` -/
def termLawDefault : Law Val where
  merge a b := match a, b with
    | .tm s, .tm t => .ok (.tm (.mrg s t))
    | _, _ => .error errFailedMerge
  mergeInc _ := .error errInsufficient
  mergeNone := .error errInsufficient
  split a := match a with
    | .tm s => .ok (.tm (.spl s), .tm (.spr s))
    | _ => .error errFailedSplit
  splitNone := .error errInsufficient
  ticks := true

def dot3 (ax ay az bx by_ bz : Rat) : Rat := ax * bx + ay * by_ + az * bz

/-- `(b1l - l)·(b1r - r) ≥ 0` -/
def badOrientVal (l b1r b1l r : Val) : Bool :=
  match l, b1r, b1l, r with
  | .pt lx ly lz, .pt brx bry brz, .pt blx bly blz, .pt rx ry rz =>
      decide (dot3 (blx - lx) (bly - ly) (blz - lz) (brx - rx) (bry - ry) (brz - rz) ≥ 0)
  | _, _, _, _ => false

/-! ## anchors (`honeycomb-kernels/src/utils/anchors.rs`, generated table `Gen/Anchors.lean`)

An anchor value is stored as `Val.tm (.leaf code)` with `code = 4 * id + anchor_dim`. -/

/-- lift a generated anchor law (`ofCode`/`code` + the four `AttributeUpdate` functions) to `Val` -/
def anchorLawOf {A : Type} (ofCode : Nat → Option A) (code : A → Nat)
    (merge : A → A → Option A) (mergeInc : A → Option A) (mergeNone : Option A)
    (split : A → Option (A × A)) (splitNone : Option (A × A)) : Law Val where
  merge a b := match a, b with
    | .tm (.leaf x), .tm (.leaf y) =>
        match ofCode x, ofCode y with
        | some p, some q =>
            match merge p q with
            | some r => .ok (.tm (.leaf (code r)))
            | none => .error errFailedMerge
        | _, _ => .error errFailedMerge
    | _, _ => .error errFailedMerge
  mergeInc a := match a with
    | .tm (.leaf x) =>
        match (ofCode x).bind mergeInc with
        | some r => .ok (.tm (.leaf (code r)))
        | none => .error errInsufficient
    | _ => .error errInsufficient
  mergeNone := match mergeNone with
    | some r => .ok (.tm (.leaf (code r)))
    | none => .error errInsufficient
  split a := match a with
    | .tm (.leaf x) =>
        match (ofCode x).bind split with
        | some (l, r) => .ok (.tm (.leaf (code l)), .tm (.leaf (code r)))
        | none => .error errFailedSplit
    | _ => .error errFailedSplit
  splitNone := match splitNone with
    | some (l, r) => .ok (.tm (.leaf (code l)), .tm (.leaf (code r)))
    | none => .error errInsufficient
  ticks := false

open Gen.Anchors in
def anchorLawV : Law Val :=
  anchorLawOf VertexAnchor.ofCode VertexAnchor.code VertexAnchor.merge VertexAnchor.mergeIncomplete
    VertexAnchor.mergeFromNone VertexAnchor.split VertexAnchor.splitFromNone

open Gen.Anchors in
def anchorLawE : Law Val :=
  anchorLawOf EdgeAnchor.ofCode EdgeAnchor.code EdgeAnchor.merge EdgeAnchor.mergeIncomplete
    EdgeAnchor.mergeFromNone EdgeAnchor.split EdgeAnchor.splitFromNone

open Gen.Anchors in
def anchorLawF : Law Val :=
  anchorLawOf FaceAnchor.ofCode FaceAnchor.code FaceAnchor.merge FaceAnchor.mergeIncomplete
    FaceAnchor.mergeFromNone FaceAnchor.split FaceAnchor.splitFromNone

/-- number of storages of the session maps (0 … 8) -/
def stdStorages : Nat := 9

/-- the harness' fixed attribute set.
    storage 0: vertices; 1: `VTerm` (vertex, full law); 2: `ETerm` (edge, default law);
    3: `FTerm` (face, full law); 4: `CTerm` (volume, full law); 5: `VDef` (vertex, default law);
    6: `VertexAnchor`; 7: `EdgeAnchor`; 8: `FaceAnchor` (honeycomb-kernels, generated law).
    `mask` bit `s-1` = storage `s` registered. -/
def stdCfg (nb : Nat) (mask : Nat) : Cfg Val where
  nb := nb
  kinds := [0] ++ ((List.range 8).map fun i =>
    if mask.testBit i then
      [0, 1, 2, 3, 0, Gen.Anchors.VertexAnchor.kind, Gen.Anchors.EdgeAnchor.kind,
        Gen.Anchors.FaceAnchor.kind].getD i 9
    else 9)
  law := fun s => match s with
    | 0 => avgLaw
    | 2 => termLawDefault
    | 5 => termLawDefault
    | 6 => anchorLawV
    | 7 => anchorLawE
    | 8 => anchorLawF
    | _ => termLawFull
  badOrient := badOrientVal

end HC
