/-
  Wiring of all protocol extensions into one interpreter (imported by the driver).
  Each extension module provides `txOpX : Sess → List String → Option (P Val String)` and/or
  `topX : Sess → List String → Option (Sess × String)`; add them to the lists below.
-/
import Honeycomb.Model.Session
import Honeycomb.Model.SessionIO
import Honeycomb.Model.SessionGrid
import Honeycomb.Model.Session3
import Honeycomb.Model.SessionScene
import Honeycomb.Model.SessionGeo
import Honeycomb.Model.SessionKernels
import Honeycomb.Model.SessionRemesh
import Honeycomb.Model.SessionVtk
import Honeycomb.Model.SessionCapture

namespace HC

def firstSome {α β γ : Type} (fs : List (α → β → Option γ)) (a : α) (b : β) : Option γ :=
  match fs with
  | [] => none
  | f :: rest => match f a b with
    | some r => some r
    | none => firstSome rest a b

def allHooks : Hooks where
  txOp := firstSome [txOp3, txOpK, txOpR]
  top := firstSome [topCapture, topScene, topGeo, top3, topGrid, topIO, topVtk, topR]

def stepAll (s : Sess) (line : String) : Sess × String := step allHooks s line

end HC
