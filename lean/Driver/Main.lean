import Honeycomb.Model.SessionAll
open HC

partial def loop (h : IO.FS.Stream) (out : IO.FS.Stream) (s : Sess) : IO Unit := do
  let line ← h.getLine
  if line.isEmpty then return ()
  let t := line.trimAscii.toString
  if t.isEmpty || t.startsWith "#" then
    -- comments / case separators are echoed so that both streams stay aligned
    out.putStrLn t
    loop h out s
  else
    let (s', o) := stepAll s t
    out.putStrLn o
    loop h out s'

def main : IO Unit := do
  let stdin ← IO.getStdin
  let stdout ← IO.getStdout
  loop stdin stdout {}
