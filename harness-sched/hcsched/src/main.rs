//! `hcsched` — deterministic schedule explorer for concurrent honeycomb transactions on the real
//! crates (C07).  fast-stm is the vendored copy with yield points (`vendor/fast-stm`, lines tagged
//! `// VERIF`); the protocol interpreter is hcimpl's (`#[path]`-included: one source of truth).
//!
//! stdin: a list of scenarios
//! ```text
//! (`watchdog=<s>`: a worker that holds the baton for s CPU seconds — default 5 — without reaching a yield point or finishing
//! is reported as outcome `hang` with the schedule, the thread and its unit of work; hcsched then exits with code 3)
//! scenario <name> [preempt=P] [cap=N] [full_cap=N] [random=N] [pct=N] [seed=S] [max_steps=N] [replay=t,t,…] [trace=1] [lockgran=1]
//! <protocol lines building the initial map: load … / wv … / wa … / any single-threaded hcimpl line>
//! thread
//! tx
//! <transactional protocol op>…
//! endtx
//! setbs 1 2 3 0          (a bare `setb` / `setbs` line: a public call running its own transaction(s))
//! …
//! thread
//! …
//! end
//! ```
//! Exploration (per scenario): depth-first search over all schedules with at most `preempt` preemptions, at most `cap`
//! schedules (stateless: the scenario is re-executed from scratch for every schedule, replaying the recorded choice
//! prefix); if that search completes and the bound cut something, the bound is raised while the schedule count stays
//! under `full_cap/4` (a search that cuts nothing is `exhaustive`); then `random` seeded random schedules and `pct`
//! PCT schedules (`pct_depth` = 3: random thread priorities, 2 priority change points).  `replay=` runs one schedule.
//!
//! A schedule is the list of thread ids chosen at the decision points: one at the start, one at every yield point of
//! the running thread (first read of a variable from shared memory, start of commit, non-transactional read, blocking
//! retry), one whenever a thread finishes.  Switching away from a thread that could continue is a preemption.
//! With `lockgran=1` `Transaction::commit` is not one step: there is a decision point before every lock acquisition of
//! its walk and before its write-back phase, so a committing thread can be preempted while it HOLDS parking_lot locks;
//! the locks are taken with try-lock loops (vendored crate), a failed try-lock makes the thread wait until some commit
//! released its locks; "every unfinished thread waits for a lock or in a blocking retry" is reported as `deadlock`.
//!
//! stdout: one JSON line per distinct outcome (`status` ok|hang|deadlock|panic|replay-mismatch, commit
//! order as [thread, transaction index] pairs, per-thread result lines as hcimpl prints them for `endtx`, `snap` and
//! `wf` of the final map, number of schedules with this outcome, one witness schedule) and one summary line per
//! scenario (schedules per mode, failed validations = `retries`, blocking retries, non-transactional reads, …).
#![allow(dead_code)]

// the modules of hcimpl that the interpreter needs (generated list, see build.rs); `Sess` mirrors hcimpl's crate root
include!(concat!(env!("OUT_DIR"), "/hcimpl_mods.rs"));
mod sched;

use std::collections::BTreeMap;
use std::io::{BufRead, Write};
use std::panic::{AssertUnwindSafe, catch_unwind};
use std::sync::Arc;

use honeycomb_core::stm::verif;
use sched::{Dfs, Rng, Run, Shared, Strategy, ThreadHook};

pub enum Sess {
    None,
    D2(s2::S2),
    D3(s3::S3),
}

impl Sess {
    fn step(&mut self, toks: &[&str]) -> String {
        match self {
            Sess::None => "bad-op".into(),
            Sess::D2(s) => s.step(toks),
            Sess::D3(s) => s.step(toks),
        }
    }
    /// one unit of work of a thread: a `tx … endtx` block, or (a bare `setb` / `setbs` line) a public call that runs its
    /// own transaction(s)
    fn run_tx(&self, ops: &[Vec<String>]) -> String {
        if ops.len() == 1 && CALL_OPS.contains(&ops[0][0].as_str()) {
            let toks: Vec<&str> = ops[0].iter().map(String::as_str).collect();
            let r = match self {
                Sess::None => None,
                Sess::D2(s) => s.run_call(&toks),
                Sess::D3(s) => s.run_call(&toks),
            };
            return r.unwrap_or_else(|| "bad-op".into());
        }
        match self {
            Sess::None => "bad-op".into(),
            Sess::D2(s) => s.run_tx(ops),
            Sess::D3(s) => s.run_tx(ops),
        }
    }
}

type Tx = Vec<Vec<String>>;

/// top-level protocol lines usable as a thread's unit of work (see `S2::run_call`)
const CALL_OPS: &[&str] = &["setb", "setbs", "flink", "funlink", "fsew", "funsew"];

#[derive(Default)]
struct Scenario {
    name: String,
    params: BTreeMap<String, String>,
    init: Vec<String>,
    threads: Vec<Arc<Vec<Tx>>>,
}

impl Scenario {
    fn num(&self, k: &str, dflt: u64) -> u64 {
        self.params.get(k).and_then(|v| v.parse().ok()).unwrap_or(dflt)
    }
}

fn parse(input: impl BufRead) -> Vec<Scenario> {
    let mut out = vec![];
    let mut cur: Option<Scenario> = None;
    let mut in_tx = false;
    for line in input.lines() {
        let line = line.unwrap();
        let t = line.trim();
        if t.is_empty() || t.starts_with('#') {
            continue;
        }
        let toks: Vec<&str> = t.split_ascii_whitespace().collect();
        match (toks[0], cur.as_mut()) {
            ("scenario", _) => {
                let mut s = Scenario { name: toks.get(1).unwrap_or(&"?").to_string(), ..Default::default() };
                for kv in &toks[2..] {
                    if let Some((k, v)) = kv.split_once('=') {
                        s.params.insert(k.to_string(), v.to_string());
                    }
                }
                cur = Some(s);
                in_tx = false;
            }
            ("end", Some(_)) if !in_tx => out.push(cur.take().unwrap()),
            ("thread", Some(s)) if !in_tx => s.threads.push(Arc::new(vec![])),
            ("tx", Some(s)) if !in_tx && !s.threads.is_empty() => {
                Arc::get_mut(s.threads.last_mut().unwrap()).unwrap().push(vec![]);
                in_tx = true;
            }
            ("endtx", Some(_)) if in_tx => in_tx = false,
            (_, Some(s)) => {
                if in_tx {
                    Arc::get_mut(s.threads.last_mut().unwrap()).unwrap().last_mut().unwrap().push(toks.iter().map(|x| x.to_string()).collect());
                } else if s.threads.is_empty() {
                    s.init.push(t.to_string());
                } else {
                    // a bare op in a thread = a transaction of its own
                    Arc::get_mut(s.threads.last_mut().unwrap()).unwrap().push(vec![toks.iter().map(|x| x.to_string()).collect()]);
                }
            }
            _ => {}
        }
    }
    out
}

/// build the initial map from the protocol lines (as hcimpl's `main.rs` does)
fn build(init: &[String]) -> Result<Sess, String> {
    attrs::clear_terms();
    attrs::FAULT.with(|f| f.set(0));
    let mut sess: Option<Sess> = None;
    for line in init {
        let toks: Vec<&str> = line.split_ascii_whitespace().collect();
        if toks[0] == "load" || toks[0] == "new" {
            if toks.len() < 4 {
                return Err(format!("bad line {line}"));
            }
            let (Ok(dim), Ok(n), Ok(mask)) = (toks[1].parse::<usize>(), toks[2].parse::<usize>(), toks[3].parse::<u32>()) else {
                return Err(format!("bad line {line}"));
            };
            let groups: Vec<Vec<u32>> = if toks[0] == "new" {
                vec![vec![0; n + 1]; dim + 2]
            } else {
                toks[4..].split(|t| *t == ";").map(|g| g.iter().filter_map(|t| t.parse().ok()).collect()).collect()
            };
            if !(dim == 2 || dim == 3) || groups.len() != dim + 2 || groups.iter().any(|g| g.len() != n + 1) {
                return Err(format!("bad line {line}"));
            }
            sess = Some(if dim == 2 { Sess::D2(s2::S2::load(n, mask, &groups)) } else { Sess::D3(s3::S3::load(n, mask, &groups)) });
        } else {
            let Some(s) = sess.as_mut() else { return Err("no map".into()) };
            // as hcimpl's main: the anchor / capture extension (`wanchor …`) first, then the session's own commands
            let r = match catch_unwind(AssertUnwindSafe(|| match gris::step(s, &toks) {
                Some(r) => r,
                None => s.step(&toks),
            })) {
                Ok(r) => r,
                Err(_) => "panic".to_string(),
            };
            if r == "panic" || r == "bad-op" {
                return Err(format!("init line `{line}` answered {r}"));
            }
        }
    }
    sess.ok_or_else(|| "no map".to_string())
}

struct RunOut {
    status: String,
    commit_order: Vec<(u8, u16)>,
    results: Vec<Vec<String>>,
    snap: String,
    wf: String,
    run: Run,
}

/// what a worker executes: `body(thread, k)` = result line of the k-th transaction of the thread
type Body = Arc<dyn Fn(usize, usize) -> String + Send + Sync>;

/// persistent worker threads (spawning per run costs more than the run itself)
struct Job {
    lockgran: bool,
    sh: Arc<Shared>,
    tid: usize,
    ntx: usize,
    body: Body,
}

type JobResult = Result<Vec<String>, bool>;

/// one mailbox per worker; idle workers spin, then yield, then poll (no futex on the hot path)
#[derive(Default)]
struct Slot {
    /// kernel thread id of the worker (for the watchdog's CPU-time reading)
    os_tid: std::sync::atomic::AtomicU64,
    job: std::sync::Mutex<Option<Job>>,
    res: std::sync::Mutex<Option<JobResult>>,
    has: std::sync::atomic::AtomicBool,
}

/// a worker that never came back to the scheduler (watchdog)
struct Stuck {
    schedule: Vec<u8>,
    commit_order: Vec<(u8, u16)>,
    thread: usize,
    unit: usize,
}

struct Pool {
    /// scenario parameter `watchdog=<seconds>` (CPU seconds of the baton holder without a yield point; default 5)
    watchdog: u64,
    slots: Vec<Arc<Slot>>,
    /// scenario parameter `lockgran=1`: the lock acquisitions inside `commit` are decision points
    lockgran: bool,
}

impl Pool {
    fn new() -> Self {
        Pool { watchdog: 5, slots: vec![], lockgran: false }
    }

    fn ensure(&mut self, n: usize) {
        use std::sync::atomic::Ordering;
        while self.slots.len() < n {
            let slot = Arc::new(Slot::default());
            self.slots.push(slot.clone());
            std::thread::spawn(move || {
                slot.os_tid.store(sched::os_thread_id(), Ordering::SeqCst);
                loop {
                    let mut k = 0u32;
                    while !slot.has.swap(false, Ordering::SeqCst) {
                        k = k.saturating_add(1);
                        if k < 2000 {
                            std::hint::spin_loop();
                        } else if k < 20000 {
                            std::thread::yield_now();
                        } else {
                            std::thread::sleep(std::time::Duration::from_micros(200));
                        }
                    }
                    let Job { sh, tid, ntx, body, lockgran } = slot.job.lock().unwrap().take().unwrap();
                    verif::install(Arc::new(ThreadHook { sh: sh.clone(), tid, lockgran }));
                    // a kernel's `retry()` really blocks / restarts under the scheduler
                    attrs::REAL_RETRY.with(|f| f.set(true));
                    let r = catch_unwind(AssertUnwindSafe(|| {
                        let mut res = vec![];
                        if sh.start(tid) {
                            for k in 0..ntx {
                                sh.set_tx(tid, k);
                                let r = body(tid, k);
                                if sh.aborted() {
                                    break;
                                }
                                res.push(r);
                            }
                        }
                        res
                    }));
                    verif::uninstall();
                    sh.finish(tid);
                    drop(body);
                    *slot.res.lock().unwrap() = Some(r.map_err(|p| p.is::<sched::AbortRun>()));
                    sh.exit();
                    drop(sh);
                }
            });
        }
    }

    /// one scheduled execution of `ntx.len()` threads; `Err(())` = a worker never reached a yield point again
    fn run(&mut self, ntx: &[usize], body: Body, strategy: Strategy, max_steps: u64, trace: bool) -> Result<(Run, Vec<Vec<String>>, String), Stuck> {
        let nt = ntx.len();
        self.ensure(nt);
        let sh = Shared::new(Run::new(nt, max_steps, strategy, trace, self.lockgran));
        for tid in 0..nt {
            let job = Job { sh: sh.clone(), tid, ntx: ntx[tid], body: body.clone(), lockgran: self.lockgran };
            *self.slots[tid].job.lock().unwrap() = Some(job);
            self.slots[tid].has.store(true, std::sync::atomic::Ordering::SeqCst);
        }
        drop(body);
        sh.release();
        let os_tids: Vec<u64> = self.slots.iter().map(|s| s.os_tid.load(std::sync::atomic::Ordering::SeqCst)).collect();
        if let Err(thread) = sh.wait_all(nt, self.watchdog, &os_tids) {
            return Err(Stuck { schedule: sh.schedule_so_far(), commit_order: sh.commit_order_so_far(), thread, unit: sh.current_unit(thread) });
        }
        let mut results: Vec<Vec<String>> = vec![vec![]; nt];
        let mut worker_panic = false;
        for (tid, res) in results.iter_mut().enumerate() {
            match self.slots[tid].res.lock().unwrap().take() {
                Some(Ok(r)) => *res = r,
                Some(Err(is_abort)) => {
                    if !is_abort {
                        worker_panic = true;
                    }
                }
                None => worker_panic = true,
            }
        }
        let run = sh.into_run();
        let status = if let Some(a) = run.abort {
            a.to_string()
        } else if worker_panic {
            "panic".to_string()
        } else {
            "ok".to_string()
        };
        Ok((run, results, status))
    }
}

/// `snap`/`wf` of a 3-map cost ~0.6 ms (they read the removal flags through `CMap3::serialize`, which spawns four
/// threads); the final state is therefore first fingerprinted through the public accessors and the two lines are
/// computed once per distinct fingerprint.  Only used when no op of the scenario can change a removal flag.
fn fingerprint(sess: &Sess) -> Option<String> {
    use attrs::{CTerm, ETerm, FTerm, VDef, VTerm};
    use std::fmt::Write;
    let Sess::D3(s) = sess else { return None };
    let m = &s.map;
    let n = m.n_darts() as u32;
    let mut o = String::new();
    for x in 0..n {
        for i in 0..4u8 {
            write!(o, "{} ", m.beta_rt(i, x)).unwrap();
        }
        match m.force_read_vertex(x) {
            Some(v) => write!(o, "{:x},{:x},{:x};", v.x().to_bits(), v.y().to_bits(), v.z().to_bits()).unwrap(),
            None => o.push('-'),
        }
        for st in 1..=5u32 {
            if (s.mask >> (st - 1)) & 1 == 1 {
                let v = match st {
                    1 => m.force_read_attribute::<VTerm>(x).map(|v| v.0),
                    2 => m.force_read_attribute::<ETerm>(x).map(|v| v.0),
                    3 => m.force_read_attribute::<FTerm>(x).map(|v| v.0),
                    4 => m.force_read_attribute::<CTerm>(x).map(|v| v.0),
                    _ => m.force_read_attribute::<VDef>(x).map(|v| v.0),
                };
                match v {
                    Some(id) => o.push_str(&attrs::term_str(id)),
                    None => o.push('-'),
                }
                o.push(';');
            }
        }
    }
    Some(o)
}

const FLAG_PRESERVING: &[&str] =
    &["link", "unlink", "sew", "unsew", "vid", "eid", "fid", "volid", "orbit", "beta", "isun", "rv", "wv", "xv", "ra", "wa", "xa",
      "insv", "insvs", "fan", "fanconvex", "earclip", "setb", "setbs", "swap", "cutin", "cutout", "ranchor", "wanchort", "xanchort",
      "flink", "funlink", "fsew", "funsew"];

type SnapCache = std::collections::HashMap<String, (String, String)>;

/// The initial state of a scenario, read through the public accessors.  The map is built ONCE per scenario and put back
/// into this state before every schedule: the attribute manager of a map iterates a `HashMap` whose hash seed differs for
/// every map instance, so rebuilding the map for every schedule would change the order in which the attribute storages
/// are visited (hence the sequence of yield points) from one re-execution to the next and break the replay of prefixes.
struct Init {
    betas: Vec<[u32; 4]>,
    v2: Vec<Option<honeycomb_core::geometry::Vertex2<f64>>>,
    v3: Vec<Option<honeycomb_core::geometry::Vertex3<f64>>>,
    attrs: Vec<[Option<u32>; 5]>,
    terms: usize,
}

macro_rules! attr_rw {
    ($m:expr, $mask:expr, $x:expr, $st:expr, read) => {{
        use attrs::{CTerm, ETerm, FTerm, VDef, VTerm};
        if ($mask >> ($st - 1)) & 1 == 0 {
            None
        } else {
            match $st {
                1 => $m.force_read_attribute::<VTerm>($x).map(|v| v.0),
                2 => $m.force_read_attribute::<ETerm>($x).map(|v| v.0),
                3 => $m.force_read_attribute::<FTerm>($x).map(|v| v.0),
                4 => $m.force_read_attribute::<CTerm>($x).map(|v| v.0),
                _ => $m.force_read_attribute::<VDef>($x).map(|v| v.0),
            }
        }
    }};
    ($m:expr, $x:expr, $st:expr, write $v:expr) => {{
        use attrs::{CTerm, ETerm, FTerm, VDef, VTerm};
        match ($st, $v) {
            (1, Some(v)) => $m.force_write_attribute::<VTerm>($x, VTerm(v)).map(|_| ()),
            (2, Some(v)) => $m.force_write_attribute::<ETerm>($x, ETerm(v)).map(|_| ()),
            (3, Some(v)) => $m.force_write_attribute::<FTerm>($x, FTerm(v)).map(|_| ()),
            (4, Some(v)) => $m.force_write_attribute::<CTerm>($x, CTerm(v)).map(|_| ()),
            (_, Some(v)) => $m.force_write_attribute::<VDef>($x, VDef(v)).map(|_| ()),
            (1, None) => $m.force_remove_attribute::<VTerm>($x).map(|_| ()),
            (2, None) => $m.force_remove_attribute::<ETerm>($x).map(|_| ()),
            (3, None) => $m.force_remove_attribute::<FTerm>($x).map(|_| ()),
            (4, None) => $m.force_remove_attribute::<CTerm>($x).map(|_| ()),
            (_, None) => $m.force_remove_attribute::<VDef>($x).map(|_| ()),
        }
    }};
}

/// storages registered on the session's map (2-D maps have no volume storage)
fn storages(sess: &Sess) -> Vec<u32> {
    match sess {
        Sess::None => vec![],
        Sess::D2(s) => [1u32, 2, 3, 5].into_iter().filter(|st| (s.mask >> (st - 1)) & 1 == 1).collect(),
        Sess::D3(s) => (1u32..=5).filter(|st| (s.mask >> (st - 1)) & 1 == 1).collect(),
    }
}

fn capture(sess: &Sess) -> Init {
    let sts = storages(sess);
    let mut init = Init { betas: vec![], v2: vec![], v3: vec![], attrs: vec![], terms: attrs::terms_len() };
    match sess {
        Sess::None => {}
        Sess::D2(s) => {
            let m = &s.map;
            for x in 0..m.n_darts() as u32 {
                init.betas.push([m.beta_rt(0, x), m.beta_rt(1, x), m.beta_rt(2, x), 0]);
                init.v2.push(m.force_read_vertex(x));
                let mut a = [None; 5];
                for &st in &sts {
                    a[st as usize - 1] = attr_rw!(m, s.mask, x, st, read);
                }
                init.attrs.push(a);
            }
        }
        Sess::D3(s) => {
            let m = &s.map;
            for x in 0..m.n_darts() as u32 {
                init.betas.push([m.beta_rt(0, x), m.beta_rt(1, x), m.beta_rt(2, x), m.beta_rt(3, x)]);
                init.v3.push(m.force_read_vertex(x));
                let mut a = [None; 5];
                for &st in &sts {
                    a[st as usize - 1] = attr_rw!(m, s.mask, x, st, read);
                }
                init.attrs.push(a);
            }
        }
    }
    init
}

/// put the map back into the captured state (only the slots that differ are written)
fn reset(sess: &Sess, init: &Init) -> Result<(), String> {
    let sts = storages(sess);
    attrs::truncate_terms(init.terms);
    attrs::FAULT.with(|f| f.set(0));
    match sess {
        Sess::None => {}
        Sess::D2(s) => {
            let m = &s.map;
            if m.n_darts() != init.betas.len() {
                return Err("the number of darts changed".into());
            }
            for x in 0..m.n_darts() as u32 {
                let b = init.betas[x as usize];
                if [m.beta_rt(0, x), m.beta_rt(1, x), m.beta_rt(2, x)] != [b[0], b[1], b[2]] {
                    m.set_betas(x, [b[0], b[1], b[2]]);
                }
                let v = init.v2[x as usize];
                if m.force_read_vertex(x) != v {
                    match v {
                        Some(v) => {
                            m.force_write_vertex(x, v);
                        }
                        None => {
                            m.force_remove_vertex(x);
                        }
                    }
                }
                for &st in &sts {
                    let want = init.attrs[x as usize][st as usize - 1];
                    // ids above `init.terms` are gone: compare by id, rewrite whenever the id differs
                    if attr_rw!(m, s.mask, x, st, read) != want {
                        let _ = attr_rw!(m, x, st, write want);
                    }
                }
            }
        }
        Sess::D3(s) => {
            let m = &s.map;
            if m.n_darts() != init.betas.len() {
                return Err("the number of darts changed".into());
            }
            for x in 0..m.n_darts() as u32 {
                let b = init.betas[x as usize];
                if [m.beta_rt(0, x), m.beta_rt(1, x), m.beta_rt(2, x), m.beta_rt(3, x)] != b {
                    m.set_betas(x, b);
                }
                let v = init.v3[x as usize];
                if m.force_read_vertex(x) != v {
                    match v {
                        Some(v) => {
                            m.force_write_vertex(x, v);
                        }
                        None => {
                            m.force_remove_vertex(x);
                        }
                    }
                }
                for &st in &sts {
                    let want = init.attrs[x as usize][st as usize - 1];
                    if attr_rw!(m, s.mask, x, st, read) != want {
                        let _ = attr_rw!(m, x, st, write want);
                    }
                }
            }
        }
    }
    Ok(())
}

/// per-scenario state of the exploration
struct Ctx {
    /// no op of the scenario can change a removal flag or the number of darts: build once, reset between schedules
    persistent: bool,
    world: Option<(Arc<Sess>, Init)>,
    cache: Option<SnapCache>,
}

fn run_once(pool: &mut Pool, sc: &Scenario, strategy: Strategy, max_steps: u64, trace: bool, ctx: &mut Ctx) -> Result<RunOut, String> {
    let (mut sess, init) = match ctx.world.take() {
        Some((sess, init)) => {
            reset(&sess, &init)?;
            (sess, Some(init))
        }
        None => {
            let sess = build(&sc.init)?;
            let init = if ctx.persistent { Some(capture(&sess)) } else { None };
            (Arc::new(sess), init)
        }
    };
    let ntx: Vec<usize> = sc.threads.iter().map(|t| t.len()).collect();
    let body: Body = {
        let sess = sess.clone();
        let threads = sc.threads.clone();
        Arc::new(move |tid, k| sess.run_tx(&threads[tid][k]))
    };
    let (run, results, status) = match pool.run(&ntx, body, strategy, max_steps, trace) {
        Ok(x) => x,
        Err(st) => {
            // WATCHDOG: a worker holds the baton and neither reaches a yield point nor finishes (it spins inside its closure).
            // An OS thread cannot be cancelled: report the schedule as `hang` and leave with exit code 3; the caller restarts
            // the explorer on the remaining scenarios.
            let wit: Vec<String> = st.schedule.iter().map(|t| t.to_string()).collect();
            let ord: Vec<String> = st.commit_order.iter().map(|(t, k)| format!("[{t},{k}]")).collect();
            let unit: Vec<String> = sc.threads.get(st.thread).and_then(|t| t.get(st.unit)).map(|u| u.iter().map(|op| js(&op.join(" "))).collect()).unwrap_or_default();
            println!(
                "{{\"scenario\":{},\"type\":\"outcome\",\"status\":\"hang\",\"watchdog\":true,\"watchdog_s\":{},\"hang_thread\":{},\"hang_unit\":{},\"hang_ops\":[{}],\"commit_order\":[{}],\"results\":[],\"snap\":\"\",\"wf\":\"\",\"count\":1,\"mode\":\"?\",\"preemptions\":0,\"witness\":[{}]}}",
                js(&sc.name),
                pool.watchdog,
                st.thread,
                st.unit,
                unit.join(","),
                ord.join(","),
                wit.join(",")
            );
            println!("{{\"scenario\":{},\"type\":\"watchdog-exit\"}}", js(&sc.name));
            std::io::stdout().flush().unwrap();
            std::process::exit(3);
        }
    };
    while Arc::strong_count(&sess) > 1 {
        std::hint::spin_loop();
    }
    let (snap, wf) = if status == "ok" {
        let s = Arc::get_mut(&mut sess).ok_or_else(|| "session still shared".to_string())?;
        match ctx.cache.as_mut().and_then(|c| fingerprint(s).map(|f| (c, f))) {
            Some((c, f)) => {
                if let Some(v) = c.get(&f) {
                    v.clone()
                } else {
                    let v = (s.step(&["snap"]), s.step(&["wf"]));
                    c.insert(f, v.clone());
                    v
                }
            }
            None => (s.step(&["snap"]), s.step(&["wf"])),
        }
    } else {
        (String::new(), String::new())
    };
    if let Some(init) = init {
        ctx.world = Some((sess, init));
    }
    Ok(RunOut { status, commit_order: run.commit_order.clone(), results, snap, wf, run })
}

fn js(s: &str) -> String {
    let mut o = String::with_capacity(s.len() + 2);
    o.push('"');
    for c in s.chars() {
        match c {
            '"' => o.push_str("\\\""),
            '\\' => o.push_str("\\\\"),
            c if (c as u32) < 0x20 => o.push_str(&format!("\\u{:04x}", c as u32)),
            c => o.push(c),
        }
    }
    o.push('"');
    o
}

struct Outcome {
    count: u64,
    mode: String,
    witness: Vec<u8>,
    preemptions: u32,
}

#[derive(Default)]
struct Totals {
    schedules: u64,
    by_mode: BTreeMap<String, u64>,
    max_preemptions: u32,
    retries: u64,
    runs_with_retry: u64,
    stm_blocks: u64,
    atomic_reads: u64,
    first_reads: u64,
    max_steps: u64,
    /// lock granularity: schedules with a preemption inside a commit, largest number of locks held by a preempted
    /// committer, failed try-locks, lock acquisitions
    runs_with_commit_preemption: u64,
    max_locks_held_at_preemption: u32,
    lock_waits: u64,
    lock_acquires: u64,
}

type Key = (String, Vec<(u8, u16)>, Vec<Vec<String>>, String, String);

fn record(out: RunOut, mode: &str, outcomes: &mut BTreeMap<Key, Outcome>, tot: &mut Totals) {
    tot.schedules += 1;
    *tot.by_mode.entry(mode.to_string()).or_insert(0) += 1;
    tot.max_preemptions = tot.max_preemptions.max(out.run.preemptions);
    tot.retries += out.run.retries;
    if out.run.retries > 0 {
        tot.runs_with_retry += 1;
    }
    tot.stm_blocks += out.run.stm_blocks;
    tot.atomic_reads += out.run.atomic_reads;
    tot.first_reads += out.run.first_reads;
    tot.max_steps = tot.max_steps.max(out.run.steps);
    if out.run.commit_preemptions > 0 {
        tot.runs_with_commit_preemption += 1;
    }
    tot.max_locks_held_at_preemption = tot.max_locks_held_at_preemption.max(out.run.max_held_at_preemption);
    tot.lock_waits += out.run.lock_waits;
    tot.lock_acquires += out.run.lock_acquires;
    let key: Key = (out.status, out.commit_order, out.results, out.snap, out.wf);
    let e = outcomes.entry(key).or_insert_with(|| Outcome {
        count: 0,
        mode: mode.to_string(),
        witness: out.run.schedule.clone(),
        preemptions: out.run.preemptions,
    });
    e.count += 1;
}

fn explore(pool: &mut Pool, sc: &Scenario) {
    let max_steps = sc.num("max_steps", 20000);
    pool.lockgran = sc.num("lockgran", 0) != 0;
    pool.watchdog = sc.num("watchdog", 5).max(1);
    let flags_fixed = sc.threads.iter().all(|t| t.iter().all(|tx| tx.iter().all(|op| FLAG_PRESERVING.contains(&op[0].as_str()))));
    // storages beyond the five of `capture` / `reset` (the anchors of honeycomb-kernels, mask bits 5..7): rebuild per schedule
    let mask: u32 = sc.init.first().and_then(|l| l.split_ascii_whitespace().nth(3)).and_then(|m| m.parse().ok()).unwrap_or(0);
    let flags_fixed = flags_fixed && mask & !31 == 0;
    if pool.lockgran && !flags_fixed {
        // commit() walks its variables in ADDRESS order: a map rebuilt for every schedule has other addresses, hence another
        // lock order, and recorded prefixes could not be replayed
        println!(
            "{{\"scenario\":{},\"type\":\"error\",\"what\":\"lockgran=1 needs a scenario whose map can be reset between schedules (no op that removes darts)\"}}",
            js(&sc.name)
        );
        return;
    }
    let mut ctx = Ctx { persistent: flags_fixed, world: None, cache: if flags_fixed { Some(SnapCache::new()) } else { None } };
    let cache = &mut ctx;
    let mut outcomes: BTreeMap<Key, Outcome> = BTreeMap::new();
    let mut tot = Totals::default();
    let mut exhaustive = false;
    let mut truncated = false;
    let mut bound_done: i64 = -1;
    let mut diverged = 0u64;
    let fail = |e: String| {
        println!("{{\"scenario\":{},\"type\":\"error\",\"what\":{}}}", js(&sc.name), js(&e));
    };

    if let Some(r) = sc.params.get("replay") {
        let sched: Vec<u8> = r.split(',').filter_map(|x| x.trim().parse().ok()).collect();
        match run_once(pool, sc, Strategy::Replay { sched, pos: 0 }, max_steps, sc.num("trace", 0) != 0, cache) {
            Ok(out) => {
                if let Some(tr) = &out.run.trace {
                    for (k, e) in tr.iter().enumerate() {
                        println!(
                            "{{\"scenario\":{},\"type\":\"event\",\"k\":{},\"thread\":{},\"kind\":{},\"var\":{}}}",
                            js(&sc.name),
                            k,
                            e.tid,
                            js(e.kind),
                            e.var
                        );
                    }
                }
                record(out, "replay", &mut outcomes, &mut tot);
            }
            Err(e) => return fail(e),
        }
    } else {
        // (a)/(b) preemption-bounded DFS, deepened while the schedule count stays under full_cap
        let p0 = sc.num("preempt", 2) as u32;
        let cap = sc.num("cap", 200_000);
        let full_cap = sc.num("full_cap", 0);
        let mut bound = p0;
        if sc.num("dfs", 1) != 0 {
            loop {
                let mode = format!("pb{bound}");
                let mut dfs = Dfs::new(bound);
                let mut n = 0u64;
                diverged += dfs.diverged;
                let lim = if bound == p0 { cap } else { full_cap };
                let mut complete = false;
                loop {
                    let out = match run_once(pool, sc, Strategy::Dfs(dfs), max_steps, false, cache) {
                        Ok(o) => o,
                        Err(e) => return fail(e),
                    };
                    let RunOut { status, commit_order, results, snap, wf, mut run } = out;
                    dfs = match std::mem::replace(&mut run.strategy, Strategy::Replay { sched: vec![], pos: 0 }) {
                        Strategy::Dfs(d) => d,
                        _ => unreachable!(),
                    };
                    record(RunOut { status, commit_order, results, snap, wf, run }, &mode, &mut outcomes, &mut tot);
                    n += 1;
                    if !dfs.backtrack() {
                        complete = true;
                        break;
                    }
                    if n >= lim {
                        break;
                    }
                }
                diverged += dfs.diverged;
                if complete {
                    bound_done = bound as i64;
                    if !dfs.pruned {
                        exhaustive = true;
                        break;
                    }
                    if n.saturating_mul(4) < full_cap {
                        bound += 1;
                        continue;
                    }
                } else {
                    truncated = true;
                }
                break;
            }
        }
        // (c) seeded random and PCT schedules
        let seed = sc.num("seed", 1);
        let k = tot.max_steps.max(8);
        let nt = sc.threads.len();
        if !exhaustive {
            for i in 0..sc.num("random", 0) {
                let mut rng = Rng(seed.wrapping_mul(0x1000_0001).wrapping_add(i));
                let num = 1 + rng.below(6); // switch probability 1/16 .. 6/16 per step
                match run_once(pool, sc, Strategy::Random { rng, num, den: 16 }, max_steps, false, cache) {
                    Ok(o) => record(o, "random", &mut outcomes, &mut tot),
                    Err(e) => return fail(e),
                }
            }
            let d = sc.num("pct_depth", 3);
            for i in 0..sc.num("pct", 0) {
                let mut rng = Rng(seed.wrapping_mul(0x2000_0003).wrapping_add(i));
                // random distinct priorities >= d
                let mut order: Vec<usize> = (0..nt).collect();
                for j in (1..nt).rev() {
                    order.swap(j, rng.below(j as u64 + 1) as usize);
                }
                let mut prio = vec![0i64; nt];
                for (rank, t) in order.iter().enumerate() {
                    prio[*t] = d as i64 + rank as i64;
                }
                let change: Vec<u64> = (0..d.saturating_sub(1)).map(|_| 1 + rng.below(k)).collect();
                match run_once(pool, sc, Strategy::Pct { prio, change, low: d as i64 - 1 }, max_steps, false, cache) {
                    Ok(o) => record(o, "pct", &mut outcomes, &mut tot),
                    Err(e) => return fail(e),
                }
            }
        }
    }

    let mut orders = std::collections::BTreeSet::new();
    for (key, o) in &outcomes {
        let (status, order, results, snap, wf) = key;
        orders.insert(order.clone());
        let ord: Vec<String> = order.iter().map(|(t, k)| format!("[{t},{k}]")).collect();
        let res: Vec<String> = results.iter().map(|r| format!("[{}]", r.iter().map(|x| js(x)).collect::<Vec<_>>().join(","))).collect();
        let wit: Vec<String> = o.witness.iter().map(|t| t.to_string()).collect();
        println!(
            "{{\"scenario\":{},\"type\":\"outcome\",\"status\":{},\"commit_order\":[{}],\"results\":[{}],\"snap\":{},\"wf\":{},\"count\":{},\"mode\":{},\"preemptions\":{},\"witness\":[{}]}}",
            js(&sc.name),
            js(status),
            ord.join(","),
            res.join(","),
            js(snap),
            js(wf),
            o.count,
            js(&o.mode),
            o.preemptions,
            wit.join(",")
        );
    }
    let modes: Vec<String> = tot.by_mode.iter().map(|(k, v)| format!("{}:{}", js(k), v)).collect();
    println!(
        "{{\"scenario\":{},\"type\":\"summary\",\"threads\":{},\"transactions\":{},\"schedules\":{},\"by_mode\":{{{}}},\"bound_completed\":{},\"diverged_replays\":{},\"exhaustive\":{},\"truncated\":{},\"max_preemptions\":{},\"retries\":{},\"runs_with_retry\":{},\"stm_blocks\":{},\"atomic_reads\":{},\"first_reads\":{},\"max_steps\":{},\"lockgran\":{},\"runs_with_commit_preemption\":{},\"max_locks_held_at_preemption\":{},\"lock_waits\":{},\"lock_acquires\":{},\"distinct_outcomes\":{},\"distinct_commit_orders\":{}}}",
        js(&sc.name),
        sc.threads.len(),
        sc.threads.iter().map(|t| t.len()).sum::<usize>(),
        tot.schedules,
        modes.join(","),
        bound_done,
        diverged,
        exhaustive && diverged == 0,
        truncated,
        tot.max_preemptions,
        tot.retries,
        tot.runs_with_retry,
        tot.stm_blocks,
        tot.atomic_reads,
        tot.first_reads,
        tot.max_steps,
        pool.lockgran,
        tot.runs_with_commit_preemption,
        tot.max_locks_held_at_preemption,
        tot.lock_waits,
        tot.lock_acquires,
        outcomes.len(),
        orders.len()
    );
    std::io::stdout().flush().unwrap();
}

fn main() {
    std::panic::set_hook(Box::new(|_| {}));
    let stdin = std::io::stdin();
    let scenarios = parse(stdin.lock());
    let mut pool = Pool::new();
    for sc in &scenarios {
        if sc.threads.is_empty() || sc.threads.len() > 8 {
            println!("{{\"scenario\":{},\"type\":\"error\",\"what\":\"need 1..8 threads\"}}", js(&sc.name));
            continue;
        }
        explore(&mut pool, sc);
    }
}

#[cfg(test)]
mod tests {
    //! the scheduler on raw fast-stm programs: blocking `retry`, deadlock and hang reporting
    use super::*;
    use honeycomb_core::stm::{TVar, atomically, retry};

    fn explore_raw(ntx: &[usize], mk: impl Fn() -> Body, bound: u32, max_steps: u64) -> BTreeMap<(String, Vec<Vec<String>>), u64> {
        let mut pool = Pool::new();
        let mut dfs = Dfs::new(bound);
        let mut out = BTreeMap::new();
        loop {
            let (mut run, results, status) = pool.run(ntx, mk(), Strategy::Dfs(dfs), max_steps, false).ok().unwrap();
            dfs = match std::mem::replace(&mut run.strategy, Strategy::Replay { sched: vec![], pos: 0 }) {
                Strategy::Dfs(d) => d,
                _ => unreachable!(),
            };
            *out.entry((status, results)).or_insert(0) += 1;
            if !dfs.backtrack() {
                return out;
            }
        }
    }

    #[test]
    fn blocking_retry_is_woken_by_a_writer() {
        std::panic::set_hook(Box::new(|_| {}));
        let mk = || -> Body {
            let x = TVar::new(0u32);
            Arc::new(move |tid, _| {
                if tid == 0 {
                    atomically(|t| {
                        let v = x.read(t)?;
                        if v == 0 { retry() } else { Ok(v) }
                    })
                    .to_string()
                } else {
                    atomically(|t| x.write(t, 7));
                    "w".to_string()
                }
            })
        };
        let out = explore_raw(&[1, 1], mk, u32::MAX, 1000);
        assert!(out.len() == 1, "{out:?}");
        let ((status, results), n) = out.into_iter().next().unwrap();
        assert_eq!(status, "ok");
        assert_eq!(results, vec![vec!["7".to_string()], vec!["w".to_string()]]);
        assert!(n >= 4, "{n} schedules");
    }

    #[test]
    fn blocking_retry_without_writer_is_a_deadlock() {
        std::panic::set_hook(Box::new(|_| {}));
        let mk = || -> Body {
            let x = TVar::new(0u32);
            let y = TVar::new(0u32);
            Arc::new(move |tid, _| {
                if tid == 0 {
                    atomically(|t| {
                        let v = x.read(t)?;
                        if v == 0 { retry() } else { Ok(v) }
                    })
                    .to_string()
                } else {
                    atomically(|t| y.write(t, 7));
                    "w".to_string()
                }
            })
        };
        let out = explore_raw(&[1, 1], mk, u32::MAX, 1000);
        assert!(out.keys().all(|(s, _)| s == "deadlock"), "{out:?}");
    }

    #[test]
    fn watchdog_reports_a_worker_spinning_between_yield_points() {
        std::panic::set_hook(Box::new(|_| {}));
        let x = TVar::new(0u32);
        let body: Body = Arc::new(move |tid, _| {
            if tid == 1 {
                atomically(|t| x.read(t));
                // all further reads come from the log: no yield point is ever reached again
                #[allow(clippy::empty_loop)]
                loop {
                    std::hint::spin_loop();
                }
            }
            atomically(|t| x.write(t, 1));
            "w".to_string()
        });
        let mut pool = Pool::new();
        pool.watchdog = 1;
        let t0 = std::time::Instant::now();
        let r = pool.run(&[1, 1], body, Strategy::Replay { sched: vec![1, 1, 1], pos: 0 }, 1000, false);
        let st = r.err().expect("the watchdog must fire");
        assert_eq!((st.thread, st.unit), (1, 0));
        assert!(t0.elapsed().as_secs() < 8, "{:?}", t0.elapsed());
    }

    #[test]
    fn livelock_hits_the_step_budget() {
        std::panic::set_hook(Box::new(|_| {}));
        let mk = || -> Body {
            let x = TVar::new(0u32);
            Arc::new(move |_, _| {
                // every attempt invalidates itself: a non-transactional writer inside the closure
                atomically(|t| {
                    let v = x.read(t)?;
                    let x2 = x.clone();
                    std::thread::spawn(move || atomically(|t| x2.write(t, v + 1))).join().unwrap();
                    x.write(t, v + 100)
                });
                "done".to_string()
            })
        };
        let out = explore_raw(&[1], mk, 0, 200);
        assert!(out.keys().all(|(s, _)| s == "hang"), "{out:?}");
    }
}
