//! Baton scheduler: real OS threads, exactly one of them runs at a time.  The running thread calls
//! the hook of the vendored fast-stm at every shared-memory step; the hook asks the strategy which
//! thread continues and, if it is another one, hands the baton over and sleeps.

use std::collections::HashMap;
use std::sync::atomic::{AtomicBool, AtomicU64, AtomicUsize, Ordering};
use std::sync::{Arc, Mutex, MutexGuard};
use std::time::{Duration, Instant};

use honeycomb_core::stm::verif::{Hook, Kind};

/// payload of the unwinding used to tear a run down (hang / deadlock / replay mismatch)
pub struct AbortRun;

pub struct Rng(pub u64);

impl Rng {
    pub fn next(&mut self) -> u64 {
        // splitmix64
        self.0 = self.0.wrapping_add(0x9E37_79B9_7F4A_7C15);
        let mut z = self.0;
        z = (z ^ (z >> 30)).wrapping_mul(0xBF58_476D_1CE4_E5B9);
        z = (z ^ (z >> 27)).wrapping_mul(0x94D0_49BB_1331_11EB);
        z ^ (z >> 31)
    }
    pub fn below(&mut self, n: u64) -> u64 {
        self.next() % n.max(1)
    }
}

#[derive(Clone, Debug, PartialEq, Eq)]
pub struct Choice {
    pub opts: Vec<u8>,
    pub idx: usize,
}

/// stateless depth-first search with re-execution: `stack` is the path of the current run
pub struct Dfs {
    pub stack: Vec<Choice>,
    pub pos: usize,
    /// maximal number of preemptions (u32::MAX = unbounded)
    pub bound: u32,
    /// some alternative was cut by the bound
    pub pruned: bool,
    /// re-executions whose decision points did not match the recorded path (reported as `replay-mismatch`)
    pub diverged: u64,
}

impl Dfs {
    pub fn new(bound: u32) -> Self {
        Dfs { stack: vec![], pos: 0, bound, pruned: false, diverged: 0 }
    }
    /// move to the next unexplored path; false = search space exhausted
    pub fn backtrack(&mut self) -> bool {
        self.pos = 0;
        while let Some(top) = self.stack.last_mut() {
            if top.idx + 1 < top.opts.len() {
                top.idx += 1;
                return true;
            }
            self.stack.pop();
        }
        false
    }
}

pub enum Strategy {
    Dfs(Dfs),
    /// at every step: switch to a random other enabled thread with probability `num/den`
    Random { rng: Rng, num: u64, den: u64 },
    /// PCT: run the enabled thread of highest priority; at the `change` steps the running thread drops below all
    Pct { prio: Vec<i64>, change: Vec<u64>, low: i64 },
    /// follow a recorded decision list
    Replay { sched: Vec<u8>, pos: usize },
}

#[derive(Clone, Copy, PartialEq, Eq, Debug)]
enum St {
    Ready,
    /// parked in `wait_for_change` since the given number of successful commits
    Blocked(u64),
    /// a `try_read` / `try_write` failed (the lock is held by a thread preempted inside its commit); waiting since the
    /// given number of lock releases
    LockWait(u64),
    Done,
}

#[derive(Clone, Debug)]
pub struct Event {
    pub tid: u8,
    pub kind: &'static str,
    pub var: usize,
}

pub struct Run {
    st: Vec<St>,
    cur_tx: Vec<usize>,
    pub steps: u64,
    pub max_steps: u64,
    pub preemptions: u32,
    pub commits: u64,
    pub commit_order: Vec<(u8, u16)>,
    /// failed validations (commit returned false)
    pub retries: u64,
    /// `wait_for_change` found nothing changed and blocked
    pub stm_blocks: u64,
    pub atomic_reads: u64,
    pub first_reads: u64,
    /// thread chosen at every decision point
    pub schedule: Vec<u8>,
    /// "hang" | "deadlock" | "replay-mismatch"
    pub abort: Option<&'static str>,
    pub strategy: Strategy,
    pub trace: Option<Vec<Event>>,
    vars: HashMap<usize, usize>,
    /// lock granularity: the lock acquisitions of `commit` and its write-back phase are decision points
    pub lockgran: bool,
    /// locks held by each thread (between its `LockTaken` events and its `CommitDone`)
    held: Vec<u32>,
    /// commits that released at least one lock (wakes the threads in `LockWait`)
    releases: u64,
    /// the current decision is taken inside a commit (before a lock acquisition / before the write-back)
    at_lock_point: bool,
    /// preemptions taken inside a commit, and the largest number of locks the preempted thread was holding
    pub commit_preemptions: u32,
    pub max_held_at_preemption: u32,
    /// failed `try_*` (a thread had to wait for a lock held by a preempted committer)
    pub lock_waits: u64,
    pub lock_acquires: u64,
}

const NOBODY: usize = usize::MAX;

/// The baton is an atomic word; waiting threads spin, then yield, then sleep (a futex hand-off per
/// step costs far more than the step itself on a loaded machine).
pub struct Shared {
    m: Mutex<Run>,
    turn: AtomicUsize,
    abort: AtomicBool,
    exited: AtomicUsize,
    progress: AtomicU64,
}

/// kernel id of the calling thread (first field of `/proc/thread-self/stat`); 0 if unavailable
pub fn os_thread_id() -> u64 {
    std::fs::read_to_string("/proc/thread-self/stat").ok().and_then(|s| s.split(' ').next().and_then(|x| x.parse().ok())).unwrap_or(0)
}

/// user + system CPU time consumed by a thread of this process, in seconds
fn thread_cpu_secs(os_tid: u64) -> Option<f64> {
    if os_tid == 0 {
        return None;
    }
    let s = std::fs::read_to_string(format!("/proc/self/task/{os_tid}/stat")).ok()?;
    // fields after the parenthesised command name: state is field 3, utime 14, stime 15 (clock ticks, 100 per second)
    let rest = &s[s.rfind(')')? + 2..];
    let f: Vec<&str> = rest.split(' ').collect();
    let ut: f64 = f.get(11)?.parse().ok()?;
    let st: f64 = f.get(12)?.parse().ok()?;
    Some((ut + st) / 100.0)
}

fn backoff(k: &mut u32) {
    *k += 1;
    if *k < 300 {
        std::hint::spin_loop();
    } else if *k < 3000 {
        std::thread::yield_now();
    } else {
        std::thread::sleep(Duration::from_micros(100));
    }
}

fn abort_unwind() -> ! {
    std::panic::resume_unwind(Box::new(AbortRun))
}

impl Run {
    pub fn new(nthreads: usize, max_steps: u64, strategy: Strategy, trace: bool, lockgran: bool) -> Self {
        Run {
            st: vec![St::Ready; nthreads],
            cur_tx: vec![0; nthreads],
            steps: 0,
            max_steps,
            preemptions: 0,
            commits: 0,
            commit_order: vec![],
            retries: 0,
            stm_blocks: 0,
            atomic_reads: 0,
            first_reads: 0,
            schedule: vec![],
            abort: None,
            strategy,
            trace: if trace { Some(vec![]) } else { None },
            vars: HashMap::new(),
            lockgran,
            held: vec![0; nthreads],
            releases: 0,
            at_lock_point: false,
            commit_preemptions: 0,
            max_held_at_preemption: 0,
            lock_waits: 0,
            lock_acquires: 0,
        }
    }

    fn enabled(&self, t: usize) -> bool {
        match self.st[t] {
            St::Ready => true,
            St::Blocked(e) => self.commits > e,
            St::LockWait(e) => self.releases > e,
            St::Done => false,
        }
    }

    /// which thread runs next; `cur` = the thread asking (None before the start).  `None` = nobody can run.
    fn decide(&mut self, cur: Option<usize>) -> Option<usize> {
        let en: Vec<u8> = (0..self.st.len()).filter(|&t| self.enabled(t)).map(|t| t as u8).collect();
        if en.is_empty() {
            return None;
        }
        let cur_en: Option<u8> = cur.map(|c| c as u8).filter(|c| en.contains(c));
        let preempt = self.preemptions;
        let steps = self.steps;
        let chosen: u8 = match &mut self.strategy {
            Strategy::Dfs(d) => {
                let opts: Vec<u8> = match cur_en {
                    Some(c) => {
                        if preempt < d.bound {
                            let mut o = vec![c];
                            o.extend(en.iter().copied().filter(|&t| t != c));
                            o
                        } else {
                            if en.len() > 1 {
                                d.pruned = true;
                            }
                            vec![c]
                        }
                    }
                    None => en.clone(),
                };
                if opts.len() == 1 {
                    opts[0]
                } else if d.pos < d.stack.len() {
                    let ch = &d.stack[d.pos];
                    if ch.opts != opts {
                        // the re-execution does not follow the recorded path: the run is reported (`replay-mismatch`)
                        d.diverged += 1;
                        self.abort = Some("replay-mismatch");
                        return None;
                    }
                    d.pos += 1;
                    ch.opts[ch.idx]
                } else {
                    let c = opts[0];
                    d.stack.push(Choice { opts, idx: 0 });
                    d.pos += 1;
                    c
                }
            }
            Strategy::Random { rng, num, den } => match cur_en {
                Some(c) => {
                    if en.len() > 1 && rng.below(*den) < *num {
                        let others: Vec<u8> = en.iter().copied().filter(|&t| t != c).collect();
                        others[rng.below(others.len() as u64) as usize]
                    } else {
                        c
                    }
                }
                None => en[rng.below(en.len() as u64) as usize],
            },
            Strategy::Pct { prio, change, low } => {
                if let Some(c) = cur_en {
                    if change.contains(&steps) {
                        prio[c as usize] = *low;
                        *low -= 1;
                    }
                }
                *en.iter().max_by_key(|&&t| prio[t as usize]).unwrap()
            }
            Strategy::Replay { sched, pos } => {
                let t = if *pos < sched.len() {
                    sched[*pos]
                } else {
                    cur_en.unwrap_or(en[0])
                };
                *pos += 1;
                if !en.contains(&t) {
                    self.abort = Some("replay-mismatch");
                    return None;
                }
                t
            }
        };
        if let Some(c) = cur_en {
            if chosen != c {
                self.preemptions += 1;
                if self.at_lock_point {
                    self.commit_preemptions += 1;
                    self.max_held_at_preemption = self.max_held_at_preemption.max(self.held[c as usize]);
                }
            }
        }
        self.schedule.push(chosen);
        if let St::Blocked(_) | St::LockWait(_) = self.st[chosen as usize] {
            self.st[chosen as usize] = St::Ready;
        }
        Some(chosen as usize)
    }
}

impl Shared {
    pub fn new(run: Run) -> Arc<Self> {
        Arc::new(Shared {
            m: Mutex::new(run),
            turn: AtomicUsize::new(NOBODY),
            abort: AtomicBool::new(false),
            exited: AtomicUsize::new(0),
            progress: AtomicU64::new(0),
        })
    }

    fn lock(&self) -> MutexGuard<'_, Run> {
        self.m.lock().unwrap_or_else(std::sync::PoisonError::into_inner)
    }

    /// the decisions taken so far (used when a worker never yields again)
    pub fn schedule_so_far(&self) -> Vec<u8> {
        self.lock().schedule.clone()
    }

    pub fn into_run(self: Arc<Self>) -> Run {
        // the workers drop their handle right after `exit`
        while Arc::strong_count(&self) > 1 {
            std::hint::spin_loop();
        }
        match Arc::try_unwrap(self) {
            Ok(s) => s.m.into_inner().unwrap_or_else(std::sync::PoisonError::into_inner),
            Err(_) => panic!("scheduler still shared"),
        }
    }

    /// tear the run down: every waiting thread wakes up and unwinds
    fn fail(&self, mut g: MutexGuard<'_, Run>, why: &'static str) {
        if g.abort.is_none() {
            g.abort = Some(why);
        }
        drop(g);
        self.abort.store(true, Ordering::SeqCst);
        self.turn.store(NOBODY, Ordering::SeqCst);
    }

    /// sleep until the baton comes (true) or the run is torn down (false)
    fn wait_turn(&self, tid: usize) -> bool {
        let mut k = 0;
        loop {
            if self.abort.load(Ordering::SeqCst) {
                return false;
            }
            if self.turn.load(Ordering::SeqCst) == tid {
                return true;
            }
            backoff(&mut k);
        }
    }

    /// hand the baton to `next` and sleep until it comes back; unwinds if the run is torn down
    fn switch_and_wait(&self, g: MutexGuard<'_, Run>, tid: usize, next: usize) {
        drop(g);
        self.turn.store(next, Ordering::SeqCst);
        if !self.wait_turn(tid) {
            abort_unwind();
        }
    }

    /// main thread: choose the first thread and release it
    pub fn release(&self) {
        let mut g = self.lock();
        match g.decide(None) {
            Some(t) => {
                drop(g);
                self.turn.store(t, Ordering::SeqCst);
            }
            None => self.fail(g, "deadlock"),
        }
    }

    /// main thread: wait until every worker has left.  WATCHDOG: `Err(thread)` = the thread holding the baton reached no
    /// yield point and did not finish while it consumed `watchdog_secs` of CPU time (it spins inside a closure: its reads
    /// come from its own log), or for `8 * watchdog_secs` of wall time.  CPU time (`/proc/self/task/<tid>/stat`) rather than
    /// wall time: on a loaded machine a healthy worker may simply not be scheduled for a while.
    pub fn wait_all(&self, nthreads: usize, watchdog_secs: u64, os_tids: &[u64]) -> Result<(), usize> {
        let mut k = 0;
        let mut last = (self.progress.load(Ordering::Relaxed), Instant::now());
        let mut base: Option<(usize, f64)> = None;
        while self.exited.load(Ordering::SeqCst) < nthreads {
            backoff(&mut k);
            if k > 3000 && k % 1000 == 0 {
                let p = self.progress.load(Ordering::Relaxed);
                if p != last.0 {
                    last = (p, Instant::now());
                    base = None;
                    continue;
                }
                let holder = self.turn.load(Ordering::SeqCst);
                if holder == NOBODY || self.abort.load(Ordering::SeqCst) {
                    // between two runs / tearing down: only the wall clock applies
                    if last.1.elapsed() > Duration::from_secs(8 * watchdog_secs.max(1)) {
                        return Err(0);
                    }
                    continue;
                }
                let cpu = os_tids.get(holder).and_then(|t| thread_cpu_secs(*t));
                match (base, cpu) {
                    (Some((h, c0)), Some(c)) if h == holder => {
                        if c - c0 >= watchdog_secs as f64 {
                            return Err(holder);
                        }
                    }
                    (_, Some(c)) => base = Some((holder, c)),
                    (_, None) => {
                        if last.1.elapsed() > Duration::from_secs(watchdog_secs) {
                            return Err(holder);
                        }
                    }
                }
                if last.1.elapsed() > Duration::from_secs(8 * watchdog_secs.max(1)) {
                    return Err(holder);
                }
            }
        }
        Ok(())
    }

    /// the transaction (unit of work) a thread is executing
    pub fn current_unit(&self, tid: usize) -> usize {
        self.lock().cur_tx.get(tid).copied().unwrap_or(0)
    }

    pub fn commit_order_so_far(&self) -> Vec<(u8, u16)> {
        self.lock().commit_order.clone()
    }

    /// worker: wait for the first turn; false = the run was torn down before
    pub fn start(&self, tid: usize) -> bool {
        self.wait_turn(tid)
    }

    pub fn set_tx(&self, tid: usize, k: usize) {
        self.lock().cur_tx[tid] = k;
    }

    pub fn aborted(&self) -> bool {
        self.abort.load(Ordering::SeqCst)
    }

    /// worker: all transactions done (or unwound)
    pub fn finish(&self, tid: usize) {
        let mut g = self.lock();
        g.st[tid] = St::Done;
        if g.abort.is_none() && self.turn.load(Ordering::SeqCst) == tid {
            if g.st.iter().all(|s| *s == St::Done) {
                drop(g);
                self.turn.store(NOBODY, Ordering::SeqCst);
            } else {
                match g.decide(Some(tid)) {
                    Some(n) => {
                        drop(g);
                        self.turn.store(n, Ordering::SeqCst);
                    }
                    None => {
                        let why = g.abort.unwrap_or("deadlock");
                        self.fail(g, why);
                    }
                }
            }
        }
    }

    /// worker: the thread is gone (after `finish`)
    pub fn exit(&self) {
        self.exited.fetch_add(1, Ordering::SeqCst);
    }
}

pub struct ThreadHook {
    pub sh: Arc<Shared>,
    pub tid: usize,
    /// copy of `Run::lockgran` (events of the lock walk are dropped without taking the scheduler's mutex otherwise)
    pub lockgran: bool,
}

impl Hook for ThreadHook {
    fn thread_id(&self) -> usize {
        self.tid
    }

    fn event(&self, kind: Kind, key: usize) {
        let tid = self.tid;
        let sh = &*self.sh;
        if !self.lockgran && matches!(kind, Kind::LockAcquire | Kind::LockTaken | Kind::WriteBack | Kind::Publish) {
            return; // commit is one step: nobody else runs between CommitStart and CommitDone, every try-lock succeeds
        }
        if sh.abort.load(Ordering::SeqCst) {
            abort_unwind();
        }
        sh.progress.fetch_add(1, Ordering::Relaxed);
        let mut g = sh.lock();
        if g.trace.is_some() {
            let nv = g.vars.len();
            let var = match kind {
                Kind::FirstRead | Kind::AtomicRead | Kind::LockAcquire | Kind::LockTaken | Kind::LockWait => {
                    *g.vars.entry(key & !1).or_insert(nv)
                }
                _ => key,
            };
            let name = match kind {
                Kind::FirstRead => "read",
                Kind::AtomicRead => "atomic-read",
                Kind::CommitStart => "commit",
                Kind::CommitDone => {
                    if key == 1 {
                        "commit-ok"
                    } else {
                        "commit-failed"
                    }
                }
                Kind::RetryBlock => "retry-block",
                Kind::LockAcquire => {
                    if key & 1 == 1 {
                        "lock-write"
                    } else {
                        "lock-read"
                    }
                }
                Kind::LockTaken => "locked",
                Kind::LockWait => "lock-wait",
                Kind::WriteBack => "all-locked",
                Kind::Publish => "publish",
            };
            g.trace.as_mut().unwrap().push(Event { tid: tid as u8, kind: name, var });
        }
        match kind {
            Kind::CommitDone => {
                if key == 1 {
                    g.commits += 1;
                    if !g.lockgran {
                        let k = g.cur_tx[tid] as u16;
                        g.commit_order.push((tid as u8, k));
                    }
                } else {
                    g.retries += 1;
                }
                if g.held[tid] > 0 {
                    g.held[tid] = 0;
                    g.releases += 1;
                }
                return; // bookkeeping only: the next shared-memory step of this thread has its own yield point
            }
            Kind::LockTaken => {
                g.held[tid] += 1;
                return;
            }
            Kind::LockAcquire => g.lock_acquires += 1,
            Kind::WriteBack => {
                // lock granularity: all locks held, all reads validated = the serialization point of this commit
                let k = g.cur_tx[tid] as u16;
                g.commit_order.push((tid as u8, k));
            }
            Kind::Publish => {
                // the read locks are gone: writers waiting for them may go on
                if g.held[tid] as usize > key {
                    g.held[tid] = key as u32;
                    g.releases += 1;
                }
            }
            Kind::LockWait => {
                g.lock_waits += 1;
                let r = g.releases;
                g.st[tid] = St::LockWait(r);
            }
            Kind::FirstRead => g.first_reads += 1,
            Kind::AtomicRead => g.atomic_reads += 1,
            Kind::CommitStart => {}
            Kind::RetryBlock => {
                g.stm_blocks += 1;
                let c = g.commits;
                g.st[tid] = St::Blocked(c);
            }
        }
        g.steps += 1;
        if g.steps > g.max_steps {
            sh.fail(g, "hang");
            abort_unwind();
        }
        g.at_lock_point = matches!(kind, Kind::LockAcquire | Kind::WriteBack | Kind::Publish);
        match g.decide(Some(tid)) {
            None => {
                let why = g.abort.unwrap_or("deadlock");
                sh.fail(g, why);
                abort_unwind();
            }
            Some(n) if n == tid => {}
            Some(n) => sh.switch_and_wait(g, tid, n),
        }
    }
}
