//! Lists the modules of hcimpl that the protocol interpreter (`s2.rs`, `s3.rs`) needs — the closure
//! of the `crate::<module>` references — so that hcsched compiles the very same sources (one source
//! of truth); see `src/main.rs`.
use std::collections::BTreeSet;
use std::io::Write;

fn refs(text: &str) -> Vec<String> {
    let mut out = vec![];
    let mut rest = text;
    while let Some(i) = rest.find("crate::") {
        rest = &rest[i + 7..];
        if let Some(body) = rest.strip_prefix('{') {
            // use crate::{a, b::c, D};
            let end = body.find('}').unwrap_or(body.len());
            for part in body[..end].split(',') {
                let name: String = part.trim().chars().take_while(|c| c.is_alphanumeric() || *c == '_').collect();
                out.push(name);
            }
        } else {
            let name: String = rest.chars().take_while(|c| c.is_alphanumeric() || *c == '_').collect();
            out.push(name);
        }
    }
    out
}

fn main() {
    let src = "/verif/harness/hcimpl/src";
    println!("cargo:rerun-if-changed={src}");
    let mut need: BTreeSet<String> = ["s2".to_string(), "s3".to_string()].into_iter().collect();
    let mut todo: Vec<String> = need.iter().cloned().collect();
    while let Some(m) = todo.pop() {
        let text = std::fs::read_to_string(format!("{src}/{m}.rs")).expect("hcimpl module");
        for r in refs(&text) {
            if r != "main" && std::path::Path::new(&format!("{src}/{r}.rs")).exists() && need.insert(r.clone()) {
                todo.push(r);
            }
        }
    }
    let out = std::path::Path::new(&std::env::var("OUT_DIR").unwrap()).join("hcimpl_mods.rs");
    let mut f = std::fs::File::create(out).unwrap();
    for n in need {
        writeln!(f, "#[path = \"{src}/{n}.rs\"]\nmod {n};").unwrap();
    }
}
