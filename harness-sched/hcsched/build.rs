//! Lists the modules of hcimpl (`/verif/harness/hcimpl/src/*.rs` except `main.rs`) so that hcsched
//! compiles the very same interpreter sources (one source of truth); see `src/main.rs`.
use std::io::Write;

fn main() {
    let src = "/verif/harness/hcimpl/src";
    println!("cargo:rerun-if-changed={src}");
    let mut names: Vec<String> = std::fs::read_dir(src)
        .expect("hcimpl sources")
        .filter_map(|e| e.ok())
        .filter_map(|e| e.file_name().into_string().ok())
        .filter(|n| n.ends_with(".rs") && n != "main.rs")
        .map(|n| n.trim_end_matches(".rs").to_string())
        .collect();
    names.sort();
    let out = std::path::Path::new(&std::env::var("OUT_DIR").unwrap()).join("hcimpl_mods.rs");
    let mut f = std::fs::File::create(out).unwrap();
    for n in names {
        writeln!(f, "#[path = \"{src}/{n}.rs\"]\nmod {n};").unwrap();
    }
}
