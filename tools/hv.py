"""Shared machinery of the honeycomb verification checks (see DESIGN.md §3, §5, §6).

Every registered command is `python3 tools/check.py Cxx --tier quick|thorough`.
This module provides: building the Lean project and the Rust harness against /repo's current
working tree, running a case stream on the model (`hcmodel`) and on the implementation
(`hcimpl`), diffing, the proof audit, known findings, evidence and the exit protocol.
"""
import hashlib
import json
import os
import re
import subprocess
import sys
import time

VERIF = os.path.dirname(os.path.dirname(os.path.abspath(__file__)))
LEAN = os.path.join(VERIF, "lean")
HARNESS = os.path.join(VERIF, "harness")
BUILD = os.path.join(VERIF, ".build")
REPO = "/repo"
HCMODEL = os.path.join(LEAN, ".lake", "build", "bin", "hcmodel")
HCIMPL = os.path.join(BUILD, "harness-target", "release", "hcimpl")
HCIMPL_PATH = HCIMPL
ALLOWED_AXIOMS = {"propext", "Classical.choice", "Quot.sound"}

ENV = dict(os.environ)
ENV.update({"CARGO_NET_OFFLINE": "true"})


def log(*a):
    print(*a, file=sys.stderr, flush=True)


def sh(cmd, cwd=None, timeout=None, env=None):
    """run, return (rc, stdout+stderr)"""
    p = subprocess.run(cmd, cwd=cwd, shell=isinstance(cmd, str), stdout=subprocess.PIPE,
                       stderr=subprocess.STDOUT, text=True, timeout=timeout, env=env or ENV)
    return p.returncode, p.stdout


# ---------------------------------------------------------------------------------------------
# builds
# ---------------------------------------------------------------------------------------------

def lake_build(targets, timeout=3000):
    """returns (ok, log)"""
    os.makedirs(BUILD, exist_ok=True)
    global HCMODEL
    with FileLock(os.path.join(BUILD, "lake.lock")):
        rc, out = sh(["lake", "build"] + list(targets), cwd=LEAN, timeout=timeout)
        src = os.path.join(LEAN, ".lake", "build", "bin", "hcmodel")
        if rc == 0 and "hcmodel" in targets and os.path.exists(src):
            # private copy: concurrent builds (other checks) may relink the shared binary
            HCMODEL = _private_copy(src)
    return rc == 0, out


def cargo_build(timeout=3000):
    """build the harness against /repo's current working tree; returns (ok, log)"""
    global HCIMPL
    os.makedirs(BUILD, exist_ok=True)
    with FileLock(os.path.join(BUILD, "cargo.lock")):
        src = os.path.join(REPO, "Cargo.lock")
        dst = os.path.join(HARNESS, "Cargo.lock")
        if os.path.exists(src):
            data = open(src).read()
            # keep the harness' own package entries: regenerate from /repo's lock each time
            if not os.path.exists(dst) or "name = \"hcimpl\"" not in open(dst).read():
                open(dst, "w").write(data)
        rc, out = sh(["cargo", "build", "--release", "--offline"], cwd=HARNESS, timeout=timeout)
        src = os.path.join(BUILD, "harness-target", "release", "hcimpl")
        if rc == 0 and os.path.exists(src):
            HCIMPL = _private_copy(src)
        # measurement mode only (tools/tiecov.sh): run the streams through a coverage-instrumented build of the same
        # harness; never set by a registered command
        if rc == 0 and os.environ.get("HV_IMPL_OVERRIDE"):
            HCIMPL = os.environ["HV_IMPL_OVERRIDE"]
    return rc == 0, out


def _private_copy(src):
    import atexit
    import shutil
    d = os.path.join(BUILD, "run", str(os.getpid()))
    os.makedirs(d, exist_ok=True)
    dst = os.path.join(d, os.path.basename(src))
    shutil.copy2(src, dst)
    atexit.register(lambda: shutil.rmtree(d, ignore_errors=True))
    return dst


class FileLock:
    """advisory lock so that checks of several properties can run concurrently"""

    def __init__(self, path):
        self.path = path

    def __enter__(self):
        import fcntl
        self.f = open(self.path, "w")
        fcntl.flock(self.f, fcntl.LOCK_EX)
        return self

    def __exit__(self, *a):
        import fcntl
        fcntl.flock(self.f, fcntl.LOCK_UN)
        self.f.close()


# ---------------------------------------------------------------------------------------------
# proof audit
# ---------------------------------------------------------------------------------------------

FORBIDDEN = re.compile(r"\b(sorry|admit|native_decide|bv_decide|implemented_by|unsafe)\b|^\s*axiom\s|maxHeartbeats 0")


def strip_comments(src):
    # remove block comments (nesting-aware enough for our files) and line comments
    out, i, depth = [], 0, 0
    while i < len(src):
        if src.startswith("/-", i):
            depth += 1
            i += 2
        elif src.startswith("-/", i) and depth > 0:
            depth -= 1
            i += 2
        elif depth > 0:
            if src[i] == "\n":
                out.append("\n")
            i += 1
        elif src.startswith("--", i):
            while i < len(src) and src[i] != "\n":
                i += 1
        else:
            out.append(src[i])
            i += 1
    return "".join(out)


def lean_files():
    res = []
    for root, _, files in os.walk(os.path.join(LEAN, "Honeycomb")):
        for f in files:
            if f.endswith(".lean"):
                res.append(os.path.join(root, f))
    return sorted(res)


def import_closure(modules):
    """the project files a list of modules depends on (transitively, through `import Honeycomb.…` / `import Driver.…`)"""
    seen, todo = [], list(modules)
    while todo:
        m = todo.pop()
        path = os.path.join(LEAN, *m.split(".")) + ".lean"
        if path in seen or not os.path.exists(path):
            continue
        seen.append(path)
        for imp in re.findall(r"^import\s+((?:Honeycomb|Driver)(?:\.\w+)*)", strip_comments(open(path).read()), re.M):
            todo.append(imp)
    return sorted(seen)


def grep_forbidden(files=None):
    hits = []
    for p in files or lean_files():
        code = strip_comments(open(p).read())
        for ln, line in enumerate(code.split("\n"), 1):
            if FORBIDDEN.search(line):
                hits.append(f"{os.path.relpath(p, LEAN)}:{ln}: {line.strip()}")
    return hits


def theorems_of(module):
    """names of the theorems stated in a Props module (property theorems start with the id)"""
    path = os.path.join(LEAN, *module.split(".")) + ".lean"
    code = strip_comments(open(path).read())
    ns = re.findall(r"^namespace\s+(\S+)", code, re.M)
    prefix = (ns[0] + ".") if ns else ""
    names = re.findall(r"^\s*(?:private\s+|protected\s+)?theorem\s+(\S+)", code, re.M)
    return [prefix + n for n in names]


def audit_axioms(module, names):
    """run `#print axioms` on the given theorems; returns (ok, {name: [axioms]}, log)"""
    os.makedirs(os.path.join(BUILD, "audit"), exist_ok=True)
    f = os.path.join(BUILD, "audit", module.replace(".", "_") + ".lean")
    with open(f, "w") as h:
        h.write(f"import {module}\n")
        for n in names:
            h.write(f"#print axioms {n}\n")
    rc, out = sh(["lake", "env", "lean", f], cwd=LEAN, timeout=1200)
    res = {}
    cur = None
    for line in out.split("\n"):
        m = re.match(r"'(.+)' depends on axioms: \[(.*)", line)
        m2 = re.match(r"'(.+)' does not depend on any axioms", line)
        if m:
            cur = m.group(1)
            res[cur] = [a.strip().rstrip("]") for a in m.group(2).split(",") if a.strip().rstrip("]")]
            if "]" in line:
                cur = None
        elif m2:
            res[m2.group(1)] = []
        elif cur is not None:
            res[cur] += [a.strip().rstrip("]") for a in line.split(",") if a.strip().rstrip("]")]
            if "]" in line:
                cur = None
    bad = {n: [a for a in ax if a not in ALLOWED_AXIOMS] for n, ax in res.items()}
    bad = {n: ax for n, ax in bad.items() if ax}
    missing = [n for n in names if n not in res]
    ok = rc == 0 and not bad and not missing
    return ok, res, (out if not ok else "")


# ---------------------------------------------------------------------------------------------
# running case streams
# ---------------------------------------------------------------------------------------------

def _run_once(binary, text, timeout):
    p = subprocess.run([binary], input=text, stdout=subprocess.PIPE, stderr=subprocess.DEVNULL,
                       text=True, timeout=timeout)
    return p.returncode, p.stdout.split("\n")


HANG_MARK = "<missing: no answer within the time budget (hang)>"


def run_bin(binary, text, timeout=None):
    """run a driver on a script.  A driver that does not answer within the budget (120 s + 20 ms per input line, or
    `timeout`) is not allowed to stall the check: the script is bisected along its `# case` blocks, the hanging case
    is answered with HANG_MARK (reported as a disagreement / oracle failure by the campaign) and the other cases are
    still evaluated."""
    budget = timeout or (120 + 0.02 * text.count("\n"))
    try:
        return _run_once(binary, text, budget)
    except subprocess.TimeoutExpired:
        pass
    # split into case blocks
    blocks, cur = [], []
    for ln in text.split("\n"):
        if ln.startswith("# case ") and cur:
            blocks.append(cur)
            cur = []
        cur.append(ln)
    if cur:
        blocks.append(cur)
    if len(blocks) <= 1:
        return -9, [l for l in text.split("\n") if l.startswith("# case ")] + [HANG_MARK]

    def solve(bs):
        t = "\n".join("\n".join(b) for b in bs) + "\n"
        try:
            return _run_once(binary, t, 20 + 0.02 * t.count("\n"))[1]
        except subprocess.TimeoutExpired:
            if len(bs) == 1:
                return [bs[0][0], HANG_MARK]
            h = len(bs) // 2
            return solve(bs[:h]) + solve(bs[h:])
    return -9, solve(blocks)


class Case:
    __slots__ = ("cid", "lines", "oracle", "meta")

    def __init__(self, cid, lines, oracle=None, meta=None):
        self.cid = cid
        self.lines = lines
        self.oracle = oracle  # name of the oracle to evaluate on the implementation's output
        self.meta = meta or {}


def render(cases):
    out = []
    for c in cases:
        out.append(f"# case {c.cid}")
        out.extend(c.lines)
    return "\n".join(out) + "\n"


def split_outputs(lines):
    """group output lines per case (delimited by the echoed `# case` lines)"""
    groups, cur = [], None
    for ln in lines:
        if ln.startswith("# case "):
            cur = []
            groups.append((ln[7:], cur))
        elif cur is not None and ln != "":
            cur.append(ln)
    return groups


def run_pair(cases, chunk=20000):
    """run the cases on model and implementation.
    returns list of (case, impl_lines, model_lines)"""
    import concurrent.futures as cf
    res = []
    chunks = [cases[i:i + chunk] for i in range(0, len(cases), chunk)]

    def work(cs):
        text = render(cs)
        with cf.ThreadPoolExecutor(2) as ex:
            fi = ex.submit(run_bin, HCIMPL, text)
            fm = ex.submit(run_bin, HCMODEL, text)
            rci, oi = fi.result()
            rcm, om = fm.result()
        gi, gm = split_outputs(oi), split_outputs(om)
        out = []
        for k, c in enumerate(cs):
            li = gi[k][1] if k < len(gi) else ["<missing: implementation driver died>"]
            lm = gm[k][1] if k < len(gm) else ["<missing: model driver died>"]
            out.append((c, li, lm))
        return out

    with cf.ThreadPoolExecutor(8) as ex:
        for part in ex.map(work, chunks):
            res.extend(part)
    return res


# ---------------------------------------------------------------------------------------------
# known findings, replay, evidence
# ---------------------------------------------------------------------------------------------

def load_known():
    p = os.path.join(VERIF, "known_findings.json")
    if not os.path.exists(p):
        return {"findings": [], "fixed": []}
    return json.load(open(p))


def write_replay(pid, payload):
    d = os.path.join(VERIF, "replays", pid)
    os.makedirs(d, exist_ok=True)
    blob = json.dumps(payload, indent=1, sort_keys=True)
    h = hashlib.sha1(blob.encode()).hexdigest()[:12]
    path = os.path.join(d, f"{h}.json")
    open(path, "w").write(blob)
    return path


def write_evidence(pid, tier, seed, coverage, assumptions, wall, violations):
    d = os.path.join(VERIF, "evidence")
    os.makedirs(d, exist_ok=True)
    ev = {
        "property_id": pid,
        "tier": tier,
        "seed": seed,
        "level": "proof",
        "coverage": coverage,
        "assumptions": assumptions,
        "wall_s": round(wall, 2),
        "violations": violations,
    }
    open(os.path.join(d, f"{pid}.json"), "w").write(json.dumps(ev, indent=1))


# ---------------------------------------------------------------------------------------------
# campaign: correspondence + oracle over a list of cases
# ---------------------------------------------------------------------------------------------

def first_diff(a, b):
    for i, (x, y) in enumerate(zip(a, b)):
        if x != y:
            return i
    return min(len(a), len(b))


def campaign(cases, oracle, max_report=5, canon=None, advisory=False):
    """oracle(case, impl_lines) -> None or a string describing the failure.
    returns dict(stats, violations, samples).
    advisory=True: a stream of inputs OUTSIDE the guard of the property (null / removed / out-of-range arguments …): the
    property says nothing about them and its theorems do not use the model there, so a model/implementation disagreement
    on such a case is recorded in the statistics (`advisory_disagreements`, with examples) but is not an alarm."""
    res = run_pair(cases)
    stats = {"cases": len(cases), "lines": 0, "disagreements": 0, "oracle_failures": 0,
             "impl_outcomes": {}, "ops": {}}
    violations = []
    distinct = set()
    samples = []
    for c, li, lm in res:
        if canon:
            li, lm = [canon(x) for x in li], [canon(x) for x in lm]
        stats["lines"] += len(li)
        distinct.add(hashlib.md5("\n".join(li).encode()).hexdigest())
        for ln in c.lines:
            k = ln.split(" ", 1)[0]
            stats["ops"][k] = stats["ops"].get(k, 0) + 1
        for ln in li:
            k = ln.split(" ")
            key = k[0] if k[0] not in ("err", "tx") else " ".join(k[:2])
            if key in ("ok", "panic", "retry", "queued") or key.startswith("err") or key.startswith("tx"):
                stats["impl_outcomes"][key] = stats["impl_outcomes"].get(key, 0) + 1
        ofail = oracle(c, li) if oracle else None
        if li != lm and advisory and not ofail:
            stats["advisory_disagreements"] = stats.get("advisory_disagreements", 0) + 1
            if len(stats.setdefault("advisory_examples", [])) < 3:
                k = first_diff(li, lm)
                stats["advisory_examples"].append({"case": c.cid, "input": c.lines, "line": k,
                                                   "impl": li[k] if k < len(li) else "<end>", "model": lm[k] if k < len(lm) else "<end>"})
        elif li != lm:
            stats["disagreements"] += 1
            if stats["disagreements"] <= max_report or ofail:
                k = first_diff(li, lm)
                violations.append({
                    "kind": "correspondence",
                    "what": f"model and implementation differ on case {c.cid} at output line {k}: "
                            f"impl={li[k] if k < len(li) else '<end>'!r} model={lm[k] if k < len(lm) else '<end>'!r}"
                            + (f"; property oracle fails on the implementation: {ofail}" if ofail else ""),
                    "found_input": bool(ofail),
                    "sig": c.meta.get("sig", ""),
                    "replay": {"case": c.cid, "input_lines": c.lines, "impl_output": li, "model_output": lm,
                               "oracle_failure": ofail,
                               "theorem_or_correspondence": "correspondence hcmodel/hcimpl on this case",
                               "replay_cmd": f"printf '%s\\n' <input_lines> | {HCIMPL_PATH}"},
                })
        elif ofail:
            stats["oracle_failures"] += 1
            violations.append({
                "kind": "oracle",
                "what": f"property fails on the implementation (model agrees) on case {c.cid}: {ofail}",
                "found_input": True,
                "sig": c.meta.get("sig", ""),
                "replay": {"case": c.cid, "input_lines": c.lines, "impl_output": li, "oracle_failure": ofail,
                           "replay_cmd": f"printf '%s\\n' <input_lines> | {HCIMPL_PATH}"},
            })
        if len(samples) < 3 and len(c.lines) > 2:
            samples.append({"case": c.cid, "input": c.lines[:12], "impl_output": li[:12]})
    stats["distinct_nontrivial"] = len(distinct)
    # violations with a concrete failing input first
    violations.sort(key=lambda v: (not v["found_input"],))
    return {"stats": stats, "violations": violations, "samples": samples}


def merge_results(parts):
    stats = {"cases": 0, "lines": 0, "disagreements": 0, "oracle_failures": 0, "impl_outcomes": {},
             "ops": {}, "distinct_nontrivial": 0, "streams": {}}
    violations, samples, notes = [], [], []
    for name, r in parts:
        s = r["stats"]
        stats["streams"][name] = {k: s.get(k) for k in ("cases", "lines", "disagreements", "oracle_failures", "distinct_nontrivial", "exhaustive",
                                                         "advisory_disagreements", "advisory_examples") if k in s or not k.startswith("advisory")}
        if s.get("advisory_disagreements"):
            notes.append(f"stream '{name}' (outside the guard of the property, advisory): {s['advisory_disagreements']} model/implementation "
                         f"disagreement(s), e.g. case {s['advisory_examples'][0]['case']}")
        for k in ("cases", "lines", "disagreements", "oracle_failures", "distinct_nontrivial"):
            stats[k] += s.get(k, 0)
        for k in ("impl_outcomes", "ops"):
            for a, b in s.get(k, {}).items():
                stats[k][a] = stats[k].get(a, 0) + b
        violations += r["violations"]
        samples += r["samples"][:2]
        notes += r.get("notes", [])
    violations.sort(key=lambda v: (not v["found_input"],))
    return {"stats": stats, "violations": violations, "samples": samples, "notes": notes}
