"""C04 — 2D sew/unsew keep embedded data attached to the right cells."""
import random

import gens
import hv
from hv import Case
from props.c18 import parse_snap

SPEC = {
    "lean_modules": ["Honeycomb.Props.C04", "Honeycomb.Props.C04Cells", "Honeycomb.Props.C04Cells2", "Honeycomb.Props.C04Gen", "Honeycomb.Props.C01Gen2", "Honeycomb.Props.C18Gen"],
    # Gen/AttrMoves.lean is re-translated from attributes/collections.rs before every build
    "gen": ["attrs", "sews2", "alloc"],
    "required_theorems": [
        # Props/C18Gen.lean: merge_attributes / split_attributes (manager.rs) hand every storage of the bucket the identifiers unpermuted
        "C18_gen_attr_loops", "C18_gen_buckets",
        # Props/C01Gen2.lean: the translated CMap2::one_sew / one_unsew ARE the model's oneSew2 / oneUnsew2
        "C01_gen_oneSew2", "C01_gen_oneUnsew2", "C01_gen_twoSew2", "C01_gen_twoUnsew2",
        # Props/C04Gen.lean: the translated AttrSparseVec::merge / split ARE the model's mergeS / splitS (program equality)
        "C04_gen_merge_dispatch", "C04_gen_split_dispatch", "C04_gen_mergeS", "C04_gen_splitS", "C04_gen_merge_run", "C04_gen_split_run","C04_oneSew2_effect", "C04_oneUnsew2_effect", "C04_twoSew2_both", "C04_twoSew2_left", "C04_twoSew2_right",
                          "C04_twoSew2_free", "C04_twoUnsew2_effect", "C04_twoSew2_refuses", "C04_same_cell_value_is_kept",
                          "C04_oneSew2_cells", "C04_oneUnsew2_cells", "C04_twoSew2_cells", "C04_twoUnsew2_cells",
                          "C04_twoSew2_cells_free", "C04_twoSew2_cells_left", "C04_twoSew2_cells_right"],
    "trusted_base": [
        "Lean 4.33 kernel; axioms propext, Classical.choice, Quot.sound only",
        "hand-written model (Model/Ops.lean mergeS/splitS/mergeAttrs, Model/Ops2.lean sews) tied to /repo by the differential run with "
        "free-term attribute values (the exact tree of merges/splits at every identifier, stale ones included, is compared)",
        "Rust harness hcimpl, tools/*.py (the oracle recomputes cells independently from the beta arrays)",
    ],
    "assumptions": ["no fault injection in this check (fc = 0); f64 arithmetic exact on the dyadic coordinates used"],
    "rule": "exhaustive: every WF 2-map with n<=N darts x every sew/unsew(1,2) x every argument tuple x defined/undefined patterns over the "
            "built-in vertices and three user storages (vertex full-law, vertex default-law, edge default-law, face); random histories on "
            "larger maps. Oracle on the implementation: topological effect = link; every new cell that is the union of two distinct old "
            "cells carries merge*(values) at its id; ids that stopped designating a cell are empty; cells with unchanged dart set keep "
            "their value; unsew mirrored; BadGeometry refusal recomputed exactly. distinct_nontrivial = distinct implementation transcripts.",
    "not_proved": [
        "(nothing left at this level) identification of the computed identifiers with cells is PROVED for every operation of the property: "
        "1-sew/1-unsew (C04_oneSew2_cells, C04_oneUnsew2_cells), all four arms of 2-sew (C04_twoSew2_cells under the property's proviso "
        "for the minima, C04_twoSew2_cells_free/_left/_right) and every arm of 2-unsew (C04_twoUnsew2_cells): new cell = union of the "
        "old cells, every other cell unchanged, every computed id = minimum of its cell",
        "D2 was a genuine defect (merge v v on coinciding ids), repaired by a fix: commit in /repo; the theorem "
        "C04_same_cell_value_is_kept describes the repaired behaviour",
    ],
}

VSTORES = (0, 1, 5)
ESTORES = (2,)


def vertex_cells(b0, b1, b2, n):
    """partition of darts 1..n-1 into vertex cells (closure under b1∘b2, b2∘b0 and inverses)"""
    parent = list(range(n))

    def find(x):
        while parent[x] != x:
            parent[x] = parent[parent[x]]
            x = parent[x]
        return x

    for d in range(1, n):
        for y in (b1[b2[d]] if b2[d] < n else 0, b2[b0[d]] if b0[d] < n else 0):
            if 0 < y < n:
                parent[find(d)] = find(y)
    cells = {}
    for d in range(1, n):
        cells.setdefault(find(d), set()).add(d)
    return [frozenset(c) for c in cells.values()]


def edge_cells(b2, n):
    out = []
    seen = set()
    for d in range(1, n):
        if d in seen:
            continue
        c = {d} | ({b2[d]} if 0 < b2[d] < n else set())
        seen |= c
        out.append(frozenset(c))
    return out


def merged_ok(new, a, b, storage):
    if storage == 0:
        if a == "none" and b == "none":
            return False  # vertices: merge_from_none is an error, the call cannot have succeeded
        if a == "none" or b == "none":
            return new == (b if a == "none" else a)
        pa, pb = [x for x in a.strip("()").split(",")], [x for x in b.strip("()").split(",")]
        from fractions import Fraction as F
        want = "(" + ",".join(_r((F(x) + F(y)) / 2) for x, y in zip(pa, pb)) + ")"
        return new == want
    if a == "none" and b == "none":
        return new == "N"
    if a == "none" or b == "none":
        return new == f"I({b if a == 'none' else a})"
    return new in (f"M({a},{b})", f"M({b},{a})")


def _r(q):
    return str(q.numerator) if q.denominator == 1 else f"{q.numerator}/{q.denominator}"


def split_ok(na, nb, old, storage):
    if storage == 0:
        return old != "none" and na == old and nb == old
    if old == "none":
        return {na, nb} == {"NL", "NR"}
    return {na, nb} == {f"L({old})", f"R({old})"}


def check_kind(cells0, cells1, vals0, vals1, stores, sew):
    for st in stores:
        if st not in vals0:
            continue
        v0, v1 = vals0[st], vals1[st]
        ids0 = {min(c): c for c in cells0}
        ids1 = {min(c): c for c in cells1}
        if sew:
            for i1, c1 in ids1.items():
                parts = [c for c in cells0 if c <= c1]
                if c1 in cells0:
                    if v1[i1] != v0[i1]:
                        return (f"storage a{st}: cell {sorted(c1)} did not change but its value went from {v0[i1]} to {v1[i1]}"
                                + (" (merged with itself)" if v1[i1] in (f"M({v0[i1]},{v0[i1]})",) else ""))
                elif len(parts) == 2 and parts[0] | parts[1] == c1:
                    a, b = v0[min(parts[0])], v0[min(parts[1])]
                    if not merged_ok(v1[i1], a, b, st):
                        return f"storage a{st}: new cell {sorted(c1)} = union of cells with values {a}, {b} but holds {v1[i1]} at id {i1}"
            for i0 in ids0:
                if i0 not in ids1 and v1[i0] != "none":
                    return f"storage a{st}: id {i0} stopped designating a cell but still holds {v1[i0]}"
        else:
            for i0, c0 in ids0.items():
                parts = [c for c in cells1 if c <= c0]
                if c0 in cells1:
                    if v1[i0] != v0[i0]:
                        return f"storage a{st}: cell {sorted(c0)} did not change but its value went from {v0[i0]} to {v1[i0]}"
                elif len(parts) == 2 and parts[0] | parts[1] == c0:
                    na, nb = v1[min(parts[0])], v1[min(parts[1])]
                    if not split_ok(na, nb, v0[i0], st):
                        return f"storage a{st}: cell {sorted(c0)} with value {v0[i0]} split into cells holding {na}, {nb}"
                    if i0 not in ids1 and v1[i0] != "none":
                        return f"storage a{st}: id {i0} stopped designating a cell but still holds {v1[i0]}"
    return None


def oracle_c04(case, li):
    if any(x.startswith("<missing") for x in li):
        return "driver died"
    lines = case.lines
    for i, (inp, out) in enumerate(zip(lines, li)):
        t = inp.split()
        if t[0] in ("sew", "unsew", "fsew", "funsew") and i >= 1 and lines[i - 1] == "snap" and i + 1 < len(lines) and lines[i + 1] == "snap":
            if not li[i - 1].startswith("snap ") or not li[i + 1].startswith("snap "):
                return f"snapshot failed around {inp!r}"
            s0, s1 = parse_snap(li[i - 1]), parse_snap(li[i + 1])
            n = s0["n"]
            b0, b1, b2 = [list(r) for r in s0["b"]]
            dim, l = int(t[1]), int(t[2])
            sew = t[0] in ("sew", "fsew")
            if out != "ok":
                if li[i - 1] != li[i + 1]:
                    return f"{inp}: answered {out!r} but the map changed"
                if out.startswith("err BadGeometry") and sew and dim == 2:
                    # the refusal must be justified: both darts have a successor, the four end points are defined and the
                    # two edges do NOT point in opposite directions (exact sign of the dot product)
                    from fractions import Fraction as F
                    r = int(t[3])
                    vc = vertex_cells(*s0["b"], n)
                    def vid(d):
                        return min(next(c for c in vc if d in c))
                    b1l, b1r = s0["b"][1][l], s0["b"][1][r]
                    if b1l == 0 or b1r == 0:
                        return f"{inp}: refused with BadGeometry although a dart has no successor"
                    pts = [s0["a"][0][vid(d)] for d in (l, b1r, b1l, r)]
                    if any(p == "none" for p in pts):
                        return f"{inp}: refused with BadGeometry although an end point has no coordinates"
                    P = [[F(x) for x in p.strip("()").split(",")] for p in pts]
                    dot = sum((P[2][k] - P[0][k]) * (P[1][k] - P[3][k]) for k in range(2))
                    if dot < 0:
                        return f"{inp}: refused with BadGeometry although the two edges point in opposite directions (dot = {dot})"
                continue
            if sew and dim == 2:
                # the converse: an ACCEPTED 2-sew of two fully embedded edges must point in opposite directions (exact sign)
                from fractions import Fraction as F
                r_ = int(t[3])
                b1l_, b1r_ = s0["b"][1][l], s0["b"][1][r_]
                if b1l_ != 0 and b1r_ != 0:
                    vc_ = vertex_cells(*s0["b"], n)
                    pts_ = [s0["a"][0][min(next(c for c in vc_ if d in c))] for d in (l, b1r_, b1l_, r_)]
                    if all(p != "none" for p in pts_):
                        P_ = [[F(x) for x in p.strip("()").split(",")] for p in pts_]
                        dot_ = sum((P_[2][k] - P_[0][k]) * (P_[1][k] - P_[3][k]) for k in range(2))
                        if dot_ >= 0:
                            return f"{inp}: accepted although the two fully embedded edges do not point in opposite directions (dot = {dot_})"
            # expected topology
            if sew:
                r = int(t[3])
                if dim == 1:
                    b1[l] = r
                    b0[r] = l
                else:
                    b2[l] = r
                    b2[r] = l
            else:
                if dim == 1:
                    r = b1[l]
                    b1[l] = 0
                    b0[r] = 0
                else:
                    r = b2[l]
                    b2[l] = 0
                    b2[r] = 0
            if [b0, b1, b2] != s1["b"]:
                return f"{inp}: topological effect differs from the corresponding link/unlink: {s1['b']} expected {[b0, b1, b2]}"
            if s0["u"] != s1["u"]:
                return f"{inp}: removal flags changed"
            vc0 = vertex_cells(*s0["b"], n)
            vc1 = vertex_cells(*s1["b"], n)
            if dim == 2:
                # proviso of the property: the two end points of the edge are different vertices before and after
                rr = r
                b1l, b1r = s0["b"][1][l], s0["b"][1][rr]
                def cell(cs, d):
                    return next((c for c in cs if d in c), None)
                endA0 = {cell(vc0, l), cell(vc0, b1r)} - {None}
                endB0 = {cell(vc0, b1l), cell(vc0, rr)} - {None}
                endA1 = {cell(vc1, l), cell(vc1, b1r)} - {None}
                endB1 = {cell(vc1, b1l), cell(vc1, rr)} - {None}
                if endA0 & endB0 or endA1 & endB1:
                    continue
            f = check_kind(vc0, vc1, s0["a"], s1["a"], VSTORES, sew)
            if f:
                return f"{inp}: {f}"
            if dim == 2:
                f = check_kind(edge_cells(s0["b"][2], n), edge_cells(s1["b"][2], n), s0["a"], s1["a"], ESTORES, sew)
                if f:
                    return f"{inp}: {f}"
            # frame: storages of other kinds untouched
            for st in s0["a"]:
                if st not in VSTORES and not (dim == 2 and st in ESTORES) and s0["a"][st] != s1["a"][st]:
                    return f"{inp}: storage a{st} (not bound to a cell kind of this sew) changed"
    return None


def ops(n, darts):
    out = []
    for l in darts:
        for r in darts:
            out.append(f"sew 1 {l} {r}")
            if l != r:
                out.append(f"sew 2 {l} {r}")
        out += [f"unsew 1 {l}", f"unsew 2 {l}"]
    return out


def exhaustive(rng, nmax, frac=1.0, mask=0b10111, only_n=None):
    cases, cid = [], 0
    for n in range(1, nmax + 1):
        if only_n and n != only_n:
            continue
        for (b0, b1, b2, u) in gens.wf_maps2(n, with_unused=False):
            if rng.random() > frac:
                continue
            darts = list(range(1, n + 1))
            load = gens.load_line(2, n, mask, [b0, b1, b2], u)
            for pat in range(3):
                # pattern 2: a TINY mesh (coordinates k/2^34): the orientation test must still be an exact sign test
                vals = gens.value_lines(rng, n, mask, pv=(1.0 if pat != 1 else 0.6), pa=(0.9 if pat == 0 else 0.5),
                                        den=(4 if pat < 2 else 2 ** 34))
                for op in ops(n, darts):
                    cid += 1
                    f = "f" if rng.random() < 0.2 else ""
                    cases.append(Case(f"x{n}-{cid}", [load] + vals + ["snap", f + op, "snap"], oracle="c04", meta={"sig": op.split()[0]}))
    return cases


def histories(count, rng, mask=0b10111):
    cases = []
    for c in range(count):
        n = rng.randint(4, 12)
        lines = [f"new 2 {n} {mask}"] + gens.value_lines(rng, n, mask, pv=0.95, pa=0.7)
        darts = list(range(1, n + 1))
        for _ in range(rng.randint(6, 30)):
            l, r = rng.choice(darts), rng.choice(darts)
            k = rng.random()
            if k < 0.35:
                op = f"sew 1 {l} {r}"
            elif k < 0.65:
                op = f"sew 2 {l} {r}" if l != r else f"unsew 2 {l}"
            elif k < 0.8:
                op = f"unsew 1 {l}"
            else:
                op = f"unsew 2 {l}"
            lines += ["snap", op, "snap"]
            if rng.random() < 0.15:
                lines.append(f"wv {l} {gens.dy(rng)} {gens.dy(rng)}")
        cases.append(Case(f"h{c}", lines, oracle="c04", meta={"sig": "history"}))
    return cases


def tx_blocks(count, rng, mask=0b10111):
    """sews composed in ONE transaction (a 1-sew right after the 2-sew/2-link that gives its left dart the image through which the
    vertex to merge is found, unsews of what was just sewn, ...): the same calls are first run one by one from the same state.
    Layout and two-directional oracle of C08 (`oracle_c08k`): same results and same full snapshot, or same first error and nothing
    published; the model must agree line by line."""
    cases = []
    for c in range(count):
        n = rng.randint(3, 7)
        init = [f"new 2 {n} {mask}"] + gens.value_lines(rng, n, mask, pv=0.95, pa=0.7)
        darts = list(range(1, n + 1))
        for _ in range(rng.choice([0, 0, 1, 2])):
            x, y = rng.sample(darts, 2)
            init.append(rng.choice([f"flink 1 {x} {y}", f"fsew 1 {x} {y}", f"flink 2 {x} {y}"]))
        l, o = rng.sample(darts, 2)
        r = rng.choice(darts)
        ops = [rng.choice([f"sew 2 {l} {o}", f"link 2 {l} {o}"])]
        if rng.random() < 0.3:
            x, y = rng.sample(darts, 2)
            ops.append(rng.choice([f"sew 1 {x} {y}", f"sew 2 {x} {y}", f"unsew 1 {x}"]))
        ops.append(f"sew 1 {l} {r}")
        if rng.random() < 0.4:
            ops.append(rng.choice([f"unsew 1 {l}", f"unsew 2 {l}", f"unsew 2 {o}"]))
        lines = init + ["snap"] + ops + ["snap"] + init + ["tx"] + ops + ["endtx", "snap"]
        cases.append(Case(f"tx{c}", lines, oracle="c08k", meta={"sig": "tx-block", "k": len(ops), "ninit": len(init)}))
    return cases


def perp_cases(count, rng):
    """2-sews of two embedded edges that are EXACTLY perpendicular, with non-dyadic coordinates (exact rational values of f64
    numbers such as 0.1, 0.37, …): u = (a, b), w = ±(-b, a), both edges starting at the origin, so the differences are exact and
    the products a·b are not representable.  The dot product is exactly 0 — in exact arithmetic and in the unfused IEEE evaluation
    a·(−b) + b·a alike — so the sew must be refused with BadGeometry (not `pointing in opposite directions`)."""
    from fractions import Fraction as F
    cases = []
    b0 = [0, 0, 1, 0, 3]
    b1 = [0, 2, 0, 4, 0]
    for c in range(count):
        a = float(rng.randint(1, 999)) / rng.choice([10.0, 100.0, 1000.0, 7.0, 3.0])
        b = float(rng.randint(1, 999)) / rng.choice([10.0, 100.0, 1000.0, 7.0, 3.0])
        if rng.random() < 0.5:
            a = -a
        sgn = rng.choice([1, -1])
        ux, uy = F(a), F(b)
        wx, wy = -sgn * uy, sgn * ux
        mask = rng.choice([0, 0b10111])
        lines = [gens.load_line(2, 4, mask, [b0, b1, [0] * 5], [0] * 5), "wv 1 0 0", f"wv 2 {ux} {uy}", "wv 3 0 0", f"wv 4 {wx} {wy}",
                 "snap", rng.choice(["sew 2 1 3", "sew 2 3 1", "fsew 2 1 3"]), "snap"]
        cases.append(Case(f"perp{c}", lines, oracle="c04", meta={"sig": "perpendicular-non-dyadic"}))
    return cases


def run(tier, seed):
    rng = random.Random(seed)
    parts = []
    parts.append(("exactly perpendicular edges with non-dyadic coordinates must be refused",
                  hv.campaign(perp_cases(1500 if tier == "quick" else 20000, rng), oracle_c04)))
    from props import c08
    parts.append(("sews composed in one transaction vs one by one",
                  hv.campaign(tx_blocks(3000 if tier == "quick" else 40000, rng), c08.oracle_c08k)))
    if tier == "quick":
        r = hv.campaign(exhaustive(rng, 3), oracle_c04)
        r["stats"]["exhaustive"] = True
        parts.append(("exhaustive n<=3", r))
        parts.append(("n=4 (5% sample)", hv.campaign(exhaustive(rng, 4, 0.05, only_n=4), oracle_c04)))
        parts.append(("random sew/unsew histories", hv.campaign(histories(1500, rng), oracle_c04)))
    else:
        r = hv.campaign(exhaustive(rng, 4), oracle_c04)
        r["stats"]["exhaustive"] = True
        parts.append(("exhaustive n<=4", r))
        parts.append(("n=5 (2% sample)", hv.campaign(exhaustive(rng, 5, 0.02, only_n=5), oracle_c04)))
        parts.append(("random sew/unsew histories", hv.campaign(histories(30000, rng), oracle_c04)))
    return hv.merge_results(parts)


def matches(known, v):
    if known["id"] == "D2":
        return v["kind"] == "oracle" and "did not change but its value went from" in v["what"] and "(merged with itself)" in v["what"]
    return False
