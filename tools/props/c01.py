"""C01 — 2-map structural integrity survives every editing history."""
import random

import gens
import hv
from hv import Case

SPEC = {
    "lean_modules": ["Honeycomb.Props.C01", "Honeycomb.Props.C01b", "Honeycomb.Props.C01Gen", "Honeycomb.Props.C01Gen2", "Honeycomb.Props.C01GenApi"],
    # Gen/LinkCores.lean is re-translated from components/betas.rs before every build
    "gen": ["cores", "sews2", "dispatch2"],
    "required_theorems": [
        # Props/C01GenApi.lean: C01.prog IS the translated dispatch of dim2/links/mod.rs + dim2/sews/mod.rs into the translated bodies
        "C01_gen_api", "C01_gen_force_tables", "C01_gen_api_step_preserves_WF",
        # Props/C01Gen2.lean: the translated CMap2::one_sew / one_unsew ARE the model's oneSew2 / oneUnsew2
        "C01_gen_oneSew2", "C01_gen_oneUnsew2", "C01_gen_twoSew2", "C01_gen_twoUnsew2", "C01_gen_two_sews_preserve_WF", "C01_gen_one_sews_preserve_WF",
        # Props/C01Gen.lean: the translated *_core functions of betas.rs ARE the model's link cores (program equality)
        "C01_gen_oneLinkCore", "C01_gen_twoLinkCore", "C01_gen_threeLinkCore", "C01_gen_oneUnlinkCore", "C01_gen_twoUnlinkCore",
        "C01_gen_threeUnlinkCore", "C01_gen_cores_preserve_WF","C01_history_preserves_WF", "C01_step_preserves_WF", "C01_failed_call_changes_nothing", "C01_unused_is_nobodys_image",
                          "C01_any_outcome_preserves_WF", "C01_swallowed_abort_preserves_WF"],
    "trusted_base": [
        "Lean 4.33 kernel; axioms propext, Classical.choice, Quot.sound only",
        "hand-written model Honeycomb/Model/{Stm,Map,Ops,Ops2}.lean tied to /repo by the hcmodel/hcimpl correspondence run",
        "Rust harness /verif/harness/hcimpl (protocol interpreter, WF oracle) and tools/*.py",
        "fast-stm is represented by the sequential semantics `atomically` (single thread; C07 covers concurrency)",
    ],
    "assumptions": [
        "maps have fewer than 2^32 darts (no u32 wrap-around is modelled)",
        "the correspondence is exhaustive only up to the dart bound stated in coverage.rule; above it sampled",
    ],
    "rule": "exhaustive: every well-formed 2-map with n<=N darts (every partial injection b1, every fixed-point-free partial "
            "involution b2, every admissible removed set) x every editing call x every in-use argument tuple, with two value "
            "patterns; random: histories of <=40 calls with valid arguments on random WF maps; malformed: null/removed/out-of-range "
            "arguments (outside the guard of the property: advisory correspondence, a disagreement there is recorded, not an alarm). distinct_nontrivial = distinct implementation output transcripts.",
    "not_proved": [],
}


def oracle_wf(case, li):
    if case.oracle != "wf":
        return None
    for ln in li:
        if ln.startswith("wf ") and ln != "wf true true true":
            return f"well-formedness lost: {ln}"
        if ln.startswith("<missing"):
            return ln
    return None


def exhaustive(nmax, rng, frac_last=1.0, mask=7):
    cases = []
    cid = 0
    for n in range(1, nmax + 1):
        for (b0, b1, b2, u) in gens.wf_maps2(n):
            if n == nmax and frac_last < 1.0 and rng.random() > frac_last:
                continue
            in_use = [d for d in range(1, n + 1) if not u[d]]
            load = gens.load_line(2, n, mask, [b0, b1, b2], u)
            vals_full = gens.value_lines(rng, n, mask, pv=1.0, pa=0.7)
            vals_part = gens.value_lines(rng, n, mask, pv=0.5, pa=0.3)
            for op in gens.ops2_all(n, in_use, free=[d for d in in_use if b0[d] == 0 and b1[d] == 0 and b2[d] == 0]):
                for vals in (vals_full, vals_part):
                    cid += 1
                    cases.append(Case(f"ex{n}-{cid}", [load] + vals + [op, "snap", "wf"], oracle="wf",
                                      meta={"sig": op.split()[0]}))
    return cases


def random_histories(count, rng, maxlen=40, mask=7):
    cases = []
    for k in range(count):
        n = rng.randint(2, 9)
        # random WF map: random partial injection / matching
        darts = list(range(1, n + 1))
        b0 = [0] * (n + 1)
        b1 = [0] * (n + 1)
        b2 = [0] * (n + 1)
        u = [0] * (n + 1)
        targets = darts[:]
        rng.shuffle(targets)
        for d in darts:
            if rng.random() < 0.6:
                t = targets.pop()
                b1[d] = t
                b0[t] = d
        pool = darts[:]
        rng.shuffle(pool)
        while len(pool) >= 2 and rng.random() < 0.7:
            a, b = pool.pop(), pool.pop()
            b2[a], b2[b] = b, a
        for d in darts:
            if b0[d] == 0 and b1[d] == 0 and b2[d] == 0 and rng.random() < 0.3:
                u[d] = 1
        lines = [gens.load_line(2, n, mask, [b0, b1, b2], u)] + gens.value_lines(rng, n, mask, pv=0.9)
        in_use = [d for d in darts if not u[d]]
        cur_n = n + 1
        for _ in range(rng.randint(5, maxlen)):
            op = gens.random_op2(rng, cur_n - 1, in_use)
            lines.append(op)
            t = op.split()
            if t[0] == "rm":
                in_use = [d for d in in_use if d != int(t[1])]   # maybe removed: never used again
            elif t[0] == "add":
                k2 = int(t[1])
                in_use += list(range(cur_n, cur_n + k2))
                cur_n += k2
            elif t[0] == "ins":
                pass  # may reuse a slot or append one dart we do not track
            if rng.random() < 0.3:
                lines.append("wf")
        lines += ["snap", "wf", "ndarts"]
        cases.append(Case(f"rh{k}", lines, oracle="wf", meta={"sig": "history"}))
    return cases


def tx_blocks(count, rng, mask=7):
    """several transactional calls composed in ONE atomic block on small WF maps (an operation must see the
    earlier writes of its own transaction)"""
    cases = []
    maps = {n: list(gens.wf_maps2(n, with_unused=False)) for n in (2, 3, 4)}
    for k in range(count):
        n = rng.choice((2, 3, 3, 4, 4))
        b0, b1, b2, u = rng.choice(maps[n])
        in_use = list(range(1, n + 1))
        lines = [gens.load_line(2, n, mask, [b0, b1, b2], u)] + gens.value_lines(rng, n, mask, pv=0.9, pa=0.5)
        lines.append("tx")
        for _ in range(rng.randint(2, 4)):
            op = gens.random_op2(rng, n, in_use, force_p=0.0)
            while op.split()[0] in ("rm", "ins", "add"):
                op = gens.random_op2(rng, n, in_use, force_p=0.0)
            lines.append(op)
        lines += ["endtx", "snap", "wf"]
        cases.append(Case(f"txb{k}", lines, oracle="wf", meta={"sig": "tx-block"}))
    return cases


def malformed(count, rng, mask=7):
    """null / removed / out-of-range arguments: correspondence only (WF may legitimately break)"""
    cases = []
    maps = list(gens.wf_maps2(3))
    for k in range(count):
        b0, b1, b2, u = rng.choice(maps)
        n = 3
        lines = [gens.load_line(2, n, mask, [b0, b1, b2], u)] + gens.value_lines(rng, n, mask)
        for _ in range(rng.randint(1, 6)):
            l, r = rng.randint(0, n + 1), rng.randint(0, n + 1)
            lines.append(rng.choice([
                f"link 1 {l} {r}", f"link 2 {l} {r}", f"sew 1 {l} {r}", f"sew 2 {l} {r}", f"unlink 1 {l}",
                f"unlink 2 {l}", f"unsew 1 {l}", f"unsew 2 {l}", f"rm {l}", f"rmtx {l}", f"flink 2 {l} {l}",
                f"link 3 {l} {r}", f"vid {l}", f"orbit v {l}", f"rv {l}", f"ra 1 {l}"]))
        lines += ["snap", "wf"]
        cases.append(Case(f"mal{k}", lines, oracle=None, meta={"sig": "malformed"}))
    return cases


def swallow_blocks(count, rng, mask=7):
    """`txi … endtx`: a user transaction that handles the refusals of its calls itself — the `Abort` of a refused
    link/unlink/sew/unsew is swallowed and the transaction still commits (the property covers calls `whether they succeed
    or fail`): a refused call must not have written anything that breaks well-formedness"""
    cases = []
    maps = {n: list(gens.wf_maps2(n, with_unused=False)) for n in (2, 3, 4)}
    for k in range(count):
        n = rng.choice((2, 3, 3, 4, 4))
        b0, b1, b2, u = rng.choice(maps[n])
        in_use = list(range(1, n + 1))
        lines = [gens.load_line(2, n, mask, [b0, b1, b2], u)] + gens.value_lines(rng, n, mask, pv=0.9, pa=0.5)
        lines.append("txi")
        for _ in range(rng.randint(2, 5)):
            op = gens.random_op2(rng, n, in_use, force_p=0.0)
            while op.split()[0] in ("rm", "ins", "add"):
                op = gens.random_op2(rng, n, in_use, force_p=0.0)
            lines.append(op)
        lines += ["endtx", "snap", "wf"]
        cases.append(Case(f"txi{k}", lines, oracle="wf", meta={"sig": "swallowed-aborts"}))
    return cases


def run(tier, seed):
    rng = random.Random(seed)
    parts = []
    parts.append(("transactions that swallow the refusals of their calls and commit (txi)",
                  hv.campaign(swallow_blocks(6000 if tier == "quick" else 80000, rng), oracle_wf)))
    if tier == "quick":
        ex = exhaustive(3, rng)
        ex4 = exhaustive_only(4, rng, 0.04)
        r1 = hv.campaign(ex + ex4, oracle_wf)
        r1["stats"]["exhaustive"] = True
        parts.append(("exhaustive n<=3 (+4% sample of n=4)", r1))
        parts.append(("random histories", hv.campaign(random_histories(1500, rng), oracle_wf)))
        parts.append(("transaction blocks", hv.campaign(tx_blocks(6000, rng), oracle_wf)))
        parts.append(("malformed", hv.campaign(malformed(1500, rng), None, advisory=True)))
    else:
        ex = exhaustive(4, rng)
        r1 = hv.campaign(ex, oracle_wf)
        r1["stats"]["exhaustive"] = True
        parts.append(("exhaustive n<=4", r1))
        parts.append(("exhaustive n=5 (2% sample)", hv.campaign(exhaustive_only(5, rng, 0.02), oracle_wf)))
        parts.append(("random histories", hv.campaign(random_histories(20000, rng, maxlen=60), oracle_wf)))
        parts.append(("transaction blocks", hv.campaign(tx_blocks(80000, rng), oracle_wf)))
        parts.append(("malformed", hv.campaign(malformed(20000, rng), None, advisory=True)))
    return hv.merge_results(parts)


def exhaustive_only(n, rng, frac, mask=7):
    cases = []
    cid = 0
    for (b0, b1, b2, u) in gens.wf_maps2(n):
        if rng.random() > frac:
            continue
        in_use = [d for d in range(1, n + 1) if not u[d]]
        load = gens.load_line(2, n, mask, [b0, b1, b2], u)
        vals = gens.value_lines(rng, n, mask, pv=0.9, pa=0.6)
        for op in gens.ops2_all(n, in_use, free=[d for d in in_use if b0[d] == 0 and b1[d] == 0 and b2[d] == 0]):
            cid += 1
            cases.append(Case(f"ex{n}s-{cid}", [load] + vals + [op, "snap", "wf"], oracle="wf", meta={"sig": op.split()[0]}))
    return cases


def matches(known, v):
    return False
