"""C11 — VTK export and import preserve the mesh.

Tie: `vtkexp` (the piece written by to_vtk_ascii / to_vtk_binary, parsed back with vtkio by the
harness), `vtkimp` (CMapBuilder::from_vtk_file(..).build() on an ASCII and on a binary file holding
the requested data) and `vtkrt` (export then import) are compared between hcmodel and hcimpl, with
the full `snap` / `wf` of every produced map.

Oracles (Python, on the implementation's output only):
  * export: the `vtkexp` line equals an independent third reading of the export rule computed
    from `snap` (points = vertex ids in increasing order, Lines for 2-free edge ids, then one cell per
    face id following beta1), including the panic cases;
  * round trip: the canonical form of the mesh (multiset of vertex coordinates; faces as cyclic
    coordinate sequences normalised by rotation; glued pairs of directed sides; boundary sides) is the
    same before and after `vtkrt`, and the rebuilt map is well formed;
  * import of a conforming list: `ok`, `wf true true true`, dart `d0_j + i` is corner i of cell j
    (beta1 cycle, coordinates), beta2 pairs exactly the sides traversed in opposite directions,
    vertices = classes of corners identified through glued sides;
  * non-conforming / malformed data: correspondence only, plus "a returned map is well formed".
"""
import random
from fractions import Fraction as Fr

import cmapgen as cg
import gens
import hv
import kern2 as k2
from hv import Case

SPEC = {
    "lean_modules": ["Honeycomb.Props.C11", "Honeycomb.Props.C11b", "Honeycomb.Props.C11c", "Honeycomb.Props.C11d", "Honeycomb.Props.C11e",
                     "Honeycomb.Props.C11f"],
    "required_theorems": [
        "C11_import_ok_WF", "C11_importLegacy_ok_WF", "C11_roundTrip_ok_WF", "C11_buildCells_structure",
        "C11_import_faces_and_gluing", "C11_import_gluing_complete",
        "C11_sew_keeps_equal_coordinates", "C11_export_points", "C11_export_cells", "C11_export_walk",
        "C11_export_walk_closed", "C11_export_pointOf", "C11_crack_is_sewn",
        "C11_import_conforming_ok", "C11_export_ok", "C11_roundTrip_faces", "C11_roundTrip_adjacency",
        "C11_roundTrip_bijection", "C11_roundTrip_iso", "C11_grid2_exportable", "C11_grid2_noCrack",
        "C11_grid_round_trip", "C11_split2_exportable", "C11_split2_noCrack", "C11_split_round_trip",
        "C11_fan_local_faces", "C11_fan_boundary", "C11_fan_exportable", "C11_insert_vertex_local_faces",
        "C11_insert_vertex_boundary", "C11_ascii_tokens_parse", "C11_asciiTokens_export",
    ],
    "trusted_base": [
        "Lean 4.33 kernel; axioms propext, Classical.choice, Quot.sound only",
        "hand-written data-level model Honeycomb/Model/Vtk.lean (exportPiece, importLegacy/importCells, sewLoop) tied to "
        "/repo by the hcmodel/hcimpl correspondence run (`vtkexp`, `vtkimp`, `vtkrt`, `snap`, `wf`)",
        "vtkio 0.7.0-rc2: the BINARY writer and the reader (both formats) are OUTSIDE the model: the harness checks on every "
        "case that the ASCII and the binary path carry the same piece / build the same map. The ASCII WRITER is modelled at "
        "token level (Honeycomb/Model/VtkText.lean renderTokens, tied by the `vtkascii` stream to the tokenised real output "
        "of to_vtk_ascii) and proved to be read back as the piece by a specification-level token reader "
        "(C11_ascii_tokens_parse); blanks, line breaks and the decimal printing/parsing of floats stay trusted",
        "Rust harness /verif/harness/hcimpl/src/vtk.rs and tools/props/c11.py (independent Python reading of the export rule, "
        "canonical form of a mesh, expected result of a conforming import)",
    ],
    "assumptions": [
        "coordinates are exact rationals in the model; the two-sided streams use dyadic values (also 53-bit mantissas) for "
        "which the f64 text/binary round trip of vtkio and the averages (a+a)/2 of the 2-sews are exact; f32 maps are "
        "exercised on the implementation only (vtkexp32 / vtkrt32 / vtkimpv) with coordinates exact in f32",
        "files that vtkio itself cannot read back (reply `vtkio-parse-error`) are outside the model; none occurs in the streams",
        "fewer than 2^32 darts and points (u32 casts of the exporter are not modelled)",
    ],
    "rule": "grids and split grids of every size <= 4x4 (quick) / 8x8 (thorough) x 3 geometries; polygons with 3..12 sides (both "
            "orientations); 2 and 3 polygons sharing sides; grids triangulated by fan / earclip with hanging nodes inserted by "
            "insert_vertex_on_edge; random planar conforming cell lists (lattice quads / triangles / merged polygons, shuffled "
            "point numbering, unused points, Vertex/Line cells, rotated cells); random abstract conforming lists (every "
            "directed side at most once, between points of distinct coordinates); non-conforming lists (a side twice in the same "
            "direction, three cells on a side, degenerate cells, repeated points, 0/1/2-gons, out-of-range indices, "
            "unsupported types, wrong lengths, num_cells / CELL_TYPES mismatches); random well-formed maps with removed, "
            "isolated darts and open faces (export panics / partial polygons); the excluded points of DESIGN par.7 (cracks, "
            "partially glued pillow, repeated directed vertex pair); wide 53-bit coordinates; conforming meshes at tiny and huge "
            "scales (coordinates k/2^34 and k*2^30 in f64, k/2^14 and k*2^30 in f32: squared side lengths far below machine "
            "epsilon / far above 1) which must behave exactly as at unit scale; f32 (implementation only). "
            "distinct_nontrivial = distinct implementation transcripts.",
    "not_proved": [
        "clause that is FALSE on the current tree: known finding C11-crack (two 2-free darts between the same two vertices in opposite "
        "directions are sewn by the round trip; C11_crack_is_sewn proves it of the model)",],   # filled below
}

SPEC["not_proved"] = [
    "floating point: every theorem is over exact rationals ((a+a)/2 = a, exact orientation test); the f64 / f32 behaviour "
    "(exact averages of equal values, the orientation test at tiny and huge scales) is validated by the tie, not proved",
    "vtkio's BINARY writer and its reader (both formats), the blanks / line structure of the ASCII text and float decimal "
    "printing/parsing are outside the model (ASCII writer: token-level model + C11_ascii_tokens_parse; checked on the "
    "implementation: ASCII = binary on every case, wide-coordinate stream)",
    "grids: C11_grid_round_trip / C11_split_round_trip are PROVED for every nx, ny >= 1 and non-zero cell lengths (full "
    "isomorphism: faces, adjacency, boundary, coordinates). Polygons: a single closed polygon is an instance of "
    "C11_roundTrip_iso once its Exportable conditions (distinct consecutive corners, no repeated ordered pair) are given.",
    "triangulated / refined meshes: after fan (C11_fan_local_faces, C11_fan_boundary, C11_fan_exportable) and after "
    "insert_vertex_on_edge (C11_insert_vertex_local_faces, C11_insert_vertex_boundary) the TOPOLOGICAL hypotheses (closed "
    "faces with >= 3 sides, same boundary) are proved; the POSITIONAL ones (no two darts with the same ordered pair of "
    "positions, different positions at the ends of a side, no crack) are hypotheses of C11_fan_exportable / "
    "exportable_of_pos: they hold when the new diagonals / the new point do not coincide with existing edges / vertices "
    "(star-shaped polygon of an embedded mesh; a point strictly inside an edge) - geometry, NOT proved; ear clipping and "
    "the k-vertex kernel insert_vertices_on_edge are not treated; swap/cut/collapse kernels are not in the harness",
    "export of maps OUTSIDE `Exportable` (open faces, faces with <= 2 darts, isolated darts): only the general shape "
    "theorems C11_export_points / _cells / _walk apply; the panic conditions are tied by the correspondence run only",
]


# ---------------------------------------------------------------------------------------------
# formatting
# ---------------------------------------------------------------------------------------------

def rs(q):
    q = Fr(q)
    return str(q.numerator) if q.denominator == 1 else f"{q.numerator}/{q.denominator}"


def data_str(pts, cells, num_cells=None, types=None):
    """pts: list of (x, y, z); cells: list of (type, [vids])"""
    p = " ".join(f"{rs(x)} {rs(y)} {rs(z)}" for (x, y, z) in pts)
    verts = " ".join(" ".join([str(len(v))] + [str(i) for i in v]) for (_, v) in cells)
    ts = " ".join(str(t) for (t, _) in cells) if types is None else " ".join(map(str, types))
    nc = len(cells) if num_cells is None else num_cells
    return f"{p} ; {nc} ; {verts} ; {ts}"


def imp_line(mask, pts, cells, **kw):
    return f"vtkimp {mask} " + data_str(pts, cells, **kw)


def grid_line(split, ox, oy, nx, ny, lx, ly, mask=0):
    return f"grid 2 {split} {mask} ncl {rs(ox)} {rs(oy)} {nx} {ny} {rs(lx)} {rs(ly)}"


# ---------------------------------------------------------------------------------------------
# independent reading of a snapshot: cells, export rule, canonical form
# ---------------------------------------------------------------------------------------------

def vid_table(s):
    """dart -> vertex id, for every in-use dart of a well-formed snapshot"""
    tab = {}
    for d in range(1, s.n):
        if s.u[d] or d in tab:
            continue
        orb = k2.vertex_orbit(s.b, d)
        m = min(orb)
        for x in orb:
            tab[x] = m
    return tab


def predict_export(s):
    """the `vtkexp` reply expected from a snapshot (third reading of build_unstructured_piece)"""
    b, n = s.b, s.n
    inuse = [d for d in range(1, n) if not s.u[d]]
    vt = vid_table(s)
    vids = sorted(set(vt[d] for d in inuse))
    idx = {v: i for i, v in enumerate(vids)}
    pts = []
    for v in vids:
        if s.a0[v] is None:
            return "panic"
        pts.append(s.a0[v])
    cells = []
    for d in inuse:
        if b[2][d] != 0:
            continue          # edge id = min(d, beta2 d); the filter keeps ids whose dart is 2-free
        nd = b[1][d]
        if nd == 0:
            return "panic"    # id_map[&vertex_id(0)]
        cells.append((3, [idx[vt[d]], idx[vt[nd]]]))
    seen = set()
    for d in inuse:
        if d in seen:
            continue
        # face orbit (beta1 / beta0 closure); d is its smallest dart = the face id
        orb, todo = {d}, [d]
        while todo:
            x = todo.pop()
            for y in (b[1][x], b[0][x]):
                if y != 0 and y not in orb:
                    orb.add(y)
                    todo.append(y)
        seen |= orb
        walk, x = [d], b[1][d]
        while x != 0 and x != d:
            walk.append(x)
            x = b[1][x]
        if len(walk) <= 2:
            continue
        ty = 5 if len(walk) == 3 else 9 if len(walk) == 4 else 7
        cells.append((ty, [idx[vt[x]] for x in walk]))
    return "ok " + data_str([(x, y, 0) for (x, y) in pts], cells)


def rot_min(seq):
    k = min(range(len(seq)), key=lambda i: seq[i:] + seq[:i])
    return tuple(seq[k:] + seq[:k])


def canon(s):
    """canonical form of the mesh held by a snapshot: None when a coordinate is missing or a face is open"""
    closed, opened = k2.all_faces(s)
    if opened:
        return None
    vt = vid_table(s)
    co = {}
    for d, v in vt.items():
        if s.a0[v] is None:
            return None
        co[d] = s.a0[v]
    side = {}
    faces = []
    for cyc in closed:
        pts = [co[d] for d in cyc]
        can = rot_min(pts)
        faces.append(can)
        for i, d in enumerate(cyc):
            side[d] = (can, pts[i], pts[(i + 1) % len(pts)])
    verts = sorted(s.a0[v] for v in set(vt.values()))
    adj = sorted(tuple(sorted([side[d], side[s.b[2][d]]])) for d in side if s.b[2][d] > d)
    bnd = sorted(side[d] for d in side if s.b[2][d] == 0)
    return {"faces": sorted(faces), "verts": verts, "adj": adj, "boundary": bnd}


def canon_diff(a, b):
    for k in ("verts", "faces", "adj", "boundary"):
        if a[k] != b[k]:
            return k
    return None


def expected_import(pts, cells):
    """expected map of a CONFORMING cell list: (n, b1, b2, corner coordinates per dart, vertex multiset)"""
    darts = [(0, 0)]
    first = {}
    for j, (t, v) in enumerate(cells):
        if t in (1, 3):
            continue
        first[j] = len(darts)
        for i in range(len(v)):
            darts.append((j, i))
    n = len(darts)
    b1, b2 = [0] * n, [0] * n
    sidemap = {}
    co = [None] * n
    for d in range(1, n):
        j, i = darts[d]
        v = cells[j][1]
        k = len(v)
        b1[d] = first[j] + (i + 1) % k
        sidemap[(v[i], v[(i + 1) % k])] = d
        co[d] = (Fr(pts[v[i]][0]), Fr(pts[v[i]][1]))
    for (a, b), d in sidemap.items():
        e = sidemap.get((b, a))
        if e is not None and e != d:
            b2[d] = e
    # vertices: classes of corners under d ~ beta1(beta2 d)
    parent = list(range(n))

    def find(x):
        while parent[x] != x:
            parent[x] = parent[parent[x]]
            x = parent[x]
        return x

    for d in range(1, n):
        if b2[d]:
            a, c = find(d), find(b1[b2[d]])
            if a != c:
                parent[a] = c
    verts = sorted(co[r] for r in set(find(d) for d in range(1, n)))
    return n, b1, b2, co, verts


# ---------------------------------------------------------------------------------------------
# oracles
# ---------------------------------------------------------------------------------------------

def snap_of(line):
    try:
        return k2.Snap(line)
    except Exception:
        return None


def oracle(case, li):
    if any(ln.startswith("<missing") for ln in li):
        return li[0]
    if len(li) != len(case.lines):
        return f"{len(li)} output lines for {len(case.lines)} input lines"
    for ln in li:
        if ln.startswith("mismatch") or ln.startswith("vtkio-") or ln == "wrong-buffer-type":
            return f"ASCII and binary paths disagree / vtkio failure: {ln[:200]}"
    kind = case.oracle
    out = dict(zip(case.meta.get("tags", []), li[len(li) - len(case.meta.get("tags", [])):]))
    if kind == "rt":
        # tags: snap0 exp0 rt snap1 wf1 exp1
        s0 = snap_of(out["snap0"])
        if s0 is None:
            return f"no snapshot before the round trip: {out['snap0'][:80]}"
        want = predict_export(s0)
        if out["exp0"] != want:
            return f"export differs from the export rule: got {out['exp0'][:160]!r} expected {want[:160]!r}"
        c0 = canon(s0)
        if c0 is None:
            return "generator error: the source map is outside the property (open face / missing coordinate)"
        if out["rt"] != "ok 0":
            return f"round trip of a closed mesh does not succeed: {out['rt']}"
        if out["wf1"] != "wf true true true":
            return f"re-imported map is not well formed: {out['wf1']}"
        s1 = snap_of(out["snap1"])
        c1 = canon(s1) if s1 else None
        if c1 is None:
            return "re-imported map has an open face or a missing coordinate"
        df = canon_diff(c0, c1)
        if df:
            extra = ""
            if df in ("adj", "boundary"):
                extra = f" ({len(c0['adj'])} glued sides and {len(c0['boundary'])} boundary sides before, " \
                        f"{len(c1['adj'])} and {len(c1['boundary'])} after)"
            return f"round trip changes the mesh: {df} differ{extra}"
        if case.meta.get("exp32") and out.get("exp32") != out["exp0"]:
            return f"f32 export differs from f64 export: {out.get('exp32', '')[:120]!r}"
        return None
    if kind == "rt32":
        # tags: snap0 exp0 exp32 rt32 snap1 wf1
        s0 = snap_of(out["snap0"])
        c0 = canon(s0) if s0 else None
        if c0 is None:
            return "generator error: bad source map"
        if out["exp32"] != out["exp0"]:
            return f"f32 export differs from the f64 export: {out['exp32'][:120]!r} vs {out['exp0'][:120]!r}"
        if out["exp0"] != predict_export(s0):
            return "export differs from the export rule"
        if out["rt32"] != "ok 0" or out["wf1"] != "wf true true true":
            return f"f32 round trip fails: {out['rt32']} {out['wf1']}"
        s1 = snap_of(out["snap1"])
        c1 = canon(s1) if s1 else None
        if c1 is None:
            return "f32 re-imported map is not a closed mesh"
        df = canon_diff(c0, c1)
        return f"f32 round trip changes the mesh: {df} differ" if df else None
    if kind == "imp":
        # tags: imp snap wf exp
        pts, cells = case.meta["pts"], case.meta["cells"]
        if out["imp"] != "ok 0":
            return f"conforming cell list is not imported: {out['imp']}"
        if out["wf"] != "wf true true true":
            return f"imported map is not well formed: {out['wf']}"
        s = snap_of(out["snap"])
        if s is None:
            return "no snapshot"
        n, b1, b2, co, verts = expected_import(pts, cells)
        if s.n != n:
            return f"{s.n - 1} darts instead of one per cell corner ({n - 1})"
        if s.b[1] != b1:
            return "beta1 is not one cycle of consecutive darts per cell"
        if s.b[2] != b2:
            bad = [d for d in range(n) if s.b[2][d] != b2[d]][:4]
            return f"beta2 does not pair exactly the sides traversed in opposite directions (darts {bad})"
        for d in range(1, n):
            if k2.coord(s, d) != co[d]:
                return f"corner dart {d} has coordinates {k2.coord(s, d)} instead of its cell point {co[d]}"
        vt = vid_table(s)
        got = sorted(s.a0[v] for v in set(vt.values()))
        if got != verts:
            return "vertex multiset differs from the classes of glued corners"
        want = predict_export(s)
        if out["exp"] != want:
            return f"export of the imported map differs from the export rule: {out['exp'][:120]!r}"
        return None
    if kind == "imp32":
        # implementation only: tags imp64 snap64 impA snapA impB snapB impC snapC  (all must equal the f64 result)
        ref = (out["imp64"], out["snap64"])
        for k in ("A", "B", "C"):
            if (out["imp" + k], out["snap" + k]) != ref:
                return f"import variant {k} (f32 map and/or f32 point buffer) differs from the f64 import: {out['imp' + k]}"
        return None
    if kind == "loose":
        # correspondence only; every map that is returned must be well formed; export must follow the rule
        for i, ln in enumerate(case.lines):
            if ln == "wf" and li[i] != "wf true true true" and i > 0 and li[i - 1].startswith("snap"):
                prev = [x for x in li[:i] if x.startswith("ok") or x.startswith("err") or x == "panic"]
                if case.meta.get("wf_required", True):
                    return f"a non well-formed map is returned: {li[i]} after {prev[-1] if prev else '?'}"
        for i, ln in enumerate(case.lines):
            if ln == "vtkexp" and i > 0 and li[i - 1].startswith("snap n="):
                s = snap_of(li[i - 1])
                if s is not None and cg.snap_wf_failure(cg.parse_snap(li[i - 1])) is None:
                    want = predict_export(s)
                    if li[i] != want:
                        return f"export differs from the export rule: got {li[i][:160]!r} expected {want[:160]!r}"
        return None
    if kind == "ascii":
        exp, asc = li[-2], li[-1]
        if exp == "panic" or asc == "panic":
            return None if exp == asc else f"export and ASCII text disagree on panicking: {exp[:40]!r} / {asc[:40]!r}"
        if not exp.startswith("ok ") or not asc.startswith("ok "):
            return f"unexpected replies {exp[:60]!r} / {asc[:60]!r}"
        got = parse_ascii_tokens(asc[3:].split())
        if got != exp[3:].strip() and got.strip() != exp[3:].strip():
            return f"the ASCII tokens do not denote the exported piece: {got[:160]!r} vs {exp[3:163]!r}"
        return None
    if kind == "observe":
        return None
    return None


# ---------------------------------------------------------------------------------------------
# sources of closed meshes
# ---------------------------------------------------------------------------------------------

RT_TAIL = ["snap", "vtkexp", "vtkrt", "snap", "wf", "vtkexp"]
RT_TAGS = ["snap0", "exp0", "rt", "snap1", "wf1", "exp1"]


def rt_case(cid, pre, sig, oracle_name="rt"):
    return Case(cid, pre + RT_TAIL, oracle=oracle_name, meta={"sig": sig, "tags": RT_TAGS})


GEOMS = [(0, 0, 1, 1), (Fr(-3, 2), Fr(5, 4), Fr(1, 2), Fr(3, 4)), (7, -2, 3, Fr(1, 8))]


def grid_cases(nmax, geoms=GEOMS):
    cases = []
    for split in (0, 1):
        for nx in range(1, nmax + 1):
            for ny in range(1, nmax + 1):
                for g, (ox, oy, lx, ly) in enumerate(geoms):
                    cases.append(rt_case(f"grid{split}-{nx}x{ny}-g{g}", [grid_line(split, ox, oy, nx, ny, lx, ly)],
                                         "split grid" if split else "grid"))
    return cases


def polygon_points(rng, k, ccw=True):
    """k distinct points in convex position on a dyadic 'circle' (octagon-like), general enough for a mesh"""
    import math
    r = rng.choice([4, 8, 16])
    cx, cy = Fr(rng.randint(-8, 8), 2), Fr(rng.randint(-8, 8), 2)
    pts = []
    for i in range(k):
        a = 2 * math.pi * i / k
        x = Fr(round(r * math.cos(a) * 16), 16)
        y = Fr(round(r * math.sin(a) * 16), 16)
        pts.append((cx + x, cy + y))
    assert len(set(pts)) == k
    return pts if ccw else pts[::-1]


class Builder:
    """builds a 2-map through the protocol: faces as beta1 cycles with coordinates, glued by fsew 2"""

    def __init__(self):
        self.b0, self.b1 = [0], [0]
        self.co = [None]
        self.sews = []

    def face(self, pts):
        d0 = len(self.b1)
        k = len(pts)
        for i in range(k):
            self.b1.append(d0 + (i + 1) % k)
            self.b0.append(d0 + (i - 1) % k)
            self.co.append(pts[i])
        return list(range(d0, d0 + k))

    def sew(self, d, e):
        self.sews.append((d, e))

    def scale(self, f):
        self.co = [None if c is None else (c[0] * f, c[1] * f) for c in self.co]
        return self

    def lines(self, auto=True):
        n = len(self.b1) - 1
        if auto:
            # glue every pair of darts running between the same two points in opposite directions
            side = {}
            for d in range(1, n + 1):
                side.setdefault((self.co[d], self.co[self.b1[d]]), []).append(d)
            done = set()
            for (p, q), ds in sorted(side.items(), key=lambda kv: kv[1]):
                for d in ds:
                    for e in side.get((q, p), []):
                        if d not in done and e not in done and d != e:
                            self.sews.append((d, e))
                            done |= {d, e}
        out = [gens.load_line(2, n, 0, [self.b0, self.b1, [0] * (n + 1)], [0] * (n + 1))]
        for d in range(1, n + 1):
            out.append(f"wv {d} {rs(self.co[d][0])} {rs(self.co[d][1])}")
        for d, e in self.sews:
            out.append(f"fsew 2 {d} {e}")
        return out


def polygon_cases(rng, reps):
    cases = []
    for k in range(3, 13):
        for r in range(reps):
            for ccw in (True, False):
                b = Builder()
                b.face(polygon_points(rng, k, ccw))
                cases.append(rt_case(f"poly{k}-{r}-{'ccw' if ccw else 'cw'}", b.lines(), "polygon"))
    return cases


def fan_of_polygons(rng, nfaces):
    """polygons around a common hub point: consecutive ones share a side (hub, rim_i)"""
    hub = (Fr(0), Fr(0))
    m = rng.randint(max(3, nfaces), 8)            # rim directions
    rim = polygon_points(rng, m)
    rim = [(x - rim[0][0] + 16, y - rim[0][1]) for (x, y) in rim]  # any distinct points do
    b = Builder()
    for f in range(nfaces):
        extra = rng.choice([0, 1, 3])                 # dyadic subdivision only
        a, c = rim[f % m], rim[(f + 1) % m]
        mids = [(a[0] + (c[0] - a[0]) * Fr(t + 1, extra + 1) + Fr(f + 1, 64), a[1] + (c[1] - a[1]) * Fr(t + 1, extra + 1) + Fr(t + 1, 32))
                for t in range(extra)]
        b.face([hub, a] + mids + [c])
    return b


def shared_cases(rng, reps):
    cases = []
    for nf in (2, 3):
        for r in range(reps):
            b = fan_of_polygons(rng, nf)
            cases.append(rt_case(f"shared{nf}-{r}", b.lines(), f"{nf} polygons sharing sides"))
    # strips: k polygons in a row sharing full sides
    for r in range(reps):
        b = Builder()
        k = rng.randint(2, 3)
        for i in range(k):
            x0, x1 = Fr(2 * i), Fr(2 * i + 2)
            top = [(x1 - Fr(t + 1, 4), Fr(2) + Fr(t % 2, 2)) for t in range(rng.randint(0, 3))]
            b.face([(x0, Fr(0)), (x1, Fr(0)), (x1, Fr(2))] + top + [(x0, Fr(2))])
        cases.append(rt_case(f"strip{k}-{r}", b.lines(), "polygons in a strip"))
    return cases


def triangulated_cases(rng, count, nmax=3):
    """grids whose faces are cut by fan / earclip, with hanging nodes inserted on edges"""
    cases = []
    for c in range(count):
        nx, ny = rng.randint(1, nmax), rng.randint(1, nmax)
        ox, oy, lx, ly = rng.choice(GEOMS)
        pre = [grid_line(0, ox, oy, nx, ny, lx, ly)]
        n = 4 * nx * ny + 1
        for f in range(nx * ny):
            fd = 4 * f + 1
            r = rng.random()
            if r < 0.4:
                pre += ["add 2", f"fan {fd} 2 {n} {n + 1}", f"rm {n}", f"rm {n + 1}"]
                n += 2
            elif r < 0.8:
                pre += ["add 2", f"earclip ccw {fd} 2 {n} {n + 1}", f"rm {n}", f"rm {n + 1}"]
                n += 2
        for _ in range(rng.randint(0, 3)):
            e = rng.randint(1, 4 * nx * ny)
            t = rng.choice(["1/2", "1/4", "3/4"])
            # spare darts that the kernel did not use (boundary edge, refusal) are removed again
            pre += ["add 2", f"insv {e} {n} {n + 1} {t}", f"rm {n}", f"rm {n + 1}"]
            n += 2
        cases.append(rt_case(f"tri{c}", pre, "triangulated grid with hanging nodes"))
    return cases


def wide_cases(rng, count):
    """53-bit mantissas: the ASCII text must carry every bit"""
    cases = []
    for c in range(count):
        k = rng.randint(3, 6)
        seen, pts = set(), []
        while len(pts) < k:
            p = tuple(Fr((rng.getrandbits(53) | 1) * rng.choice([1, -1]), 2 ** rng.randint(30, 59)) for _ in range(2))
            if p not in seen:
                seen.add(p)
                pts.append(p)
        b = Builder()
        b.face(pts)
        cases.append(rt_case(f"wide{c}", b.lines(), "wide coordinates"))
    return cases


# ---------------------------------------------------------------------------------------------
# cell lists
# ---------------------------------------------------------------------------------------------

def lattice_mesh(rng, w, h):
    """planar conforming mesh over a (w+1)x(h+1) lattice: quads, triangle pairs, single triangles,
    L-shaped hexagons; all counter-clockwise (or all clockwise)"""
    def p(i, j):
        return i * (h + 1) + j
    pts = [(Fr(i) + Fr(rng.randint(0, 3), 16), Fr(j) + Fr(rng.randint(0, 3), 16), Fr(rng.randint(-2, 2), 2))
           for i in range(w + 1) for j in range(h + 1)]
    cells, used = [], set()
    for i in range(w):
        for j in range(h):
            if (i, j) in used:
                continue
            a, b, c, d = p(i, j), p(i + 1, j), p(i + 1, j + 1), p(i, j + 1)
            r = rng.random()
            if r < 0.12:
                continue
            if r < 0.2 and i + 1 < w and j + 1 < h and not {(i + 1, j), (i, j + 1)} & used:
                # L-shaped hexagon over three squares
                used |= {(i + 1, j), (i, j + 1)}
                cells.append([a, b, p(i + 2, j), p(i + 2, j + 1), c, p(i + 1, j + 2), p(i, j + 2), d])
            elif r < 0.5:
                cells.append([a, b, c, d])
            elif r < 0.7:
                cells += [[a, b, c], [a, c, d]]
            elif r < 0.9:
                cells += [[a, b, d], [b, c, d]]
            else:
                cells.append(rng.choice([[a, b, c], [a, c, d], [a, b, d], [b, c, d]]))
    if rng.random() < 0.3:
        cells = [c[::-1] for c in cells]
    return pts, cells


def dress(rng, pts, cells, extras=True):
    """shuffle the point numbering, add unused points, rotate cells, choose cell types, add Vertex / Line cells"""
    np_ = len(pts)
    extra = rng.randint(0, 3) if extras else 0
    perm = list(range(np_ + extra))
    rng.shuffle(perm)
    new_pts = [None] * (np_ + extra)
    for i in range(np_):
        new_pts[perm[i]] = pts[i]
    for i in range(np_, np_ + extra):
        new_pts[perm[i]] = (Fr(100 + i), Fr(rng.randint(0, 9)), Fr(0))
    out = []
    cells = cells[:]
    rng.shuffle(cells)
    for c in cells:
        k = rng.randrange(len(c))
        v = [perm[x] for x in c[k:] + c[:k]]
        t = 7
        if len(v) == 3 and rng.random() < 0.7:
            t = 5
        if len(v) == 4 and rng.random() < 0.7:
            t = 9
        out.append((t, v))
        if extras and rng.random() < 0.15:
            out.append((1, [rng.randrange(np_ + extra)]))
        if extras and rng.random() < 0.15:
            out.append((3, [rng.randrange(np_ + extra), rng.randrange(np_ + extra)]))
    return new_pts, out


def abstract_conforming(rng, npts, ncells):
    """every directed side at most once, between points with distinct coordinates; no planarity"""
    pts, seen = [], set()
    while len(pts) < npts:
        q = (Fr(rng.randint(-8, 8), 2), Fr(rng.randint(-8, 8), 2))
        if q not in seen:
            seen.add(q)
            pts.append(q + (Fr(rng.randint(0, 1)),))
    used, cells = set(), []
    for _ in range(ncells * 4):
        if len(cells) >= ncells:
            break
        k = rng.randint(3, 6)
        v = [rng.randrange(npts)]
        while len(v) < k:
            x = rng.randrange(npts)
            if x != v[-1]:
                v.append(x)
        if v[-1] == v[0]:
            continue
        sides = [(v[i], v[(i + 1) % k]) for i in range(k)]
        if len(set(sides)) < k or any(sd in used for sd in sides):
            continue
        # prefer gluing: reuse an opposite side of an existing cell when possible
        used |= set(sides)
        cells.append(v)
    return pts, cells


def conforming_cases(rng, count, wmax=3):
    cases = []
    for c in range(count):
        if c % 3 != 2:
            pts, cells = lattice_mesh(rng, rng.randint(1, wmax), rng.randint(1, wmax))
            sig = "conforming planar list"
        else:
            pts, cells = abstract_conforming(rng, rng.randint(3, 7), rng.randint(1, 8))
            # seed opposite sides so that gluing happens
            sig = "conforming abstract list"
        pts, tc = dress(rng, pts, cells)
        mask = rng.choice([0, 0, 7, 23])
        lines = ["new 2 0 0", imp_line(mask, pts, tc), "snap", "wf", "vtkexp"]
        cases.append(Case(f"conf{c}", lines, oracle="imp",
                          meta={"sig": sig, "tags": ["imp", "snap", "wf", "exp"], "pts": pts, "cells": tc}))
        # and the round trip of the imported mesh (closed faces >= 3 sides by construction)
        if any(t not in (1, 3) for t, _ in tc):
            cases.append(rt_case(f"conf{c}-rt", [imp_line(0, pts, tc)], sig + " (round trip)"))
    return cases


def glued_abstract_cases(rng, count):
    """abstract lists built by repeatedly attaching a new cell to a free side (more gluing, odd vertex fans)"""
    cases = []
    for c in range(count):
        npts = rng.randint(4, 8)
        pts, seen = [], set()
        while len(pts) < npts:
            q = (Fr(rng.randint(-8, 8), 2), Fr(rng.randint(-8, 8), 2))
            if q not in seen:
                seen.add(q)
                pts.append(q + (Fr(0),))
        used, cells = set(), []
        for _ in range(rng.randint(2, 9)):
            free = [(b, a) for (a, b) in used if (b, a) not in used]
            if free and rng.random() < 0.85:
                a, b = rng.choice(free)
            else:
                a, b = rng.sample(range(npts), 2)
            k = rng.randint(3, 5)
            v = [a, b]
            ok = True
            while len(v) < k:
                cand = [x for x in range(npts) if x != v[-1]]
                v.append(rng.choice(cand))
            if v[-1] == v[0]:
                continue
            sides = [(v[i], v[(i + 1) % k]) for i in range(k)]
            if len(set(sides)) < k or any(sd in used for sd in sides):
                ok = False
            if ok:
                used |= set(sides)
                cells.append(v)
        if not cells:
            continue
        pts2, tc = dress(rng, pts, cells, extras=False)
        lines = ["new 2 0 0", imp_line(0, pts2, tc), "snap", "wf", "vtkexp"]
        cases.append(Case(f"glued{c}", lines, oracle="imp",
                          meta={"sig": "conforming abstract list (grown by gluing)", "tags": ["imp", "snap", "wf", "exp"],
                                "pts": pts2, "cells": tc}))
    return cases


ALL_TYPES = [1, 2, 3, 4, 5, 6, 7, 8, 9, 10, 11, 12, 13, 14, 21, 22, 23, 28, 41, 42]


def nonconforming_cases(rng, count):
    cases = []
    for c in range(count):
        pts, cells = lattice_mesh(rng, rng.randint(1, 2), rng.randint(1, 2))
        pts, tc = dress(rng, pts, cells)
        tc = [list(x) for x in tc]
        if not tc:
            tc = [[5, [0, 1, 2]]]
        np_ = len(pts)
        kw = {}
        mut = rng.choice(["dup-same-dir", "three-on-side", "degenerate", "repeated-point", "small-gon", "out-of-range",
                          "bad-type", "bad-length", "numcells", "types-len", "flip-one", "empty", "same-coords-glued"])
        j = rng.randrange(len(tc))
        polys = [x for x in tc if x[0] in (5, 7, 9)]
        if mut == "dup-same-dir" and polys:
            src = rng.choice(polys)
            tc.insert(rng.randrange(len(tc) + 1), [7, src[1][:]])
        elif mut == "three-on-side" and polys:
            src = rng.choice(polys)[1]
            a, b = src[0], src[1]
            for _ in range(2):
                o = rng.randrange(np_)
                tc.insert(rng.randrange(len(tc) + 1), [5, [b, a, o]])
        elif mut == "degenerate" and polys:
            v = rng.choice(polys)[1]
            i = rng.randrange(len(v))
            v[i] = v[(i + 1) % len(v)] if rng.random() < 0.5 else v[(i + 2) % len(v)]
        elif mut == "repeated-point":
            # two indices with the same coordinates
            a, b = rng.sample(range(np_), 2) if np_ >= 2 else (0, 0)
            pts[a] = pts[b]
        elif mut == "same-coords-glued" and polys:
            # a side between two points with EQUAL coordinates, traversed by two cells in opposite directions
            v = rng.choice(polys)[1]
            a, b = v[0], v[1]
            if a != b:
                pts[a] = pts[b]
                o = rng.randrange(np_)
                tc.append([5, [b, a, o]])
        elif mut == "small-gon":
            k = rng.randint(0, 2)
            tc.insert(rng.randrange(len(tc) + 1), [7, [rng.randrange(np_) for _ in range(k)]])
        elif mut == "out-of-range":
            v = tc[j][1]
            if v:
                v[rng.randrange(len(v))] = np_ + rng.randint(0, 2)
        elif mut == "bad-type":
            tc[j][0] = rng.choice(ALL_TYPES)
        elif mut == "bad-length":
            tc[j][0] = rng.choice([1, 3, 5, 9])
            k = rng.choice([0, 1, 2, 3, 4, 5])
            tc[j][1] = [rng.randrange(np_) for _ in range(k)]
        elif mut == "numcells":
            total = sum(1 + len(v) for _, v in tc)
            kw["num_cells"] = max(0, min(total, len(tc) + rng.choice([-1, 1, 2])))
            if rng.random() < 0.5:
                # keep CELL_TYPES consistent with the announced count: the assert on the component count fires
                ts = [t for t, _ in tc]
                nc = kw["num_cells"]
                kw["types"] = (ts + [7] * nc)[:nc]
        elif mut == "types-len":
            ts = [t for t, _ in tc]
            kw["types"] = ts[:-1] if rng.random() < 0.5 else ts + [rng.choice([5, 7, 9])]
        elif mut == "flip-one" and polys:
            v = rng.choice(polys)[1]
            v.reverse()
        elif mut == "empty":
            tc = []
            if rng.random() < 0.5:
                pts = []
        cells2 = [(t, v) for t, v in tc]
        mask = rng.choice([0, 0, 7])
        lines = ["new 2 0 0", imp_line(mask, pts, cells2, **kw), "snap", "wf", "vtkexp", "vtkrt", "snap", "wf"]
        cases.append(Case(f"nonconf{c}-{mut}", lines, oracle="loose", meta={"sig": "non-conforming list: " + mut}))
    return cases


def raw_legacy_cases(rng, count):
    """arbitrary legacy data: random counts in the flat list (incomplete last cell, zero counts, …)"""
    cases = []
    for c in range(count):
        np_ = rng.randint(1, 6)
        pts = [(Fr(rng.randint(-4, 4)), Fr(rng.randint(-4, 4)), Fr(0)) for _ in range(np_)]
        # mostly well-shaped flat lists (count, then that many indices), sometimes arbitrary numbers
        verts, ncomp = [], 0
        for _ in range(rng.randint(0, 5)):
            k = rng.choice([0, 1, 2, 3, 3, 3, 4, 4, 5])
            verts += [k] + [rng.randrange(np_ + (1 if rng.random() < 0.05 else 0)) for _ in range(k)]
            ncomp += 1
        r = rng.random()
        if r < 0.15 and verts:
            verts = verts[:rng.randrange(len(verts))]          # incomplete last cell
        elif r < 0.25:
            verts = [rng.randint(0, 4) for _ in range(rng.randint(0, 10))]
        if rng.random() < 0.2:
            ncomp = rng.randint(0, 5)
        ncomp = min(ncomp, len(verts))
        nt = ncomp if rng.random() < 0.8 else rng.randint(0, 5)
        types = [rng.choice([1, 3, 5, 7, 7, 7, 7, 9, rng.choice(ALL_TYPES)]) for _ in range(nt)]
        p = " ".join(f"{rs(x)} {rs(y)} {rs(z)}" for (x, y, z) in pts)
        line = f"vtkimp 0 {p} ; {ncomp} ; {' '.join(map(str, verts))} ; {' '.join(map(str, types))}"
        cases.append(Case(f"raw{c}", ["new 2 0 0", line, "snap", "wf", "vtkexp"], oracle="loose", meta={"sig": "raw legacy data"}))
    return cases


def export_general_cases(rng, count):
    """well-formed maps with removed darts, isolated darts, open faces, undefined vertices"""
    cases = []
    for c in range(count):
        n = rng.randint(1, 14)
        b0, b1, b2, u = cg.random_wf_map(rng, n, p1=rng.choice([0.5, 0.9, 1.0]), p2=rng.choice([0.3, 0.7, 1.0]),
                                         pu=rng.choice([0.0, 0.5, 1.0]))
        lines = [gens.load_line(2, n, 0, [b0, b1, b2], u)]
        pv = rng.choice([0.8, 1.0, 1.0])
        for d in range(1, n + 1):
            if rng.random() < pv:
                lines.append(f"wv {d} {gens.dy(rng)} {gens.dy(rng)}")
        lines += ["snap", "vtkexp", "vtkrt", "snap", "wf"]
        cases.append(Case(f"gen{c}", lines, oracle="loose", meta={"sig": "general well-formed map", "wf_required": True}))
    return cases


def exhaustive_export_cases(nmax, rng):
    cases, cid = [], 0
    for n in range(0, nmax + 1):
        for (b0, b1, b2, u) in gens.wf_maps2(n):
            cid += 1
            lines = [gens.load_line(2, n, 0, [b0, b1, b2], u)]
            for d in range(1, n + 1):
                if rng.random() < 0.95:
                    lines.append(f"wv {d} {gens.dy(rng)} {gens.dy(rng)}")
            lines += ["snap", "vtkexp", "vtkrt", "snap", "wf"]
            cases.append(Case(f"ex{n}-{cid}", lines, oracle="loose", meta={"sig": "exhaustive small maps"}))
    return cases


# ---------------------------------------------------------------------------------------------
# the excluded points of DESIGN par. 7 (C11)
# ---------------------------------------------------------------------------------------------

OUTSIDE = {
    "pillow-2-sides": "two coincident triangles of opposite orientation glued on two sides: overlapping faces, not an embedded mesh",
    "double-edge": "two vertices joined by two edges, four triangles: two darts with the same (origin, target) vertex pair; "
                   "not embeddable with straight sides",
}


def excluded_cases():
    cases = []
    A, B, C, D, E = (Fr(0), Fr(0)), (Fr(2), Fr(0)), (Fr(0), Fr(2)), (Fr(3), Fr(3)), (Fr(-3), Fr(-3))
    # (1) full pillow: two triangles glued on their three sides (every directed pair once): preserved
    b = Builder()
    b.face([A, B, C])
    b.face([A, C, B])
    cases.append(rt_case("pillow-3-sides", b.lines(), "excluded: closed pillow"))
    # (2) partially glued pillow: two sides glued, the third sides are free and opposite
    b = Builder()
    f1 = b.face([A, B, C])
    f2 = b.face([A, C, B])
    b.sew(f1[0], f2[2])   # A->B with B->A
    b.sew(f1[1], f2[1])   # B->C with C->B
    cases.append(rt_case("pillow-2-sides", b.lines(auto=False), "excluded: overlapping faces (not embedded)"))
    # (3) crack: a 3x3 grid whose central vertical interior edge is 2-unsewn (both end vertices stay whole)
    pre = [grid_line(0, 0, 0, 3, 3, 1, 1)]
    # cell (1,1) = darts 17..20 ; its right side is dart 18, glued with dart 24 of cell (2,1)
    cases.append(rt_case("crack-3x3", pre + ["funsew 2 18"], "crack"))
    # (4) two darts with the same (origin, target) vertex pair: A, B joined by two edges
    b = Builder()
    t1 = b.face([A, B, C])      # A->B (e1), B->C, C->A
    t2 = b.face([B, A, C])      # B->A (e2), A->C, C->B
    t3 = b.face([B, A, E])      # B->A twin of e1
    t4 = b.face([A, B, D])      # A->B twin of e2
    b.sew(t1[1], t2[2])
    b.sew(t1[2], t2[1])
    b.sew(t1[0], t3[0])
    b.sew(t2[0], t4[0])
    cases.append(rt_case("double-edge", b.lines(auto=False), "excluded: repeated directed vertex pair (not embeddable)"))
    return cases


def cracked_grid_cases(rng, count, nmax=4):
    """grids in which random edges have been 2-unsewn: a crack whose two end vertices stay whole is healed by
    the round trip (known finding C11-crack); a crack reaching the boundary splits its end vertex (two
    vertex ids, two exported points) and is preserved"""
    cases = []
    for c in range(count):
        split = rng.random() < 0.3
        nx, ny = rng.randint(2, nmax), rng.randint(2, nmax)
        ox, oy, lx, ly = rng.choice(GEOMS)
        nd = (6 if split else 4) * nx * ny
        pre = [grid_line(1 if split else 0, ox, oy, nx, ny, lx, ly)]
        for _ in range(rng.randint(1, 3)):
            pre.append(f"funsew 2 {rng.randint(1, nd)}")     # boundary darts answer an error: harmless
        cases.append(rt_case(f"crack{c}", pre, "cracked grid"))
    return cases


# ---------------------------------------------------------------------------------------------
# the ASCII text at token level (writer side)
# ---------------------------------------------------------------------------------------------

ASCII_HEADER = "# vtk DataFile Version 2.0 cmap ASCII DATASET UNSTRUCTURED_GRID".split()


def parse_ascii_tokens(toks):
    """independent reading of the legacy ASCII tokens: returns the data string of `vtkexp` or an error text"""
    if toks[:len(ASCII_HEADER)] != ASCII_HEADER:
        return "bad header: " + " ".join(toks[:10])
    r = toks[len(ASCII_HEADER):]
    try:
        if r[0] != "POINTS" or r[2] not in ("double", "float"):
            return "bad POINTS header"
        n = int(r[1])
        cs, r = r[3:3 + 3 * n], r[3 + 3 * n:]
        if r[0] != "CELLS":
            return "bad CELLS header"
        nc, size = int(r[1]), int(r[2])
        vs, r = r[3:3 + size], r[3 + size:]
        if r[0] != "CELL_TYPES":
            return "bad CELL_TYPES header"
        k = int(r[1])
        ts, r = r[2:2 + k], r[2 + k:]
        if r != ["POINT_DATA", str(n), "CELL_DATA", str(nc)]:
            return "bad tail: " + " ".join(r)
        if len(cs) != 3 * n or len(vs) != size or len(ts) != k:
            return "short data"
        [Fr(c) for c in cs], [int(v) for v in vs], [int(t) for t in ts]
    except (IndexError, ValueError) as ex:
        return f"malformed: {ex}"
    return f"{' '.join(cs)} ; {nc} ; {' '.join(vs)} ; {' '.join(ts)}"


def ascii_cases(rng, count):
    cases = []
    srcs = [c.lines[:-len(RT_TAIL)] for c in grid_cases(2) + polygon_cases(rng, 1) + shared_cases(rng, count)]
    for k, pre in enumerate(srcs):
        cases.append(Case(f"ascii{k}", pre + ["vtkexp", "vtkascii"], oracle="ascii", meta={"sig": "ascii tokens"}))
    for c in export_general_cases(rng, count * 5):
        cases.append(Case("ascii-" + c.cid, c.lines[:-5] + ["vtkexp", "vtkascii"], oracle="ascii", meta={"sig": "ascii tokens (general maps)"}))
    return cases


# ---------------------------------------------------------------------------------------------
# tiny and huge scales: the behaviour must not depend on the unit of length
# ---------------------------------------------------------------------------------------------

SCALES64 = [("tiny", Fr(1, 2 ** 34)), ("huge", Fr(2 ** 30))]     # side length^2 = 2^-68 (far below f64 epsilon) / 2^60
SCALES32 = [("tiny", Fr(1, 2 ** 14)), ("huge", Fr(2 ** 30))]     # side length^2 = 2^-28 (below f32 epsilon) / 2^60


def f32_exact(q):
    q = Fr(q)
    if q == 0:
        return True
    num, den = abs(q.numerator), q.denominator
    while num % 2 == 0:
        num //= 2
    return num < 2 ** 24 and den & (den - 1) == 0 and den <= 2 ** 100


def strip_builder(rng, k):
    b = Builder()
    for i in range(k):
        x0, x1 = Fr(2 * i), Fr(2 * i + 2)
        top = [(x1 - Fr(t + 1, 4), Fr(2) + Fr(t % 2, 2)) for t in range(rng.randint(0, 2))]
        b.face([(x0, Fr(0)), (x1, Fr(0)), (x1, Fr(2))] + top + [(x0, Fr(2))])
    return b


def scaled_mesh(rng, f, wmax=3):
    pts, cells = lattice_mesh(rng, rng.randint(1, wmax), rng.randint(1, wmax))
    pts = [(x * f, y * f, z) for (x, y, z) in pts]
    return dress(rng, pts, cells, extras=False)


def scale_cases(rng, count):
    """conforming meshes with coordinates k/2^34 and k*2^30 (exact in f64): import, export and round trip as at unit scale"""
    cases = []
    for tag, f in SCALES64:
        for split in (0, 1):
            for (nx, ny) in [(1, 1), (2, 2), (3, 2), (4, 4)]:
                ox, oy = f * rng.randint(-3, 3), f * rng.randint(-3, 3)
                lx, ly = f * rng.choice([1, 2, 3]), f * rng.choice([1, 3, Fr(1, 2)])
                cases.append(rt_case(f"scale-{tag}-grid{split}-{nx}x{ny}", [grid_line(split, ox, oy, nx, ny, lx, ly)],
                                     f"{tag} scale grid"))
        for c in range(count):
            b = fan_of_polygons(rng, rng.choice([2, 3])).scale(f)
            cases.append(rt_case(f"scale-{tag}-fan{c}", b.lines(), f"{tag} scale polygons sharing sides"))
            b = strip_builder(rng, rng.randint(2, 3)).scale(f)
            cases.append(rt_case(f"scale-{tag}-strip{c}", b.lines(), f"{tag} scale polygons in a strip"))
            pts, tc = scaled_mesh(rng, f)
            lines = ["new 2 0 0", imp_line(0, pts, tc), "snap", "wf", "vtkexp"]
            cases.append(Case(f"scale-{tag}-imp{c}", lines, oracle="imp",
                              meta={"sig": f"{tag} scale conforming list", "tags": ["imp", "snap", "wf", "exp"],
                                    "pts": pts, "cells": tc}))
            if tc:
                cases.append(rt_case(f"scale-{tag}-imp{c}-rt", [imp_line(0, pts, tc)], f"{tag} scale conforming list (round trip)"))
    return cases


def scale_f32_cases(rng, count):
    """the same with CMap2<f32> (implementation only): coordinates k/2^14 and k*2^30, exact in f32"""
    cases = []
    tags = ["snap0", "exp0", "exp32", "rt32", "snap1", "wf1"]
    tail = ["snap", "vtkexp", "vtkexp32", "vtkrt32", "snap", "wf"]
    for tag, f in SCALES32:
        for split in (0, 1):
            for (nx, ny) in [(1, 1), (2, 2), (3, 2)]:
                ox, oy = f * rng.randint(-3, 3), f * rng.randint(-3, 3)
                lx, ly = f * rng.choice([1, 2, 3]), f * rng.choice([1, 3, Fr(1, 2)])
                cases.append(Case(f"f32-{tag}-grid{split}-{nx}x{ny}", [grid_line(split, ox, oy, nx, ny, lx, ly)] + tail,
                                  oracle="rt32", meta={"sig": f"f32 {tag} scale grid", "tags": tags}))
        for c in range(count):
            b = strip_builder(rng, rng.randint(2, 3)).scale(f)
            assert all(f32_exact(x) and f32_exact(y) for (x, y) in b.co[1:])
            cases.append(Case(f"f32-{tag}-strip{c}", b.lines() + tail, oracle="rt32",
                              meta={"sig": f"f32 {tag} scale polygons", "tags": tags}))
            pts, tc = scaled_mesh(rng, f)
            assert all(f32_exact(x) and f32_exact(y) and f32_exact(z) for (x, y, z) in pts)
            d = data_str(pts, tc)
            lines = ["new 2 0 0", f"vtkimp 0 {d}", "snap", f"vtkimpv 32 32 0 {d}", "snap", f"vtkimpv 64 32 0 {d}", "snap",
                     f"vtkimpv 32 64 0 {d}", "snap"]
            cases.append(Case(f"f32-{tag}-imp{c}", lines, oracle="imp32",
                              meta={"sig": f"f32 {tag} scale import",
                                    "tags": ["imp64", "snap64", "impA", "snapA", "impB", "snapB", "impC", "snapC"]}))
    return cases


# ---------------------------------------------------------------------------------------------
# f32 (implementation only)
# ---------------------------------------------------------------------------------------------

def f32_cases(rng, count):
    cases = []
    tags = ["snap0", "exp0", "exp32", "rt32", "snap1", "wf1"]
    tail = ["snap", "vtkexp", "vtkexp32", "vtkrt32", "snap", "wf"]
    for split in (0, 1):
        for nx in range(1, 4):
            for ny in range(1, 4):
                ox, oy, lx, ly = rng.choice(GEOMS)
                cases.append(Case(f"f32-grid{split}-{nx}x{ny}", [grid_line(split, ox, oy, nx, ny, lx, ly)] + tail,
                                  oracle="rt32", meta={"sig": "f32 grid", "tags": tags}))
    for k in range(3, 13):
        b = Builder()
        b.face(polygon_points(rng, k))
        cases.append(Case(f"f32-poly{k}", b.lines() + tail, oracle="rt32", meta={"sig": "f32 polygon", "tags": tags}))
    for c in range(count):
        b = fan_of_polygons(rng, rng.choice([2, 3]))
        cases.append(Case(f"f32-shared{c}", b.lines() + tail, oracle="rt32", meta={"sig": "f32 shared", "tags": tags}))
    for c in range(count):
        pts, cells = lattice_mesh(rng, rng.randint(1, 3), rng.randint(1, 3))
        pts, tc = dress(rng, pts, cells)
        d = data_str(pts, tc)
        lines = [f"vtkimp 0 {d}", "snap", f"vtkimpv 32 32 0 {d}", "snap", f"vtkimpv 64 32 0 {d}", "snap",
                 f"vtkimpv 32 64 0 {d}", "snap"]
        cases.append(Case(f"f32-imp{c}", lines, oracle="imp32",
                          meta={"sig": "f32 import", "tags": ["imp64", "snap64", "impA", "snapA", "impB", "snapB", "impC", "snapC"]}))
    return cases


def campaign_impl_only(cases):
    import hashlib
    rc, outl = hv.run_bin(hv.HCIMPL, hv.render(cases))
    groups = hv.split_outputs(outl)
    stats = {"cases": len(cases), "lines": 0, "disagreements": 0, "oracle_failures": 0, "impl_outcomes": {}, "ops": {}}
    violations, distinct, samples = [], set(), []
    for k, c in enumerate(cases):
        li = groups[k][1] if k < len(groups) else ["<missing: implementation driver died>"]
        stats["lines"] += len(li)
        distinct.add(hashlib.md5("\n".join(li).encode()).hexdigest())
        for ln in c.lines:
            op = ln.split(" ", 1)[0]
            stats["ops"][op] = stats["ops"].get(op, 0) + 1
        ofail = oracle(c, li)
        if ofail:
            stats["oracle_failures"] += 1
            violations.append({
                "kind": "oracle",
                "what": f"property fails on the implementation (implementation-only stream) on case {c.cid}: {ofail}",
                "found_input": True, "sig": c.meta.get("sig", ""),
                "replay": {"case": c.cid, "input_lines": c.lines, "impl_output": li, "oracle_failure": ofail,
                           "replay_cmd": f"printf '%s\\n' <input_lines> | {hv.HCIMPL_PATH}"}})
        if len(samples) < 2:
            samples.append({"case": c.cid, "input": [x[:200] for x in c.lines[:8]], "impl_output": [x[:200] for x in li[:8]]})
    stats["distinct_nontrivial"] = len(distinct)
    return {"stats": stats, "violations": violations, "samples": samples}


# ---------------------------------------------------------------------------------------------
# run
# ---------------------------------------------------------------------------------------------

def run(tier, seed):
    rng = random.Random(seed)
    q = tier == "quick"
    parts = []
    parts.append(("grids and split grids (round trip)", hv.campaign(grid_cases(4 if q else 8), oracle)))
    parts.append(("polygons 3..12 sides", hv.campaign(polygon_cases(rng, 5 if q else 25), oracle)))
    parts.append(("polygons sharing sides", hv.campaign(shared_cases(rng, 120 if q else 1200), oracle)))
    parts.append(("triangulated grids with hanging nodes", hv.campaign(triangulated_cases(rng, 400 if q else 4000, 3 if q else 6), oracle)))
    parts.append(("wide coordinates", hv.campaign(wide_cases(rng, 200 if q else 2000), oracle)))
    parts.append(("conforming cell lists", hv.campaign(conforming_cases(rng, 1500 if q else 15000, 3 if q else 6), oracle)))
    parts.append(("conforming lists grown by gluing", hv.campaign(glued_abstract_cases(rng, 1500 if q else 15000), oracle)))
    parts.append(("non-conforming lists", hv.campaign(nonconforming_cases(rng, 3000 if q else 30000), oracle)))
    parts.append(("raw legacy data", hv.campaign(raw_legacy_cases(rng, 2000 if q else 20000), oracle)))
    r = hv.campaign(exhaustive_export_cases(3 if q else 4, rng), oracle)
    r["stats"]["exhaustive"] = True
    parts.append((f"export / round trip of every well-formed map with n<={3 if q else 4}", r))
    parts.append(("general well-formed maps", hv.campaign(export_general_cases(rng, 2000 if q else 20000), oracle)))
    parts.append(("ASCII text at token level (writer side)", hv.campaign(ascii_cases(rng, 40 if q else 400), oracle)))
    parts.append(("tiny and huge scales (2^-34, 2^30)", hv.campaign(scale_cases(rng, 25 if q else 250), oracle)))
    parts.append(("cracked grids", hv.campaign(cracked_grid_cases(rng, 150 if q else 1500, 4 if q else 7), oracle, max_report=10 ** 6)))
    rx = hv.campaign(excluded_cases(), oracle)
    observations = []
    kept = []
    for v in rx["violations"]:
        cid = v.get("replay", {}).get("case", "")
        if v["kind"] == "oracle" and cid in OUTSIDE:
            # not a mesh of the property's quantifier: recorded, not judged
            observations.append(f"excluded point `{cid}` ({OUTSIDE[cid]}): {v['replay'].get('oracle_failure')}")
            rx["stats"]["oracle_failures"] -= 1
        else:
            kept.append(v)
    rx["violations"] = kept
    parts.append(("excluded points (DESIGN par.7)", rx))
    parts.append(("f32 (implementation only)", campaign_impl_only(f32_cases(rng, 100 if q else 1000))))
    parts.append(("f32 tiny and huge scales (2^-14, 2^30; implementation only)",
                  campaign_impl_only(scale_f32_cases(rng, 25 if q else 250))))
    res = hv.merge_results(parts)
    res["notes"] = res.get("notes", []) + observations + [
        "the builder's attribute manager is ignored by build_2d_from_vtk (`_manager`): from_vtk_file(..).add_attribute::<A>()"
        ".build() returns a map WITHOUT A (contains_attribute::<A>() = false); `vtkimp <mask>` answers `ok 0` for every mask",
        "export of a map with a dart that is both 1-free and 2-free panics (id_map[&vertex_id(0)]); a vertex id without "
        "coordinates panics (documented); faces with <= 2 darts are dropped; an open face is exported from its smallest dart "
        "forward only",
        "sew_buffer is a BTreeMap keyed by point-index pairs: a later cell running the same directed side REPLACES the earlier "
        "dart (no error); a side whose two end points have equal coordinates, traversed in both directions, panics "
        "(force_sew::<2>(..).unwrap() on BadGeometry)",
    ]
    return res


def signatures(v):
    what = v.get("what", "")
    sig = v.get("sig", "")
    if v.get("kind") != "oracle":
        return {"unknown"}
    if "round trip changes the mesh: adj differ" in what or "round trip changes the mesh: boundary differ" in what:
        # re-derive from the transcript: the ONLY change is that free sides running between the same two
        # vertices in opposite directions have been sewn
        rp = v.get("replay", {})
        li = rp.get("impl_output", [])
        snaps = [x for x in li if x.startswith("snap n=")]
        if len(snaps) >= 2:
            s0, s1 = snap_of(snaps[-2]), snap_of(snaps[-1])
            c0, c1 = canon(s0), canon(s1)
            if c0 and c1 and c0["faces"] == c1["faces"] and c0["verts"] == c1["verts"]:
                lost = [x for x in c0["boundary"] if x not in c1["boundary"]]
                gained = [x for x in c1["adj"] if x not in c0["adj"]]
                kept = all(x in c1["adj"] for x in c0["adj"]) and all(x in c0["boundary"] for x in c1["boundary"])
                paired = len(lost) == 2 * len(gained) and all(
                    a[1] == b[2] and a[2] == b[1] and a in lost and b in lost for (a, b) in gained)
                if kept and gained and paired:
                    return {"free-opposite-sides-sewn"}
        return {"unknown"}
    return {"unknown"}


def matches(known, v):
    m = known.get("matcher", {})
    if v.get("kind") != "oracle" or m.get("kind") != "oracle":
        return False
    sigs = signatures(v)
    return "unknown" not in sigs and m.get("signature") in sigs
