"""C17 — geometry capture and classification anchor every cell consistently.

Two ties:
 * end-to-end (implementation only, the float pipeline is not modelled): `capture_geometry` +
   `classify_capture` on generated geometries; the clauses of the property are evaluated here on the
   snapshot (beta tables, exact coordinates, the three anchor storages), cells and boundary walks being
   recomputed independently from the beta tables.
 * correspondence hcmodel / hcimpl for the discrete core (`classify_capture`, `mark_curve`,
   `Honeycomb/Model/Capture.lean`) on hand-made maps carrying arbitrary anchors, plus sews on anchored maps
   (the generated merge table of `utils/anchors.rs` against the real `AttributeUpdate` impls).
"""
import random
from fractions import Fraction as Fr

import grisgeo as gg
import hv
from hv import Case
from props import c16

SPEC = {
    "lean_modules": ["Honeycomb.Props.C17", "Honeycomb.Props.C17Surf", "Honeycomb.Props.C16Grid", "Honeycomb.Props.C16EdgeInsert", "Honeycomb.Props.C16Chain", "Honeycomb.Props.C16ChainGrid", "Honeycomb.Props.C16Step5Pipe", "Honeycomb.Props.C16Gen", "Honeycomb.Props.C17Gen"],
    "gen": ["anchors", "gcross", "pre"],
    "required_theorems": [
        # Props/C17Gen.lean: the on-grid-line tests of detect_overlaps and the grid sizing of grisubal/routines/pre_processing.rs as translated
        "C17_gen_on_grid_axes", "C17_gen_on_grid", "C17_gen_on_grid_eq", "C17_gen_refl_guard", "C16_gen_grid_data", "C16_gen_grid_origin", "C16_gen_grid_cells",
        # Props/C16Gen.lean: the intersection step generate_intersection_data of grisubal/routines/compute_intersecs.rs as translated IS crossingsOf
        "C16_gen_cross_step", "C16_gen_cross_arms_complete", "C16_gen_cross_macro_names",
        "C17_classify_frame", "C17_classify_WF", "C17_classify_ok_all_anchored",
        "C17_markCurve_terminates", "C17_markCurve_ok_of_closed", "C17_markCurve_err_leaves_boundary",
        "C17_core_faces_and_boundary_edges_anchored", "C17_boundary_loop_terminates", "C17_classify_terminates",
        "C17_classify_assertion_can_fire",
        "C17_surface_edge_faces", "C17_edge_anchor_kinds", "C17_faces_across_non_curve_edge_same",
        "C17_surface_connected_same", "C17_same_surface_linked",
        "C17_vertex_merge_comm", "C17_vertex_merge_idem", "C17_vertex_merge_assoc", "C17_vertex_merge_lower_dim",
        "C17_vertex_merge_fails_iff", "C17_edge_merge_fails_iff", "C17_face_merge_fails_iff",
        "C16_shift_loop_terminates", "C16_shift_loop_exit", "C17_no_vertex_on_grid_line",
        "C16_insertOneEdge_shape", "C16_insert_edges_inv", "C16_poi_are_vertices", "C17_poi_are_node_vertices", "C17_poi_are_node_vertices_partial", "C17_poi_are_node_vertices_on_grid", "C17_capture_pipeline_total_on_grid_partial", "C16_steps23_total_on_grid",
    ],
    "trusted_base": [
        "Lean 4.33 kernel; axioms propext, Classical.choice, Quot.sound only",
        "tools/gen_lean.py `anchors` (regex-level translator of the merge arms / From conversions of utils/anchors.rs into "
        "Honeycomb/Gen/Anchors.lean; regenerated on every run, fails on unrecognised shapes)",
        "hand-written model Honeycomb/Model/Capture.lean (classify_capture, mark_curve) tied to /repo by the hcmodel/hcimpl "
        "correspondence on hand-made anchored maps",
        "hand-written model `overlappingGrid` (Model/Grisubal.lean: compute_overlapping_grid with its origin-shift loop and "
        "detect_overlaps, over exact rationals) tied to /repo through the public API: `ogridg capture` = capture_geometry with "
        "Clip::None, then the bounding box of the returned map, compared as identical text with the model and with an independent "
        "Python evaluation (c16.shifted_grid) on polygons built to make the loop run 1..5 times",
        "hand-written model of the capture pipeline, steps 1-5 (Model/Grisubal.lean, Model/GrisubalInsert.lean: segments, slots, darts, "
        "edge data, insert_edges with the VertexAnchor::Node writes) + clip (Model/Clip.lean) + classify (Model/Capture.lean), tied through the "
        "hooks grisubal::verif::{segments, intersection_data, intersection_darts, edge_data, insert_edges, clip_left, clip_right}: stream "
        "`whole capture pipeline` — the model driven step by step with the HashMap orders read off the implementation; `wf` and the full snapshot "
        "(anchors included) after step 5, after the clip and after classify_capture as identical text; capture_geometry's own map = the "
        "hook-by-hook map up to renumbering",
        "Rust harness /verif/harness/hcimpl/src/gris.rs and tools/grisgeo.py + tools/props/c17.py (the oracle)",
        "vtkio's legacy reader (the geometry reaches the kernel through a file)",
    ],
    "assumptions": [
        "the main streams use C16's generator filter (general position) although C17's statement has no such clause; the stream "
        "`edges through grid corners` drops `no edge through a grid corner` (in scope, full oracle); the stream `origin-shift loop` "
        "puts vertices on grid lines of the first grids: capture_geometry shifts its origin until no vertex lies on a grid line "
        "(C17_no_vertex_on_grid_line), in scope, full oracle; clip modes left/right (the quantifier's `clip modes that keep a "
        "bounded region`); Clip::None is run with the reduced oracle (every cell anchored, points of interest are nodes)",
        "maps of the correspondence stream are well-formed 2-maps (grids, grids with holes, loaded polygon soups)",
        "the surface theorems of Props/C17Surf.lean assume a map without edge and face anchors before the call (what "
        "capture_geometry returns: node anchors on vertices only); with pre-anchored edges/faces only the frame, totality and "
        "assertion theorems of Props/C17.lean apply",
        "fewer than 2^32 darts",
    ],
    "rule": "quick: ~70 geometries (same families as C16) x clip {left, right, none} x points of interest {all, some, none}; "
            "+ loops inside one cell; + 25 polygons with an edge through a grid corner (exact family) x up to 3 segment orders x 3 "
            "clips, full oracle (the former finding D17b = D16c, fixed by /repo 2e893a8: every clause must hold, also when the corner "
            "edge comes first); + origin-shift loop: 40 simple polygons (lattice cell/16) with 1..4 vertices moved to (k + 1/2), "
            "(k + 3/4), (k + 7/8), (k + 15/16) cells from the bounding-box minimum on one or both axes, so that compute_overlapping_grid "
            "shifts its origin 1..5 times: `ogridg` tie + capture x 3 clips + classify with the full oracle (the oracle's grid is the "
            "independently evaluated shifted grid; catches seeded C17-6); + classify correspondence on hand-made anchored maps. "
            "+ whole capture pipeline hook by hook (20 zonogons + 20 non-convex exact polygons + 20 polygons with an edge through a corner; "
            "clips in turn; classify after the clip). thorough: x8.",
    "not_proved": [
        "clause that is FALSE on the current tree: known finding D17a (a boundary loop lying inside one grid cell is dropped: its points of "
        "interest are neither vertices nor nodes), reported by the capture oracle on every run; D17b repaired (2e893a8)",
        "the capture pipeline before classify is now modelled, tied and partly proved (shared with C16): each point of interest lying on a "
        "new edge is the coordinate of a vertex of the map anchored VertexAnchor::Node(index of the edge) (C16_insertOneEdge_shape, with the "
        "anchor storages), step 5 preserves well-formedness (C16_insert_edges_inv); `boundary edges are anchored to curves between consecutive "
        "nodes` is classify_capture's part (C17_* theorems of Props/C17.lean / C17Surf.lean on any map with node anchors). NOT proved: one "
        "theorem chaining capture + classify; that the node ids (= edge indices, which depend on the HashMap order of step 4) separate "
        "distinct points of interest of one edge (they do not: all points of interest of one new edge share Node(i) — what the kernel does, "
        "the C17 statement only asks for `anchored to a node`)",
        "THE CHAIN for capture (Props/C16Chain.lean, C17_poi_are_node_vertices): for the modelled capture pipeline (steps 1-5 with the anchor "
        "storages, both HashMap orders arbitrary), if the run succeeds every point of interest lying on a chain between two crossings is the "
        "coordinate of a vertex of the result and that vertex is anchored VertexAnchor::Node(j). Named hypotheses (satisfiable example, "
        "evaluated by the `whole capture pipeline` tie): success of the run, HitDartsOK (grid map only), KeysAreHitEdges (HashMap only), general "
        "position of the segments, OnChain (false exactly for the loops inside one cell of D17a); KeysOK, EdgeDartsInUse, well-formedness and "
        "absence of tags after step 3 are proved (the `_partial` theorems keep the first two as hypotheses); on the grid of the model's builder "
        "HitDartsOK is a theorem too (C17_poi_are_node_vertices_on_grid: no hypothesis about the map; geometry inside the grid with one cell of "
        "margin). Success of the run (Props/C16Step5Pipe.lean, C17_capture_pipeline_total_on_grid_partial): on the builder grid steps 2-3 SUCCEED "
        "for every geometry in general position inside the grid and every HashMap order (C16_steps23_total_on_grid), and step 5 succeeds under "
        "the decidable condition pipelineReadyAll evaluated on the map after step 3 (edges of step 4 Ready, valued end points, pairwise "
        "independent: C16_stepFive_total_indep_partial, forward totality of build_base_edge, insert_vertices_on_edge, the Node(j) replacement "
        "and mark_boundary); NOT derived from the geometry: that condition. NOT proved: that every point of interest of a closed "
        "loop crossing a grid line satisfies OnChain; the chain through clip + classify_capture as one theorem",
        "C17_classify_asserts_never_fire: that the three debug_assert!s of classify_capture cannot fail on capture outputs "
        "(C17_classify_ok_all_anchored is the statement WITH the assertions, as in the debug build the harness runs). It is "
        "false on arbitrary well-formed maps: a dangling edge inside a face leaves its tip vertex unanchored and the debug "
        "assertion panics (both drivers agree, stream `small maps`); validated on every generated capture (no panic)",
        "boundary vertices end with Node or Curve and interior ones with Surface: evaluated by the oracle on the real "
        "implementation (one surface id per region and distinct ids across curves are now theorems: Props/C17Surf.lean, "
        "for maps without edge/face anchors before the call; also evaluated by the oracle: surface-split, surface-shared, "
        "edge-surface-mismatch)",
        "the lazily evaluated first loop re-reads VertexAnchor after earlier mark_curve calls: a Curve-anchored vertex with a "
        "larger id than the node starts a new curve (modelled, agrees with the implementation on hand-made maps; harmless "
        "on capture outputs where point-of-interest vertices have the largest ids)",
        "that capture_geometry anchors each point of interest to a Node vertex at the right place and that the clipped "
        "mesh's free boundary is the input boundary (geometry): validated by the oracle on the real implementation",
    ],
}


# ---------------------------------------------------------------------------------------------
# oracle on a classified capture
# ---------------------------------------------------------------------------------------------

def check_anchors(g, clip, s):
    out = []
    m = gg.Mesh(s)
    w = m.wf()
    if w:
        return ["not-wf: " + ", ".join(w)]
    if m.open_darts:
        return [f"open-face: dart {m.open_darts[0]} is 0- or 1-free"]
    if not all(k in s["a"] for k in ("a6", "a7", "a8")):
        return ["no-anchor-storage: the captured map has no anchor storages"]
    a6, a7, a8 = s["a"]["a6"], s["a"]["a7"], s["a"]["a8"]
    VA = {v: gg.anchor_of(a6[v]) for v in m.vertices}
    EA = {e: gg.anchor_of(a7[e]) for e in m.edges}
    fids = sorted({m.fid[d] for d in m.used})
    FA = {f: gg.anchor_of(a8[f]) for f in fids}
    # (1) completeness
    un = [v for v in m.vertices if VA[v] is None]
    if un:
        out.append(f"unanchored-vertex: vertex {un[0]} ({len(un)} such)")
    un = [e for e in m.edges if EA[e] is None]
    if un:
        out.append(f"unanchored-edge: edge {un[0]} ({len(un)} such)")
    un = [f for f in fids if FA[f] is None]
    if un:
        out.append(f"unanchored-face: face {un[0]} ({len(un)} such)")
    if out:
        return out
    # (2) points of interest
    pos2v = {}
    for v in m.vertices:
        if s["a0"][v] is not None:
            pos2v.setdefault(s["a0"][v], v)
    miss, notnode = [], []
    for pid in g.poi_ids():
        v = pos2v.get(g.verts[pid])
        if v is None:
            miss.append(pid)
        elif VA[v][0] != "N":
            notnode.append((pid, v))
    if miss:
        out.append(f"poi-missing: {len(miss)} of {len(g.poi)} points of interest are no vertex, e.g. input vertex {miss[0]}")
    if notnode:
        out.append(f"poi-not-node: input vertex {notnode[0][0]} is vertex {notnode[0][1]} anchored to {VA[notnode[0][1]]}")
    if clip == "none":
        return out
    # (3) edges and faces
    be = [e for e in m.edges if m.b2[e] == 0]
    ie = [e for e in m.edges if m.b2[e] != 0]
    bad = [e for e in be if EA[e][0] != "C"]
    if bad:
        out.append(f"boundary-edge-not-curve: edge {bad[0]} is anchored to {EA[bad[0]]} ({len(bad)} such)")
    bad = [e for e in ie if EA[e][0] != "S"]
    if bad:
        out.append(f"interior-edge-not-surface: edge {bad[0]} is anchored to {EA[bad[0]]} ({len(bad)} such)")
    bad = [f for f in fids if FA[f][0] != "S"]
    if bad:
        out.append(f"face-not-surface: face {bad[0]} is anchored to {FA[bad[0]]}")
    # (4) one surface id per component of faces connected without crossing a curve
    par = {f: f for f in fids}

    def find(x):
        while par[x] != x:
            par[x] = par[par[x]]
            x = par[x]
        return x
    for d in m.used:
        e = m.b2[d]
        if e and EA[m.eid[d]][0] != "C":
            a, b = find(m.fid[d]), find(m.fid[e])
            if a != b:
                par[a] = b
    comp = {}
    for f in fids:
        comp.setdefault(find(f), set()).add(FA[f])
    split = [c for c, ids in comp.items() if len(ids) > 1]
    if split:
        out.append(f"surface-split: the faces connected to face {split[0]} carry {sorted(comp[split[0]])}")
    # … and regions separated by curves carry different ids; a surface-anchored edge carries the id of its two faces
    owner = {}
    for c, ids in comp.items():
        for a in ids:
            if a in owner and owner[a] != c:
                out.append(f"surface-shared: the regions of faces {owner[a]} and {c} are separated by curves but both carry {a}")
            owner[a] = c
    for d in m.used:
        e = m.b2[d]
        if e and EA[m.eid[d]][0] == "S" and not (EA[m.eid[d]] == FA[m.fid[d]] == FA[m.fid[e]]):
            out.append(f"edge-surface-mismatch: edge {m.eid[d]} is anchored to {EA[m.eid[d]]}, its faces to {FA[m.fid[d]]} / {FA[m.fid[e]]}")
            break
    # (5) one curve id per boundary section
    seen = set()
    for d0 in m.boundary_darts():
        if d0 in seen:
            continue
        cyc, d = [], d0
        while d and d not in seen:
            seen.add(d)
            cyc.append(d)
            d = m.next_boundary(d)
        if d != d0:
            out.append(f"open-boundary: the boundary walk from dart {d0} does not close")
            continue
        nodes = [i for i, x in enumerate(cyc) if VA[m.vid[x]][0] == "N"]
        if not nodes:
            ids = {EA[m.eid[x]] for x in cyc}
            if len(ids) > 1:
                out.append(f"curve-split-loop: boundary loop of dart {d0} without node carries {sorted(ids)}")
        else:
            k = len(cyc)
            for a, i in enumerate(nodes):
                j = nodes[(a + 1) % len(nodes)]
                sec = []
                x = i
                while True:
                    sec.append(cyc[x])
                    x = (x + 1) % k
                    if x == j:
                        break
                ids = {EA[m.eid[x]] for x in sec}
                if len(ids) > 1:
                    out.append(f"curve-split: boundary edges between the nodes at darts {cyc[i]} and {cyc[j]} carry {sorted(ids)}")
                    break
    # (6) vertices
    bv = {m.vid[d] for d in m.boundary_darts()} | {m.vid[m.b1[d]] for d in m.boundary_darts()}
    bad = [v for v in m.vertices if v in bv and VA[v][0] not in "NC"]
    if bad:
        out.append(f"boundary-vertex-not-node-or-curve: vertex {bad[0]} is anchored to {VA[bad[0]]} ({len(bad)} such)")
    bad = [v for v in m.vertices if v not in bv and VA[v][0] != "S"]
    if bad:
        out.append(f"interior-vertex-not-surface: vertex {bad[0]} is anchored to {VA[bad[0]]} ({len(bad)} such)")
    return out


def oracle(case, li):
    if case.oracle != "c17":
        return None
    if any(ln.startswith("<missing") for ln in li):
        return "driver-died: " + li[0]
    g, clip = case.meta["geo"], case.meta["clip"]
    # capture, wf, snap, classify, snap
    if li[0] == "panic":
        return "panic: capture_geometry panicked on a valid geometry"
    if li[0] != "ok":
        return f"refused: valid geometry answered {li[0]!r}"
    if li[1] != "wf true true true":
        return f"not-wf: {li[1]}"
    case.meta["presnap"] = li[2]
    if li[3] == "panic":
        return "classify-panic: classify_capture panicked (debug assertion: not every cell classified, or index)"
    if li[3] != "ok":
        return f"classify-error: classify_capture answered {li[3]!r}"
    s = gg.parse_snap(li[4])
    f = check_anchors(g, clip, s)
    if not f:
        return None
    return "; ".join(f[:8]), classify_failure(g, clip, s, f)


def classify_failure(g, clip, s, fails):
    tags = {x.split(":")[0] for x in fails}
    drop = g.loops_crossing_nothing()
    if drop and tags <= {"poi-missing"}:
        # only points of interest of the dropped loops are missing
        dropped = {g.vid(li, i) for li in drop for i in range(len(g.loops[li]))}
        pos = {s["a0"][v] for v in gg.Mesh(s).vertices}
        missing = {pid for pid in g.poi_ids() if g.verts[pid] not in pos}
        if missing and missing <= dropped:
            return "loop-inside-one-cell-dropped"
    return None


# ---------------------------------------------------------------------------------------------
# cases
# ---------------------------------------------------------------------------------------------

def capture_cases(rng, count):
    cases = []
    for c in c16.geometry_cases(rng, count, cmd="capture", oracle_name="c17"):
        c.lines = [c.lines[0], "wf", "snap", "classify", "snap"]
        cases.append(c)
    return cases


def tiny_cases(rng, count):
    cases = []
    for c in c16.tiny_loop_cases(rng, count, cmd="capture", oracle_name="c17"):
        c.lines = [c.lines[0], "wf", "snap", "classify", "snap"]
        cases.append(c)
    return cases


# ---------------------------------------------------------------------------------------------
# correspondence streams for the discrete core (model = Honeycomb/Model/Capture.lean)
# ---------------------------------------------------------------------------------------------

OBS = ["classify", "anchors", "snap"]


def rand_anchor(rng, kind):
    letters = {"v": "NCSB", "e": "CSB", "f": "SB"}[kind]
    return rng.choice(letters) + str(rng.randint(0, 3))


def grid_cases(rng, count):
    """grids / split grids (optionally with one cell removed: an inner boundary loop), some boundary and
    interior vertices anchored as nodes, edges / faces partially pre-anchored"""
    cases = []
    for k in range(count):
        nx, ny = rng.randint(1, 4), rng.randint(1, 3)
        split = 1 if k % 4 == 3 else 0
        kk = 6 if split else 4
        n = kk * nx * ny
        lines = [f"grid 2 {split} 0 ncl 0 0 {nx} {ny} 1 1"]
        darts = list(range(1, n + 1))
        if not split and nx >= 3 and ny >= 3 and rng.random() < 0.6:
            # remove the cell (1,1): an inner boundary
            base = 1 + 4 * (1 + nx * 1)
            cell = [base + i for i in range(4)]
            lines += [f"funlink 2 {d}" for d in cell] + [f"funlink 1 {d}" for d in cell] + [f"rm {d}" for d in cell]
            darts = [d for d in darts if d not in cell]
        elif nx * ny > 1 and rng.random() < 0.3:
            # a corner cell removed: boundary vertices of degree 1 .. 3
            cell = [1 + i for i in range(kk)]
            lines += [f"funlink 2 {d}" for d in cell] + [f"funlink 1 {d}" for d in cell] + [f"rm {d}" for d in cell]
            darts = [d for d in darts if d not in cell]
        lines.append("ancinit")
        mode = k % 5
        if mode != 0:
            for _ in range(rng.randint(1, 4)):
                lines.append(f"wanchor v {rng.choice(darts)} N{rng.randint(0, 5)}")
        if mode in (2, 4):
            for _ in range(rng.randint(1, 3)):
                kind = rng.choice("vef")
                lines.append(f"wanchor {kind} {rng.choice(darts)} {rand_anchor(rng, kind)}")
        lines += ["anchors"] + OBS
        if mode == 4:
            lines += OBS          # classify twice: everything is anchored now
        cases.append(Case(f"grid-{k}", lines, oracle=None, meta={"sig": "classify-grid"}))
    return cases


def small_map_cases(rng, nmax, budget):
    """every well-formed 2-map with <= nmax darts x anchor patterns (open faces, isolated darts, dangling edges)"""
    import gens
    cases = []
    k = 0
    for n in range(1, nmax + 1):
        maps = list(gens.wf_maps2(n, with_unused=(n <= 3)))
        if len(maps) > budget:
            maps = rng.sample(maps, budget)
        for b0, b1, b2, u in maps:
            used = [d for d in range(1, n + 1) if not u[d]]
            for pat in ((0, 1, 2) if n <= 3 else (k % 3,)):
                lines = [gens.load_line(2, n, 0, [b0, b1, b2], u), "ancinit"]
                if pat >= 1 and used:
                    lines.append(f"wanchor v {rng.choice(used)} N{rng.randint(0, 2)}")
                if pat == 2 and used:
                    kind = rng.choice("vef")
                    lines.append(f"wanchor {kind} {rng.choice(used)} {rand_anchor(rng, kind)}")
                lines += OBS
                k += 1
                cases.append(Case(f"small-{n}-{k}", lines, oracle=None, meta={"sig": "classify-small"}))
    return cases


def missing_storage_cases(rng, count):
    """classify_capture on maps that carry only a subset of the three anchor storages (mask bits 32 / 64 / 128): every strict
    subset must answer MissingAttribute and leave the map alone; (notes/TIECOV.md: no stream executed these arms)"""
    import gens
    cases = []
    for k in range(count):
        n = rng.randint(1, 4)
        maps = list(gens.wf_maps2(n))
        b0, b1, b2, u = rng.choice(maps)
        mask = rng.choice([0, 32, 64, 128, 96, 160, 192, 224])
        lines = [gens.load_line(2, n, mask, [b0, b1, b2], u), "snap", "classify", "snap", "wf"]
        cases.append(Case(f"miss-{k}", lines, oracle="missing", meta={"sig": "classify-missing-storage", "mask": mask}))
    return cases


def oracle_missing(case, li):
    if len(li) < 5:
        return "driver died"
    if case.meta["mask"] != 224:
        if li[2] != "err MissingAttribute":
            return f"classify on a map without all three anchor storages answered {li[2]!r}"
        if li[1] != li[3]:
            return "classify answered MissingAttribute but the map changed"
    return None


def reload_cases(captured, limit):
    """the meshes produced by the real capture_geometry, re-loaded (betas + removal flags + the node anchors) into
    both drivers: classify_capture of the model on the real dart numbering"""
    import gens
    cases = []
    for c in captured:
        snap = c.meta.get("presnap")
        if not snap or len(cases) >= limit:
            continue
        s = gg.parse_snap(snap)
        n = s["n"]
        if n > 1500:
            continue
        rows = [s["b"][0], s["b"][1], s["b"][2]]
        lines = [gens.load_line(2, n - 1, 0, rows, s["u"]), "ancinit"]
        for d, tok in enumerate(s["a"]["a6"]):
            a = gg.anchor_of(tok)
            if a:
                lines.append(f"wanchor v {d} {a[0]}{a[1]}")
        lines += OBS
        cases.append(Case("reload-" + c.cid, lines, oracle=None, meta={"sig": "classify-reload"}))
    return cases


def sew_cases(rng, count):
    """sews / unsews on anchored grids: the generated merge table against the real AttributeUpdate impls"""
    cases = []
    for k in range(count):
        nx, ny = rng.randint(2, 3), rng.randint(1, 2)
        n = 4 * nx * ny
        lines = [f"grid 2 0 0 ncl 0 0 {nx} {ny} 1 1", "ancinit"]
        if k % 2 == 0:
            # every slot anchored (ids 0..1): merges see two values, equal-dimension conflicts are frequent
            for d in range(1, n + 1):
                for kind in "vef":
                    letters = {"v": "NCSB", "e": "CSB", "f": "SB"}[kind]
                    lines.append(f"wanchor {kind} {d} {rng.choice(letters)}{rng.randint(0, 1)}")
        for _ in range(rng.randint(2, 10)):
            kind = rng.choice("vvef")
            lines.append(f"wanchor {kind} {rng.randint(1, n)} {rand_anchor(rng, kind)}")
        glued = [(1 + 4 * (i + nx * j) + 1, 1 + 4 * (i + nx * j) + 1 + 6) for i in range(nx - 1) for j in range(ny)] + \
                [(1 + 4 * (i + nx * j) + 2, 1 + 4 * (i + nx * j) + 4 * nx) for i in range(nx) for j in range(ny - 1)]
        for _ in range(rng.randint(1, 3)):
            a, b = rng.choice(glued)
            if rng.random() < 0.5:
                a, b = b, a
            lines.append(f"unsew 2 {a}")
            for _ in range(rng.randint(0, 3)):
                kind = rng.choice("vef")
                lines.append(f"wanchor {kind} {rng.choice([a, b, a - 1 if a > 1 else a, b + 1 if b < n else b])} {rng.choice({'v': 'NCSB', 'e': 'CSB', 'f': 'SB'}[kind])}{rng.randint(0, 1)}")
            lines.append(f"sew 2 {a} {b}")
            lines.append("snap")
        for _ in range(rng.randint(1, 5)):
            d = rng.randint(1, n)
            op = rng.choice(["unsew 2", "unsew 1", "sew 2", "sew 1", "wanchor"])
            if op == "wanchor":
                kind = rng.choice("vef")
                lines.append(f"wanchor {kind} {d} {rand_anchor(rng, kind)}")
            elif op.startswith("sew"):
                lines.append(f"{op} {d} {rng.randint(1, n)}")
            else:
                lines.append(f"{op} {d}")
        lines += ["snap", "wf"]
        cases.append(Case(f"sew-{k}", lines, oracle=None, meta={"sig": "anchor-sew"}))
    return cases


# ---------------------------------------------------------------------------------------------
# run
# ---------------------------------------------------------------------------------------------

def run(tier, seed):
    rng = random.Random(seed)
    mult = 1 if tier == "quick" else 8
    parts = []
    cap = capture_cases(rng, 70 * mult)
    parts.append(("capture + classify on polygons in general position (implementation, oracle)", gg.impl_campaign(cap, oracle)))
    parts.append(("loops inside one grid cell", gg.impl_campaign(tiny_cases(rng, 6 * mult), oracle)))
    parts.append(("edges through grid corners (exact family, several segment orders; in scope: C17 has no general-position clause; "
                  "panicked before /repo 2e893a8, finding D17b, fixed)",
                  gg.impl_campaign(c16.corner_cases(rng, 25 * mult, cmd="capture", oracle_name="c17", obs=("wf", "snap", "classify", "snap")), oracle)))
    shg = c16.shift_geometries(rng, 40 * mult, True)
    parts.append(("origin-shift loop of compute_overlapping_grid (vertices (k+1/2), (k+3/4), (k+7/8), (k+15/16) cells from the bounding-box "
                  "minimum: 1..5 shifts): grid of the captured map vs model `overlappingGrid` vs independent evaluation",
                  c16.shift_grid_tie(shg, "capture")))
    parts.append(("shapes without extent along an axis / without vertices are refused (InvalidShape), model vs implementation",
                  c16.flat_shape_cases(rng, 60 * mult, "capture")))
    parts.append(("origin-shift loop: capture + classify on the shifted polygons (in scope, full oracle)",
                  gg.impl_campaign(c16.shift_cases(shg, cmd="capture", oracle_name="c17", obs=("wf", "snap", "classify", "snap")), oracle)))
    zp = []
    for z in (c16.zonogon_geometry(rng) for _ in range(20 * mult)):
        if z:
            sg = z.segs[:]
            rng.shuffle(sg)
            zp.append((z, sg))
    parts.append(("whole capture pipeline hook by hook (segments, slots, darts, edge data, insert_edges with node anchors, clip, classify), "
                  "model vs implementation, and = capture_geometry up to renumbering: zonogons, non-convex exact polygons, edges through corners",
                  c16.pipeline5_tie(zp + c16.corner_geometries(rng, 20 * mult, want_corner=False) + c16.corner_geometries(rng, 20 * mult), True, "cpipe")))
    parts.append(("classify: hand-made anchored grids, model vs implementation", hv.campaign(grid_cases(rng, 150 * mult), None)))
    parts.append(("classify: all well-formed 2-maps with <= 3 darts (+ sampled 4-dart maps), model vs implementation",
                  hv.campaign(small_map_cases(rng, 4, 600 * mult), None)))
    parts.append(("classify on maps lacking some of the anchor storages", hv.campaign(missing_storage_cases(rng, 120 * mult), oracle_missing)))
    parts.append(("classify: real capture meshes re-loaded, model vs implementation", hv.campaign(reload_cases(cap, 40 * mult), None)))
    parts.append(("sew/unsew on anchored maps (generated merge table), model vs implementation", hv.campaign(sew_cases(rng, 150 * mult), None)))
    return hv.merge_results(parts)


def matches(known, v):
    return v.get("kind") == "oracle" and v.get("finding") is not None and v.get("finding") == known.get("matcher", {}).get("signature")
