"""C09 — cmap text serialization round-trips every 2-map."""
import hashlib
import random

import cmapgen as cg
import gens
import hv
from hv import Case

SPEC = {
    "lean_modules": ["Honeycomb.Props.C09", "Honeycomb.Props.C09b"],
    "required_theorems": ["C09_roundtrip", "C09_roundtrip_small", "C09_coordsPrintable_of_small",
                          "C09_chars_tokenise_to_tokens", "C09_chars_reader_is_token_reader", "C09_char_level_round_trip"],
    "trusted_base": [
        "Lean 4.33 kernel; axioms propext, Classical.choice, Quot.sound only",
        "hand-written token-level model Honeycomb/Model/CmapText.lean (serialize, parseFile, build, load) tied to "
        "/repo by the hcmodel/hcimpl correspondence run (`ser`, `rt`, `loadtext`, `snap`)",
        "Rust harness /verif/harness/hcimpl/src/cmapio.rs (tokenisation of the real output, float tokens -> exact "
        "rational text, temp file + CMapBuilder::from_cmap_file + build) and tools/*.py (incl. the independent Python "
        "serializer in tools/cmapgen.py)",
    ],
    "assumptions": [
        "character level (Props/C09b): everything `serialize` writes except the decimal text of the coordinate VALUES is modelled "
        "character by character (Model/CmapChars.lean: headers, META line, `{:>width$}` padding with width = "
        "n_darts.to_string().len(), `trim` of the three buffers, the trailing blank of the UNUSED line, separators and newline of "
        "the VERTICES lines) and PROVED to tokenise (`str::lines`, `str::split_whitespace` with Rust's Unicode White_Space) to the "
        "token lines of the token-level model, for every map of every size (C09_chars_tokenise_to_tokens); the character-level "
        "mirror of CMapFile::try_from is PROVED equal to the token-level reader after tokenisation for every character string "
        "(C09_chars_reader_is_token_reader); hence C09_char_level_round_trip",
        "coordinate values are written through a formatter parameter `fmt : Rat -> String` only assumed to produce non-empty "
        "blank-free strings (Rust: Display for f64); the round-trip theorems instantiate it with the exact rational text "
        "`ratStr` (proved to be such a token and to parse back for numerators/denominators of at most 18 digits); the decimal "
        "printing/parsing of f64/f32 (shortest round-trip decimal) is validated on the implementation only (`rt`, `rt32`)",
        "numerals: `{}` of an integer = Nat.toDigits 10 = Nat.repr; the reader's parse::<u32/usize> (optional `+`, leading zeros, "
        "no `_`, bound) is parseUChars; the round trip parseU32 (natTok v) = some v is PROVED (core's "
        "Nat.ofDigitChars_ten_toDigits); it needs v < 2^32, hence the hypothesis n_darts <= 2^32",
        "the null dart is not flagged as removed (hypothesis `m.unused 0 = false`, needed since the loader fix 7170072): "
        "`remove_free_dart(0)` is accepted by the public API, `serialize` then prints `0` in [UNUSED] and the validating loader "
        "rejects that id (`new 2 1 0; rm 0; rt` -> `err InconsistentData 8`); the streams never flag the null dart",
        "the version token (CARGO_PKG_VERSION) is a parameter of the theorems, assumed non-empty, blank-free, free of `#` and not "
        "starting with `[`",
        "`value.trim()` before `lines()` is not modelled separately: blank lines are skipped and every line is trimmed, so it "
        "has no effect on the result",
        "two-sided streams only use exactly representable dyadic coordinates (|p| < 2^53, denominators up to 2^59); "
        "-0.0, subnormals, huge values, infinities and f32 maps are exercised on the implementation only (stream `special floats`) "
        "because the model's coordinates are rationals; NaN is excluded (its payload is not printed)",
    ],
    "rule": "exhaustive: every well-formed 2-map with n<=N darts (gens.wf_maps2) x random defined/undefined vertex patterns "
            "(values also on non-vertex ids, removed darts and slot 0): ser (model = implementation = independent Python "
            "serializer), rt (implementation and model must answer `rt true true`), loadtext of the expected tokens, snap and ser "
            "of the rebuilt map; random: WF maps with 5..60 darts, removed and isolated darts, wide dyadic coordinates; widths: "
            "chains/cycles/pairs/free maps with n_darts in {9,10,11,99,100,101,999,1000,1001}; special floats (implementation "
            "only): +-0, subnormals, MIN_POSITIVE, MAX, +-inf, random bit patterns, f32 maps via rt32. Character level, in every "
            "two-sided case: `serhex` = the BYTES of the real serializer (coordinate fields replaced by their exact rational text, "
            "every other byte kept) must equal the character-level model and an independent Python rendering (padding, trim, "
            "trailing blank, newlines), `loadhex` feeds a raw text with exact decimal coordinates to the real reader and the "
            "character-level model, snapshot and bytes of the second serialization compared.",
    "not_proved": [
        "the decimal text of coordinate values (Display / FromStr for f64, f32 through f64): validated by the byte-for-byte and "
        "bit-for-bit checks `rt` / `rt32` on the implementation, not proved",
        "coordinates outside the 18-digit rational range (e.g. subnormals, 1e300) and -0.0 / infinities are not representable "
        "in the model: covered by the implementation-only stream",
        "std::thread::scope in serialize (the three buffers are filled by three threads): the model is the sequential result",
    ],
}


# ---------------------------------------------------------------------------------------------
# cases
# ---------------------------------------------------------------------------------------------

def coord_small(rng):
    return gens.dy(rng)


def coord_wide(rng):
    k = rng.random()
    if k < 0.35:
        return gens.dy(rng)
    if k < 0.5:
        # full 53-bit mantissa, e.g. the f64 nearest to 1/3: decimal text is not exact
        p = rng.getrandbits(53) | 1
        q = 2 ** rng.randint(40, 59)
        return ("-" if rng.random() < 0.5 else "") + f"{p}/{q}"
    if k < 0.65:
        return ("-" if rng.random() < 0.5 else "") + f"1/{2 ** rng.randint(1, 59)}"
    if k < 0.8:
        return ("-" if rng.random() < 0.5 else "") + str(2 ** rng.randint(10, 60))
    if k < 0.9:
        return ("-" if rng.random() < 0.5 else "") + str(rng.getrandbits(52) | 1)
    return "0"


def roundtrip_case(cid, rng, n, b0, b1, b2, u, coord, pv=0.7, mask=None, sig="roundtrip"):
    mask = rng.choice([0, 7, 23]) if mask is None else mask
    lines = [gens.load_line(2, n, mask, [b0, b1, b2], u)]
    vals = {}
    ids = list(range(0, n + 1))
    for d in ids:
        # slot 0 and removed darts get values less often; they are never printed
        p = pv if (d != 0 and not u[d]) else 0.2
        if rng.random() < p:
            x, y = coord(rng), coord(rng)
            vals[d] = (x, y)
            lines.append(f"wv {d} {x} {y}")
    verts = {d: (cg.fr_tok(cg.parse_coord(x)), cg.fr_tok(cg.parse_coord(y))) for d, (x, y) in vals.items()}
    expect = cg.ser_lines(n, b0, b1, b2, u, verts)
    # character level: the bytes of serialize (coordinates as exact rationals) and a raw text with the exact
    # decimal expansion of every (dyadic) coordinate, fed to the reader without any conversion
    text_rat = cg.ser_text(n, b0, b1, b2, u, verts)
    decs = {d: (cg.exact_decimal(cg.parse_coord(x)), cg.exact_decimal(cg.parse_coord(y))) for d, (x, y) in vals.items()}
    text_dec = cg.ser_text(n, b0, b1, b2, u, decs)
    lines += ["snap", "ser", "rt", cg.loadtext_line(mask, expect), "snap", "ser",
              "serhex", f"loadhex {mask} {cg.hexs(text_dec)}", "snap", "serhex"]
    return Case(cid, lines, oracle="rt",
                meta={"sig": sig, "expect_ser": "ser " + cg.lines_str(expect),
                      "expect_serhex": "serhex " + cg.hexs(text_rat),
                      "vids": cg.vertex_ids(n, b0, b1, b2, u), "nvals": len(vals)})


def oracle_rt(case, li):
    if case.oracle == "special":
        for ln in li:
            if ln.startswith("<missing"):
                return ln
        rts = [ln for ln in li if ln.startswith("rt ") or ln in ("panic",) or ln.startswith("err ") or ln.startswith("layout ")]
        want = case.meta["n_rt"]
        if len(rts) != want or any(ln != "rt true true" for ln in rts):
            return f"round trip fails on the implementation: {rts}"
        return None
    if case.oracle != "rt":
        return None
    if any(ln.startswith("<missing") for ln in li):
        return li[0]
    k = len(case.lines) - 10
    snap1, ser1, rt, lt, snap2, ser2, hex1, lh, snap3, hex2 = li[k:k + 10]
    if hex1 != case.meta["expect_serhex"]:
        return ("the BYTES of serialize differ from the expected characters: got "
                f"{bytes.fromhex(hex1.split()[1]).decode(errors='replace')[:300]!r}" if hex1.startswith("serhex ") else f"serhex: {hex1[:80]!r}")
    if lh != "ok":
        return f"the raw text (exact decimals) is not accepted by the loader: {lh}"
    if hex2 != hex1:
        return "the bytes of the second serialization (after reading the raw text) differ"
    if ser1 != case.meta["expect_ser"]:
        return f"serialization differs from the expected tokens: got {ser1[:200]!r} expected {case.meta['expect_ser'][:200]!r}"
    if rt != "rt true true":
        return f"round trip fails: {rt}"
    if lt != "ok":
        return f"the expected tokens are not accepted by the loader: {lt}"
    if ser2 != ser1:
        return f"second serialization differs: {ser2[:200]!r}"
    s1, s2 = cg.parse_snap(snap1), cg.parse_snap(snap2)
    if s1 is None or s2 is None:
        return f"no snapshot: {snap1[:80]!r} {snap2[:80]!r}"
    s3 = cg.parse_snap(snap3)
    if s3 is None:
        return f"no snapshot: {snap3[:80]!r}"
    vids = set(case.meta["vids"])
    for which, sx in (("tokens", s2), ("raw text", s3)):
        for k2 in ("n", "b0", "b1", "b2", "u"):
            if s1[k2] != sx[k2]:
                return f"map rebuilt from the {which} differs in {k2}"
        for d in range(s1["n"]):
            if d in vids:
                if s1["a0"][d] != sx["a0"][d]:
                    return f"vertex {d} differs after the round trip ({which}): {s1['a0'][d]} -> {sx['a0'][d]}"
            elif sx["a0"][d] != "none":
                return f"map rebuilt from the {which} has a value at {d} which is not a vertex id"
    return None


def exhaustive(nmax, rng, patterns=2):
    cases, cid = [], 0
    for n in range(0, nmax + 1):
        for (b0, b1, b2, u) in gens.wf_maps2(n):
            for k in range(patterns):
                cid += 1
                cases.append(roundtrip_case(f"ex{n}-{cid}", rng, n, b0, b1, b2, u, coord_small,
                                            pv=(0.9 if k == 0 else 0.5)))
    return cases


def random_maps(count, rng, nmin=5, nmax=60):
    cases = []
    for k in range(count):
        n = rng.randint(nmin, nmax)
        b0, b1, b2, u = cg.random_wf_map(rng, n, p1=rng.choice([0.3, 0.6, 0.9]), p2=rng.choice([0.3, 0.7, 0.95]),
                                         pu=rng.choice([0.0, 0.3, 0.8]))
        cases.append(roundtrip_case(f"rnd{k}", rng, n, b0, b1, b2, u, coord_wide, pv=rng.choice([0.3, 0.8, 1.0]),
                                    sig="random"))
    return cases


def width_maps(rng, sizes, kinds):
    cases = []
    for n in sizes:
        for kind in kinds:
            b0, b1, b2, u = cg.chain_map(n, kind)
            if kind == "free":
                for d in range(1, n + 1):
                    if rng.random() < 0.4:
                        u[d] = 1
                if n >= 1:
                    u[n] = 1  # the widest id appears in the [UNUSED] line
            cases.append(roundtrip_case(f"w{n}-{kind}", rng, n, b0, b1, b2, u, coord_wide, pv=0.5, mask=0,
                                        sig=f"width {kind}"))
    return cases


SPECIAL_BITS = [
    0x0000000000000000, 0x8000000000000000,  # +-0
    0x0000000000000001, 0x8000000000000001,  # smallest subnormals
    0x000fffffffffffff,                      # largest subnormal
    0x0010000000000000,                      # MIN_POSITIVE
    0x7fefffffffffffff, 0xffefffffffffffff,  # +-MAX
    0x7ff0000000000000, 0xfff0000000000000,  # +-inf
    0x3fd5555555555555,                      # 1/3
    0x3fb999999999999a,                      # 0.1
    0x4340000000000000, 0x4340000000000001,  # 2^53, 2^53+2
    0x36a0000000000000,                      # 2^-149 (smallest f32 subnormal)
    0x3810000000000000,                      # 2^-126 (f32 MIN_POSITIVE)
    0x47efffffe0000000,                      # f32 MAX
    0x47f0000000000000,                      # 2^128 (-> f32 inf)
    0x3ff0000000000001,                      # 1 + ulp
    0x44b52d02c7e14af6,                      # 1e23
    0x3e7ad7f29abcaf48,                      # 1e-7
]


def special_cases(count, rng):
    """implementation only: arbitrary f64 bit patterns (no NaN), f64 and f32 round trips"""
    cases = []
    for k in range(count):
        n = rng.randint(1, 8)
        b0, b1, b2, u = cg.random_wf_map(rng, n, pu=0.2)
        lines = [gens.load_line(2, n, 0, [b0, b1, b2], u)]
        for d in range(1, n + 1):
            if rng.random() < 0.85:
                bits = []
                for _ in range(2):
                    if rng.random() < 0.6:
                        bits.append(rng.choice(SPECIAL_BITS))
                    else:
                        x = rng.getrandbits(64)
                        if (x >> 52) & 0x7ff == 0x7ff and x & ((1 << 52) - 1):
                            x &= ~((1 << 52) - 1)  # NaN -> inf
                        bits.append(x)
                lines.append(f"wvbits {d} {bits[0]:016x} {bits[1]:016x}")
        lines += ["rt", "rt32"]
        cases.append(Case(f"sp{k}", lines, oracle="special", meta={"sig": "special floats", "n_rt": 2}))
    return cases


def campaign_impl_only(cases, oracle):
    """same result shape as hv.campaign, running the implementation driver only"""
    rc, out = hv.run_bin(hv.HCIMPL, hv.render(cases))
    groups = hv.split_outputs(out)
    stats = {"cases": len(cases), "lines": 0, "disagreements": 0, "oracle_failures": 0, "impl_outcomes": {}, "ops": {}}
    violations, distinct, samples = [], set(), []
    for k, c in enumerate(cases):
        li = groups[k][1] if k < len(groups) else ["<missing: implementation driver died>"]
        stats["lines"] += len(li)
        distinct.add(hashlib.md5("\n".join(c.lines + li).encode()).hexdigest())
        for ln in c.lines:
            op = ln.split(" ", 1)[0]
            stats["ops"][op] = stats["ops"].get(op, 0) + 1
        for ln in li:
            key = " ".join(ln.split(" ")[:1])
            stats["impl_outcomes"][key] = stats["impl_outcomes"].get(key, 0) + 1
        ofail = oracle(c, li)
        if ofail:
            stats["oracle_failures"] += 1
            violations.append({
                "kind": "oracle",
                "what": f"property fails on the implementation (implementation-only stream) on case {c.cid}: {ofail}",
                "found_input": True, "sig": c.meta.get("sig", ""),
                "replay": {"case": c.cid, "input_lines": c.lines, "impl_output": li, "oracle_failure": ofail,
                           "replay_cmd": f"printf '%s\\n' <input_lines> | {hv.HCIMPL}"}})
        if len(samples) < 2:
            samples.append({"case": c.cid, "input": c.lines[:12], "impl_output": li[:12]})
    stats["distinct_nontrivial"] = len(distinct)
    return {"stats": stats, "violations": violations, "samples": samples}


def run(tier, seed):
    rng = random.Random(seed)
    parts = []
    if tier == "quick":
        r1 = hv.campaign(exhaustive(3, rng), oracle_rt)
        r1["stats"]["exhaustive"] = True
        parts.append(("exhaustive n<=3 x 2 vertex patterns", r1))
        parts.append(("random maps 5..60 darts", hv.campaign(random_maps(1500, rng), oracle_rt)))
        parts.append(("column widths", hv.campaign(
            width_maps(rng, [8, 9, 10, 98, 99, 100, 998, 999, 1000], ["chain", "cycle", "free"]), oracle_rt)))
        parts.append(("special floats (implementation only)", campaign_impl_only(special_cases(4000, rng), oracle_rt)))
    else:
        r1 = hv.campaign(exhaustive(4, rng), oracle_rt)
        r1["stats"]["exhaustive"] = True
        parts.append(("exhaustive n<=4 x 2 vertex patterns", r1))
        parts.append(("random maps 5..120 darts", hv.campaign(random_maps(4000, rng, nmax=120), oracle_rt)))
        parts.append(("column widths", hv.campaign(
            width_maps(rng, [8, 9, 10, 98, 99, 100, 998, 999, 1000, 9998, 9999, 10000],
                       ["chain", "cycle", "pairs", "free"]), oracle_rt)))
        parts.append(("special floats (implementation only)", campaign_impl_only(special_cases(20000, rng), oracle_rt)))
    return hv.merge_results(parts)


def matches(known, v):
    return False
