"""C03 — orbits, cell ids and cell iterators agree with the orbit definition (2-D part; 3-D hook below)."""
import random

import gens
import hv
from hv import Case

SPEC = {
    "lean_modules": ["Honeycomb.Props.C03"],
    "required_theorems": [
        "C03_generic_bfs",
        "C03_orbit2_spec",
        "C03_orbit2_volume_panics",
        "C03_images_inverse_closed",
        "C03_orbit2_is_cell",
        "C03_vertexId2_min",
        "C03_edgeId2_min",
        "C03_faceId2_min",
        "C03_same_id_iff_same_cell",
        "C03_orbit_of_in_use_is_in_use",
        "C03_iter_sorted",
        "C03_iterVertices2_mem",
        "C03_iterEdges2_mem",
        "C03_iterFaces2_mem",
        "C03_faceLinear_closed",
        "C03_vertexLinear_closed",
        "C03_transactional_eq_plain",
    ],
    "trusted_base": [
        "Lean 4.33 kernel; axioms propext, Classical.choice, Quot.sound only",
        "hand-written model Honeycomb/Model/{Stm,Map,Ops,Ops2}.lean (bfs, gen2, orbit2, vertexId2/edgeId2/faceId2, iterCells) tied to "
        "/repo by the hcmodel/hcimpl correspondence run on the yielded *sequences*",
        "that the four Rust implementations (orbit, orbit_transac, *_id_transac, iter_*) compute what the single model program computes "
        "is established by the correspondence run only (model: one program; `orbitnt`/`vidnt`/… are mapped to the same program)",
        "Rust harness /verif/harness/hcimpl, tools/*.py (the Python oracle recomputes cells by an independent union-find / closure)",
        "fast-stm is represented by the sequential semantics `atomically` and the log semantics `atomicallyLog` (T1); C07 covers concurrency",
    ],
    "assumptions": [
        "maps have fewer than 2^32 darts (no u32 wrap-around is modelled)",
        "theorems are stated for non-null existing darts (d != 0, d < n_darts) of maps satisfying WF 3 (Model/WF.lean); null and "
        "out-of-range darts are correspondence-only",
        "the correspondence is exhaustive only up to the dart bound stated in coverage.rule; above it sampled",
        "`i_cell::<I>` is not driven separately: it is `orbit` with the Vertex/Edge/Face policy (one-line wrapper, read)",
        "the model's id functions take the minimum of the collected orbit while the Rust code accumulates the minimum along the "
        "walk (same reads in the same order, same value); iterators call the plain id once per dart (one transaction each)",
    ],
    "rule": "exhaustive: every well-formed 2-map with n<=N darts (every partial injection b1, every fixed-point-free partial involution b2, "
            "every admissible removed set) x every dart 0..n+1 x every policy (v vl e f fl vol voll + custom slices c12 c02 c0 c c21 c10 c3) "
            "through orbit_transac and orbit, vertex/edge/face ids through *_id_transac and *_id, and the three iterators; "
            "random: WF maps with up to 40 darts (random closed/open faces, random 2-matchings, removed darts) and square grids, same "
            "observations on every dart. Oracle on the implementation's answers with cells recomputed in Python from the `snap` line "
            "(closure under images and inverses): starts with the dart, no duplicate, no 0, set = forward closure, = the cell for v/e/f, "
            "= the cell for vl/fl on closed cells, ids = cell minimum, equal ids iff same cell, iterators = sorted distinct ids of in-use "
            "darts, transactional answers = plain answers. distinct_nontrivial = distinct implementation output transcripts.",
    "not_proved": [
        "3-D clauses of C03 (orbit3, vertex/edge/face/volume ids of CMap3, the two-sided face_id walk, iter_volumes): no theorem yet; they "
        "are validated by correspondence only once tools/props/c03.py gets a 3-D stream (hook `streams3d`, currently empty)",
        "that Rust's non-transactional `orbit` iterator and `*_id` wrappers coincide with the transactional code is a fact about the code "
        "(correspondence + oracle), the model has a single program for both",
    ],
}

POLS = ["v", "vl", "e", "f", "fl", "vol", "voll", "c12", "c02", "c0", "c", "c21", "c10", "c3"]
SYM = {"v": 0, "e": 1, "f": 2}          # policy -> id kind
COUNT = {"orbit_checked": 0, "orbit_cell_checked": 0, "linear_closed": 0, "linear_open_skipped": 0,
         "ids_checked": 0, "id_pairs": 0, "iter_checked": 0, "tx_vs_plain": 0}


# ---------------------------------------------------------------------------------------------
# independent recomputation of cells from a snapshot
# ---------------------------------------------------------------------------------------------

def parse_snap(line):
    """'snap n=7 | b0: .. | b1: .. | b2: .. | u: .. | a0: ..' -> (n, [b0, b1, b2], u)"""
    parts = [p.strip() for p in line.split("|")]
    n = int(parts[0].split("=")[1])
    rows = {}
    for p in parts[1:]:
        k, _, v = p.partition(":")
        if k in ("b0", "b1", "b2", "u"):
            rows[k] = [int(x) for x in v.split()]
    return n, [rows["b0"], rows["b1"], rows["b2"]], rows["u"]


def images(pol, b, x):
    """generator images of dart x under the policy, None if the policy is refused by a 2-map"""
    if pol == "v":
        return [b[1][b[2][x]], b[2][b[0][x]]]
    if pol == "vl":
        return [b[1][b[2][x]]]
    if pol == "e":
        return [b[2][x]]
    if pol == "f":
        return [b[1][x], b[0][x]]
    if pol == "fl":
        return [b[1][x]]
    if pol in ("vol", "voll"):
        return None
    if pol.startswith("c"):
        idx = [int(c) for c in pol[1:]]
        if any(i > 2 for i in idx):
            return None
        return [b[i][x] for i in idx]
    return None


def forward(pol, b, d):
    seen, todo = {d}, [d]
    while todo:
        x = todo.pop()
        for y in images(pol, b, x):
            if y != 0 and y not in seen:
                seen.add(y)
                todo.append(y)
    return seen


def components(pol, b, n):
    """union-find over darts 1..n-1 with one union per (dart, non-null image): the classes of the
    equivalence generated by the images, i.e. closure under images and inverses"""
    parent = list(range(n))

    def find(x):
        while parent[x] != x:
            parent[x] = parent[parent[x]]
            x = parent[x]
        return x

    for x in range(1, n):
        for y in images(pol, b, x):
            if y != 0:
                rx, ry = find(x), find(y)
                if rx != ry:
                    parent[rx] = ry
    comp = {}
    for x in range(1, n):
        comp.setdefault(find(x), set()).add(x)
    return {x: comp[find(x)] for x in range(1, n)}


def parse_list(out):
    if out == "ok":
        return []
    if not out.startswith("ok "):
        return None
    return [int(x) for x in out[3:].split()]


def oracle_c03(case, li):
    if case.oracle != "c03":
        return None
    if any(x.startswith("<missing") for x in li):
        return "driver died"
    if len(li) != len(case.lines):
        return f"expected {len(case.lines)} output lines, got {len(li)}"
    snap = None
    for inp, out in zip(case.lines, li):
        if inp == "snap":
            snap = out
    n, b, u = parse_snap(snap)
    cells = {p: components(p, b, n) for p in SYM}
    ans = {}
    for inp, out in zip(case.lines, li):
        ans[inp] = out
    ids = {"vid": {}, "eid": {}, "fid": {}}
    for inp, out in zip(case.lines, li):
        t = inp.split()
        if t[0] in ("orbit", "orbitnt"):
            pol, d = t[1], int(t[2])
            if not (1 <= d < n):
                continue
            if images(pol, b, 1) is None:
                continue   # refused policy: correspondence only
            got = parse_list(out)
            if got is None:
                return f"{inp}: expected a dart list on a valid dart, got {out!r}"
            COUNT["orbit_checked"] += 1
            if not got or got[0] != d:
                return f"{inp}: the orbit does not start with the dart: {out!r}"
            if len(set(got)) != len(got):
                return f"{inp}: a dart is yielded twice: {out!r}"
            if 0 in got:
                return f"{inp}: the null dart is yielded: {out!r}"
            fw = forward(pol, b, d)
            if set(got) != fw:
                return f"{inp}: yielded {sorted(got)} but the darts reachable through the images are {sorted(fw)}"
            if pol in SYM:
                COUNT["orbit_cell_checked"] += 1
                if set(got) != cells[pol][d]:
                    return f"{inp}: yielded {sorted(got)} but the cell (images and inverses) is {sorted(cells[pol][d])}"
            if pol in ("vl", "fl"):
                full = "v" if pol == "vl" else "f"
                cell = cells[full][d]
                closed = all(images(pol, b, x)[0] != 0 for x in cell)
                if closed:
                    COUNT["linear_closed"] += 1
                    if set(got) != cell:
                        return f"{inp}: closed cell {sorted(cell)} but the linear orbit yields {sorted(got)}"
                else:
                    COUNT["linear_open_skipped"] += 1
            if t[0] == "orbit":
                other = ans.get(f"orbitnt {pol} {d}")
                if other is not None:
                    COUNT["tx_vs_plain"] += 1
                    if other != out:
                        return f"{inp}: orbit_transac gives {out!r} but orbit gives {other!r}"
        elif t[0] in ("vid", "eid", "fid", "vidnt", "eidnt", "fidnt"):
            d = int(t[1])
            if not (1 <= d < n):
                continue
            kind = t[0][:3]
            pol = {"vid": "v", "eid": "e", "fid": "f"}[kind]
            got = parse_list(out)
            if got is None or len(got) != 1:
                return f"{inp}: expected an identifier, got {out!r}"
            COUNT["ids_checked"] += 1
            want = min(cells[pol][d])
            if got[0] != want:
                return f"{inp}: identifier {got[0]} but the smallest dart of the cell {sorted(cells[pol][d])} is {want}"
            if t[0] == kind:
                ids[kind][d] = got[0]
                other = ans.get(f"{kind}nt {d}")
                if other is not None:
                    COUNT["tx_vs_plain"] += 1
                    if other != out:
                        return f"{inp}: transactional id {out!r} but plain id {other!r}"
        elif t[0] in ("iterv", "itere", "iterf"):
            kind = {"iterv": "vid", "itere": "eid", "iterf": "fid"}[t[0]]
            pol = {"iterv": "v", "itere": "e", "iterf": "f"}[t[0]]
            got = parse_list(out)
            if got is None:
                return f"{inp}: expected a list, got {out!r}"
            COUNT["iter_checked"] += 1
            in_use = [d for d in range(1, n) if not u[d]]
            want = sorted(set(min(cells[pol][d]) for d in in_use))
            if got != want:
                return f"{inp}: yields {got} but the identifiers of the in-use darts are {want}"
            if all(d in ids[kind] for d in in_use):
                want2 = sorted(set(ids[kind][d] for d in in_use))
                if got != want2:
                    return f"{inp}: yields {got} but the implementation's own ids of in-use darts are {want2}"
    # equal ids <=> same cell, on the implementation's answers
    for kind, pol in (("vid", "v"), ("eid", "e"), ("fid", "f")):
        ds = sorted(ids[kind])
        for i, d in enumerate(ds):
            for e in ds[i:]:
                COUNT["id_pairs"] += 1
                same_id = ids[kind][d] == ids[kind][e]
                same_cell = e in cells[pol][d]
                if same_id != same_cell:
                    return f"{kind}: darts {d} and {e} have ids {ids[kind][d]}, {ids[kind][e]} but same-cell is {same_cell}"
    return None


# ---------------------------------------------------------------------------------------------
# streams
# ---------------------------------------------------------------------------------------------

def observe2(darts, pols=POLS):
    out = []
    for d in darts:
        for p in pols:
            out.append(f"orbit {p} {d}")
            out.append(f"orbitnt {p} {d}")
        out += [f"vid {d}", f"vidnt {d}", f"eid {d}", f"eidnt {d}", f"fid {d}", f"fidnt {d}"]
    out += ["iterv", "itere", "iterf"]
    return out


def exhaustive(ns, rng, frac=1.0, mask=0):
    cases = []
    for n in ns:
        k = 0
        for (b0, b1, b2, u) in gens.wf_maps2(n):
            if frac < 1.0 and rng.random() > frac:
                continue
            k += 1
            load = gens.load_line(2, n, mask, [b0, b1, b2], u)
            # darts 0 and n+1 (out of range): correspondence only
            lines = [load, "snap"] + observe2(range(0, n + 2))
            cases.append(Case(f"ex{n}-{k}", lines, oracle="c03", meta={"sig": f"exhaustive-n{n}"}))
    return cases


def random_wf_map(rng, n):
    """random WF 2-map on darts 1..n: removed darts, closed polygons and open chains, random 2-matching"""
    darts = list(range(1, n + 1))
    b0, b1, b2, u = [0] * (n + 1), [0] * (n + 1), [0] * (n + 1), [0] * (n + 1)
    prem = rng.choice([0.0, 0.0, 0.1, 0.3])
    used = []
    for d in darts:
        if rng.random() < prem:
            u[d] = 1
        else:
            used.append(d)
    pool = used[:]
    rng.shuffle(pool)
    pclosed = rng.choice([0.3, 0.7, 1.0])
    maxlen = rng.choice([3, 4, 6])
    while pool:
        k = min(len(pool), rng.randint(1, maxlen))
        face, pool = pool[:k], pool[k:]
        for i in range(k - 1):
            b1[face[i]] = face[i + 1]
            b0[face[i + 1]] = face[i]
        if rng.random() < pclosed:
            b1[face[-1]] = face[0]
            b0[face[0]] = face[-1]
    pool = used[:]
    rng.shuffle(pool)
    p2 = rng.choice([0.0, 0.4, 0.8, 1.0])
    while len(pool) >= 2:
        a, c = pool.pop(), pool.pop()
        if rng.random() < p2:
            b2[a], b2[c] = c, a
    return b0, b1, b2, u


def grid_map(nx, ny):
    """nx x ny squares, dart 1+4*cell+k, k = 0 bottom, 1 right, 2 top, 3 left (all interior vertices closed)"""
    n = 4 * nx * ny
    b0, b1, b2, u = [0] * (n + 1), [0] * (n + 1), [0] * (n + 1), [0] * (n + 1)

    def dart(i, j, k):
        return 1 + 4 * (i + nx * j) + k

    for j in range(ny):
        for i in range(nx):
            for k in range(4):
                b1[dart(i, j, k)] = dart(i, j, (k + 1) % 4)
                b0[dart(i, j, (k + 1) % 4)] = dart(i, j, k)
            if i + 1 < nx:
                b2[dart(i, j, 1)] = dart(i + 1, j, 3)
                b2[dart(i + 1, j, 3)] = dart(i, j, 1)
            if j + 1 < ny:
                b2[dart(i, j, 2)] = dart(i, j + 1, 0)
                b2[dart(i, j + 1, 0)] = dart(i, j, 2)
    return b0, b1, b2, u


def random_maps(count, rng, nmax=40, mask=0):
    cases = []
    grids = [(a, c) for a in range(1, 5) for c in range(1, 5) if 4 * a * c <= nmax]
    for k in range(count):
        if k < len(grids):
            nx, ny = grids[k]
            n = 4 * nx * ny
            b0, b1, b2, u = grid_map(nx, ny)
            sig = "grid"
        else:
            n = rng.randint(4, nmax)
            b0, b1, b2, u = random_wf_map(rng, n)
            sig = "random-map"
        load = gens.load_line(2, n, mask, [b0, b1, b2], u)
        pols = POLS if n <= 16 else ["v", "vl", "e", "f", "fl", rng.choice(["c12", "c02", "c0", "c", "c21", "c10"])]
        lines = [load, "snap"] + observe2(range(0, n + 1), pols)
        cases.append(Case(f"rm{k}", lines, oracle="c03", meta={"sig": sig}))
    return cases


def streams3d(tier, rng):
    """TODO(3-D): CMap3 observation streams (gens.wf_maps3 / gens.faces3_maps / polyhedra x gens.observe3) with a
    3-D oracle.  Until the 3-D model (Ops3) covers orbit3 / ids / iterators this returns no case: the 3-D clauses
    of C03 are then not checked at all (see SPEC['not_proved'])."""
    return []


def run(tier, seed):
    rng = random.Random(seed)
    for k in COUNT:
        COUNT[k] = 0
    parts = []
    if tier == "quick":
        r1 = hv.campaign(exhaustive([1, 2, 3, 4], rng), oracle_c03)
        r1["stats"]["exhaustive"] = True
        parts.append(("exhaustive n<=4", r1))
        parts.append(("exhaustive n=5 (1% sample)", hv.campaign(exhaustive([5], rng, 0.01), oracle_c03)))
        parts.append(("random maps <=40 darts, grids", hv.campaign(random_maps(1500, rng), oracle_c03)))
    else:
        r1 = hv.campaign(exhaustive([1, 2, 3, 4], rng), oracle_c03)
        r1["stats"]["exhaustive"] = True
        parts.append(("exhaustive n<=4", r1))
        parts.append(("exhaustive n=5 (20% sample)", hv.campaign(exhaustive([5], rng, 0.20), oracle_c03)))
        parts.append(("random maps <=40 darts, grids", hv.campaign(random_maps(20000, rng), oracle_c03)))
    s3 = streams3d(tier, rng)
    if s3:
        parts.append(("3-D observations (correspondence only)", hv.campaign(s3, None)))
    res = hv.merge_results(parts)
    res["stats"]["oracle_counts"] = dict(COUNT)
    res["stats"]["exhaustive"] = True
    return res


def matches(known, v):
    return False
