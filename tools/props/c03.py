"""C03 — orbits, cell ids and cell iterators agree with the orbit definition (2-D and 3-D: theorems + tie + oracle)."""
import random

import gens
import hv
from hv import Case

SPEC = {
    "lean_modules": ["Honeycomb.Props.C03", "Honeycomb.Props.C03b", "Honeycomb.Props.C03Gen"],
    # Gen/OrbitArms.lean is re-translated from dim2/orbits.rs, dim3/orbits.rs, dim3/basic_ops.rs before every build
    "gen": ["orbits"],
    "required_theorems": [
        # Props/C03Gen.lean: the translated arms of orbit / orbit_transac and the push lists of the 3-D identifier walks are
        # the images of the model
        "C03_gen_orbit2_arms", "C03_gen_orbit2_complete", "C03_gen_orbit2_plain_eq_transac",
        "C03_gen_orbit3_arms", "C03_gen_orbit3_complete", "C03_gen_orbit3_plain_eq_transac", "C03_gen_id_pushes3", "C03_gen_id_pushes2", "C03_gen_id_walks2_eq_arms", "C03_gen_edgeId2", "C03_gen_cell_iters", "C03_gen_iterators2", "C03_gen_iterators3", "interpCellIter_eq",
        "C03_generic_bfs",
        "C03_orbit2_spec",
        "C03_orbit2_volume_panics",
        "C03_images_inverse_closed",
        "C03_orbit2_is_cell",
        "C03_vertexId2_min",
        "C03_edgeId2_min",
        "C03_faceId2_min",
        "C03_same_id_iff_same_cell",
        "C03_orbit_of_in_use_is_in_use",
        "C03_iter_sorted",
        "C03_iterVertices2_mem",
        "C03_iterEdges2_mem",
        "C03_iterFaces2_mem",
        "C03_faceLinear_closed",
        "C03_vertexLinear_closed",
        "C03_transactional_eq_plain",
        # 3-D (Props/C03b.lean)
        "C03_orbit3_spec",
        "C03_orbit3_custom_bad_panics",
        "C03_images3_inverse_closed",
        "C03_orbit3_is_cell",
        "C03_orbit3_of_in_use_is_in_use",
        "C03_vertexId3_min",
        "C03_edgeId3_min",
        "C03_volumeId3_min",
        "C03_faceId3_min",
        "C03_same_id3_iff_same_cell",
        "C03_iter3_sorted",
        "C03_iterVertices3_mem",
        "C03_iterEdges3_mem",
        "C03_iterFaces3_mem",
        "C03_iterVolumes3_mem",
        "C03_linear3_closed",
        "C03_transactional3_eq_plain",
    ],
    "trusted_base": [
        "Lean 4.33 kernel; axioms propext, Classical.choice, Quot.sound only",
        "hand-written model Honeycomb/Model/{Stm,Map,Ops,Ops2,Ops3}.lean (bfs, gen2/gen3, orbit2/orbit3, vertexId2/edgeId2/faceId2, popLoop, "
        "genVid3, vertexId3/edgeId3/faceId3 (faceWalk3)/volumeId3, iterCells) tied to /repo by the hcmodel/hcimpl correspondence run on "
        "the yielded *sequences*",
        "that the four Rust implementations (orbit, orbit_transac, *_id_transac, iter_*) compute what the single model program computes "
        "is established by the correspondence run only (model: one program; `orbitnt`/`vidnt`/… are mapped to the same program)",
        "Rust harness /verif/harness/hcimpl, tools/*.py (the Python oracle recomputes cells by an independent union-find / closure)",
        "fast-stm is represented by the sequential semantics `atomically` and the log semantics `atomicallyLog` (T1); C07 covers concurrency",
    ],
    "assumptions": [
        "maps have fewer than 2^32 darts (no u32 wrap-around is modelled)",
        "theorems are stated for non-null existing darts (d != 0, d < n_darts) of maps satisfying WF 3 resp. WF 4 (Model/WF.lean); null "
        "and out-of-range darts are correspondence-only",
        "3-D face ids: proved under FaceScope (Mirror; along b1 a dart is 3-free iff its successor is) which contains 'glued faces are "
        "closed and mirrored'; glued faces may even be open, faces that are not 3-linked are unrestricted. Vertex, edge, volume ids and "
        "all orbits: every WF 4 map",
        "the correspondence is exhaustive only up to the dart bound stated in coverage.rule; above it sampled",
        "`i_cell::<I>` is not driven separately: it is `orbit` with the Vertex/Edge/Face policy (one-line wrapper, read)",
        "the model's id functions take the minimum of the collected orbit while the Rust code accumulates the minimum along the "
        "walk (same reads in the same order, same value); iterators call the plain id once per dart (one transaction each)",
    ],
    "rule": "exhaustive: every well-formed 2-map with n<=N darts (every partial injection b1, every fixed-point-free partial involution b2, "
            "every admissible removed set) x every dart 0..n+1 x every policy (v vl e f fl vol voll + custom slices c12 c02 c0 c c21 c10 c3) "
            "through orbit_transac and orbit, vertex/edge/face ids through *_id_transac and *_id, and the three iterators; "
            "random: WF maps with up to 40 darts (random closed/open faces, random 2-matchings, removed darts) and square grids, same "
            "observations on every dart. Oracle on the implementation's answers with cells recomputed in Python from the `snap` line "
            "(closure under images and inverses): starts with the dart, no duplicate, no 0, set = forward closure, = the cell for v/e/f, "
            "= the cell for vl/fl on closed cells, ids = cell minimum, equal ids iff same cell, iterators = sorted distinct ids of in-use "
            "darts, transactional answers = plain answers. 3-D (CMap3): every WF 3-map with n<=3 (quick; n<=4 thorough) darts, removed "
            "darts included, x every dart 0..n+1 x policies v vl e f fl vol voll c10 c01 c23 c3 c0123 c4 through orbit_transac and "
            "orbit, the four ids through *_id_transac and *_id, the four iterators; the glued-faces family (closed and open faces of "
            "<=4 sides, fresh and after random link/sew/unlink/unsew/remove/insert calls); pairs of polyhedra (glued or not) with "
            "faces opened by 1-unlinks and edges opened by 2-unlinks; same oracle with the 3-D generator sets of dim3/orbits.rs, "
            "restricted as the property says (see not_proved), plus on every map: iter_* = in-use darts that are their own id. "
            "distinct_nontrivial = distinct implementation output transcripts.",
    "not_proved": [
        "3-D face ids outside `FaceScope` (Props/C03b.lean: Mirror + every face 3-linked as a whole): no claim — dropping either condition "
        "gives wrong ids on the real code (4-dart counterexamples in the comment of C03b.lean). FaceScope CONTAINS the property's scope "
        "(glued faces closed and mirrored): open mirrored glued faces and all faces that are not 3-linked are proved too",
        "3-D linear policies: proved equal to the full cell when every one-directional generator is defined on all darts of the cell "
        "or on none (`LinClosed`, the oracle's `linear_closed3`); the oracle additionally restricts `vl` to maps whose glued faces are "
        "closed and mirrored, the theorem does not need that",
        "3-D null / out-of-range darts, refused Custom slices other than an index >= 4 on an existing dart: correspondence only",
        "that Rust's non-transactional `orbit` iterator and `*_id` wrappers coincide with the transactional code is a fact about the code "
        "(correspondence + oracle), the model has a single program for both",
    ],
}

POLS = ["v", "vl", "e", "f", "fl", "vol", "voll", "c12", "c02", "c0", "c", "c21", "c10", "c3"]
SYM = {"v": 0, "e": 1, "f": 2}          # policy -> id kind
COUNT = {"orbit_checked": 0, "orbit_cell_checked": 0, "linear_closed": 0, "linear_open_skipped": 0,
         "ids_checked": 0, "id_pairs": 0, "iter_checked": 0, "tx_vs_plain": 0, "icell_vs_orbit": 0, "isfree_checked": 0}


# ---------------------------------------------------------------------------------------------
# independent recomputation of cells from a snapshot
# ---------------------------------------------------------------------------------------------

def parse_snap(line):
    """'snap n=7 | b0: .. | b1: .. | b2: .. | u: .. | a0: ..' -> (n, [b0, b1, b2], u)"""
    parts = [p.strip() for p in line.split("|")]
    n = int(parts[0].split("=")[1])
    rows = {}
    for p in parts[1:]:
        k, _, v = p.partition(":")
        if k in ("b0", "b1", "b2", "u"):
            rows[k] = [int(x) for x in v.split()]
    return n, [rows["b0"], rows["b1"], rows["b2"]], rows["u"]


def images(pol, b, x):
    """generator images of dart x under the policy, None if the policy is refused by a 2-map"""
    if pol == "v":
        return [b[1][b[2][x]], b[2][b[0][x]]]
    if pol == "vl":
        return [b[1][b[2][x]]]
    if pol == "e":
        return [b[2][x]]
    if pol == "f":
        return [b[1][x], b[0][x]]
    if pol == "fl":
        return [b[1][x]]
    if pol in ("vol", "voll"):
        return None
    if pol.startswith("c"):
        idx = [int(c) for c in pol[1:]]
        if any(i > 2 for i in idx):
            return None
        return [b[i][x] for i in idx]
    return None


def forward(pol, b, d):
    seen, todo = {d}, [d]
    while todo:
        x = todo.pop()
        for y in images(pol, b, x):
            if y != 0 and y not in seen:
                seen.add(y)
                todo.append(y)
    return seen


def components(pol, b, n):
    """union-find over darts 1..n-1 with one union per (dart, non-null image): the classes of the
    equivalence generated by the images, i.e. closure under images and inverses"""
    parent = list(range(n))

    def find(x):
        while parent[x] != x:
            parent[x] = parent[parent[x]]
            x = parent[x]
        return x

    for x in range(1, n):
        for y in images(pol, b, x):
            if y != 0:
                rx, ry = find(x), find(y)
                if rx != ry:
                    parent[rx] = ry
    comp = {}
    for x in range(1, n):
        comp.setdefault(find(x), set()).add(x)
    return {x: comp[find(x)] for x in range(1, n)}


def parse_list(out):
    if out == "ok":
        return []
    if not out.startswith("ok "):
        return None
    return [int(x) for x in out[3:].split()]


def oracle_c03(case, li):
    if case.oracle != "c03":
        return None
    if any(x.startswith("<missing") for x in li):
        return "driver died"
    if len(li) != len(case.lines):
        return f"expected {len(case.lines)} output lines, got {len(li)}"
    snap = None
    for inp, out in zip(case.lines, li):
        if inp == "snap":
            snap = out
    n, b, u = parse_snap(snap)
    cells = {p: components(p, b, n) for p in SYM}
    ans = {}
    for inp, out in zip(case.lines, li):
        ans[inp] = out
    ids = {"vid": {}, "eid": {}, "fid": {}}
    for inp, out in zip(case.lines, li):
        t = inp.split()
        if t[0] in ("orbit", "orbitnt"):
            pol, d = t[1], int(t[2])
            if not (1 <= d < n):
                continue
            if images(pol, b, 1) is None:
                continue   # refused policy: correspondence only
            got = parse_list(out)
            if got is None:
                return f"{inp}: expected a dart list on a valid dart, got {out!r}"
            COUNT["orbit_checked"] += 1
            if not got or got[0] != d:
                return f"{inp}: the orbit does not start with the dart: {out!r}"
            if len(set(got)) != len(got):
                return f"{inp}: a dart is yielded twice: {out!r}"
            if 0 in got:
                return f"{inp}: the null dart is yielded: {out!r}"
            fw = forward(pol, b, d)
            if set(got) != fw:
                return f"{inp}: yielded {sorted(got)} but the darts reachable through the images are {sorted(fw)}"
            if pol in SYM:
                COUNT["orbit_cell_checked"] += 1
                if set(got) != cells[pol][d]:
                    return f"{inp}: yielded {sorted(got)} but the cell (images and inverses) is {sorted(cells[pol][d])}"
            if pol in ("vl", "fl"):
                full = "v" if pol == "vl" else "f"
                cell = cells[full][d]
                closed = all(images(pol, b, x)[0] != 0 for x in cell)
                if closed:
                    COUNT["linear_closed"] += 1
                    if set(got) != cell:
                        return f"{inp}: closed cell {sorted(cell)} but the linear orbit yields {sorted(got)}"
                else:
                    COUNT["linear_open_skipped"] += 1
            if t[0] == "orbit":
                other = ans.get(f"orbitnt {pol} {d}")
                if other is not None:
                    COUNT["tx_vs_plain"] += 1
                    if other != out:
                        return f"{inp}: orbit_transac gives {out!r} but orbit gives {other!r}"
        elif t[0] in ("vid", "eid", "fid", "vidnt", "eidnt", "fidnt"):
            d = int(t[1])
            if not (1 <= d < n):
                continue
            kind = t[0][:3]
            pol = {"vid": "v", "eid": "e", "fid": "f"}[kind]
            got = parse_list(out)
            if got is None or len(got) != 1:
                return f"{inp}: expected an identifier, got {out!r}"
            COUNT["ids_checked"] += 1
            want = min(cells[pol][d])
            if got[0] != want:
                return f"{inp}: identifier {got[0]} but the smallest dart of the cell {sorted(cells[pol][d])} is {want}"
            if t[0] == kind:
                ids[kind][d] = got[0]
                other = ans.get(f"{kind}nt {d}")
                if other is not None:
                    COUNT["tx_vs_plain"] += 1
                    if other != out:
                        return f"{inp}: transactional id {out!r} but plain id {other!r}"
        elif t[0] == "icell" and t[1] in ("0", "1", "2"):
            other = ans.get(f"orbitnt {'vef'[int(t[1])]} {t[2]}")
            if other is not None:
                COUNT["icell_vs_orbit"] += 1
                if other != out:
                    return f"{inp}: i_cell gives {out!r} but the orbit of that cell gives {other!r}"
        elif t[0] == "isfree" and 1 <= int(t[2]) < n:
            d = int(t[2])
            want = all(b[i][d] == 0 for i in range(3)) if t[1] == "all" else b[int(t[1])][d] == 0
            COUNT["isfree_checked"] += 1
            if out != f"ok {str(want).lower()}":
                return f"{inp}: answered {out!r} but the snapshot says {want}"
        elif t[0] in ("iterv", "itere", "iterf"):
            kind = {"iterv": "vid", "itere": "eid", "iterf": "fid"}[t[0]]
            pol = {"iterv": "v", "itere": "e", "iterf": "f"}[t[0]]
            got = parse_list(out)
            if got is None:
                return f"{inp}: expected a list, got {out!r}"
            COUNT["iter_checked"] += 1
            in_use = [d for d in range(1, n) if not u[d]]
            want = sorted(set(min(cells[pol][d]) for d in in_use))
            if got != want:
                return f"{inp}: yields {got} but the identifiers of the in-use darts are {want}"
            if all(d in ids[kind] for d in in_use):
                want2 = sorted(set(ids[kind][d] for d in in_use))
                if got != want2:
                    return f"{inp}: yields {got} but the implementation's own ids of in-use darts are {want2}"
    # equal ids <=> same cell, on the implementation's answers
    for kind, pol in (("vid", "v"), ("eid", "e"), ("fid", "f")):
        ds = sorted(ids[kind])
        for i, d in enumerate(ds):
            for e in ds[i:]:
                COUNT["id_pairs"] += 1
                same_id = ids[kind][d] == ids[kind][e]
                same_cell = e in cells[pol][d]
                if same_id != same_cell:
                    tag = open_face_tag(kind, cells["f"][d] | cells["f"][e], b)
                    return f"{tag}{kind}: darts {d} and {e} have ids {ids[kind][d]}, {ids[kind][e]} but same-cell is {same_cell}"
    return None


# ---------------------------------------------------------------------------------------------
# streams
# ---------------------------------------------------------------------------------------------

def observe2(darts, pols=POLS):
    out = []
    for d in darts:
        for p in pols:
            out.append(f"orbit {p} {d}")
            out.append(f"orbitnt {p} {d}")
        out += [f"vid {d}", f"vidnt {d}", f"eid {d}", f"eidnt {d}", f"fid {d}", f"fidnt {d}"]
        # i_cell::<I> (= the orbit of the I-cell; I = 3 must hit the assertion), is_i_free / is_free
        out += [f"icell {i} {d}" for i in range(4)] + [f"isfree {i} {d}" for i in (0, 1, 2, "all")]
    out += ["iterv", "itere", "iterf", "nvert"]
    return out


def exhaustive(ns, rng, frac=1.0, mask=0):
    cases = []
    for n in ns:
        k = 0
        for (b0, b1, b2, u) in gens.wf_maps2(n):
            if frac < 1.0 and rng.random() > frac:
                continue
            k += 1
            load = gens.load_line(2, n, mask, [b0, b1, b2], u)
            # darts 0 and n+1 (out of range): correspondence only
            lines = [load, "snap"] + observe2(range(0, n + 2))
            cases.append(Case(f"ex{n}-{k}", lines, oracle="c03", meta={"sig": f"exhaustive-n{n}"}))
    return cases


def random_wf_map(rng, n):
    """random WF 2-map on darts 1..n: removed darts, closed polygons and open chains, random 2-matching"""
    darts = list(range(1, n + 1))
    b0, b1, b2, u = [0] * (n + 1), [0] * (n + 1), [0] * (n + 1), [0] * (n + 1)
    prem = rng.choice([0.0, 0.0, 0.1, 0.3])
    used = []
    for d in darts:
        if rng.random() < prem:
            u[d] = 1
        else:
            used.append(d)
    pool = used[:]
    rng.shuffle(pool)
    pclosed = rng.choice([0.3, 0.7, 1.0])
    maxlen = rng.choice([3, 4, 6])
    while pool:
        k = min(len(pool), rng.randint(1, maxlen))
        face, pool = pool[:k], pool[k:]
        for i in range(k - 1):
            b1[face[i]] = face[i + 1]
            b0[face[i + 1]] = face[i]
        if rng.random() < pclosed:
            b1[face[-1]] = face[0]
            b0[face[0]] = face[-1]
    pool = used[:]
    rng.shuffle(pool)
    p2 = rng.choice([0.0, 0.4, 0.8, 1.0])
    while len(pool) >= 2:
        a, c = pool.pop(), pool.pop()
        if rng.random() < p2:
            b2[a], b2[c] = c, a
    return b0, b1, b2, u


def grid_map(nx, ny):
    """nx x ny squares, dart 1+4*cell+k, k = 0 bottom, 1 right, 2 top, 3 left (all interior vertices closed)"""
    n = 4 * nx * ny
    b0, b1, b2, u = [0] * (n + 1), [0] * (n + 1), [0] * (n + 1), [0] * (n + 1)

    def dart(i, j, k):
        return 1 + 4 * (i + nx * j) + k

    for j in range(ny):
        for i in range(nx):
            for k in range(4):
                b1[dart(i, j, k)] = dart(i, j, (k + 1) % 4)
                b0[dart(i, j, (k + 1) % 4)] = dart(i, j, k)
            if i + 1 < nx:
                b2[dart(i, j, 1)] = dart(i + 1, j, 3)
                b2[dart(i + 1, j, 3)] = dart(i, j, 1)
            if j + 1 < ny:
                b2[dart(i, j, 2)] = dart(i, j + 1, 0)
                b2[dart(i, j + 1, 0)] = dart(i, j, 2)
    return b0, b1, b2, u


def random_maps(count, rng, nmax=40, mask=0):
    cases = []
    grids = [(a, c) for a in range(1, 5) for c in range(1, 5) if 4 * a * c <= nmax]
    for k in range(count):
        if k < len(grids):
            nx, ny = grids[k]
            n = 4 * nx * ny
            b0, b1, b2, u = grid_map(nx, ny)
            sig = "grid"
        else:
            n = rng.randint(4, nmax)
            b0, b1, b2, u = random_wf_map(rng, n)
            sig = "random-map"
        load = gens.load_line(2, n, mask, [b0, b1, b2], u)
        pols = POLS if n <= 16 else ["v", "vl", "e", "f", "fl", rng.choice(["c12", "c02", "c0", "c", "c21", "c10"])]
        lines = [load, "snap"] + observe2(range(0, n + 1), pols)
        cases.append(Case(f"rm{k}", lines, oracle="c03", meta={"sig": sig}))
    return cases


# ---------------------------------------------------------------------------------------------
# 3-D (CMap3): independent recomputation of cells, oracle, streams
# ---------------------------------------------------------------------------------------------

POLS3 = list(gens.OBS3_POLICIES)      # v vl e f fl vol voll c10 c01 c23 c3 c0123
# generator images of /repo/honeycomb-core/src/cmap/dim3/orbits.rs, as index paths: (a, b) = β_b(β_a(x))
GEN3 = {
    "v": [(2, 3), (3, 1), (2, 1), (0, 3), (0, 2), (3, 2)],   # the sixth image b2(b3(d)): /repo e8bc83e (D13)
    "vl": [(2, 3), (3, 1), (2, 1)],
    "e": [(2,), (3,)],
    "f": [(1,), (0,), (3,)],
    "fl": [(1,), (3,)],
    "vol": [(1,), (0,), (2,)],
    "voll": [(1,), (2,)],
}
SYM3 = {"v": "vid", "e": "eid", "f": "fid", "vol": "volid"}      # policy -> id kind
LIN3 = {"vl": "v", "fl": "f", "voll": "vol"}
ITER3 = {"iterv": "v", "itere": "e", "iterf": "f", "itervol": "vol"}
COUNT3 = {"maps": 0, "maps_not_wf_skipped": 0, "maps_glued_faces_open_or_unmirrored": 0, "orbit_checked": 0,
          "orbit_cell_checked": 0, "vertex_orbit_skipped": 0, "linear_closed": 0, "linear_open_skipped": 0,
          "ids_checked": 0, "vid_skipped": 0, "fid_open_or_unmirrored_skipped": 0, "fid_open_unglued_checked": 0, "id_pairs": 0, "iter_checked": 0,
          "iter_mechanism_checked": 0, "iter_skipped": 0, "tx_vs_plain": 0, "maps_with_removed_darts": 0,
          "volumes_with_open_face": 0, "boundary_vertices": 0, "icell_vs_orbit": 0, "isfree_checked": 0}


def gens3(pol):
    """index paths of the policy's generators, None if the policy is refused by a 3-map"""
    if pol in GEN3:
        return GEN3[pol]
    if pol.startswith("c") and pol[1:].isdigit() or pol == "c":
        idx = [int(c) for c in pol[1:]]
        if any(i > 3 for i in idx):
            return None
        return [(i,) for i in idx]
    return None


def apply3(path, b, n, x):
    for i in path:
        x = b[i][x] if x < n else 0
    return x if x < n else 0


def forward3(paths, b, n, d):
    seen, todo = {d}, [d]
    while todo:
        x = todo.pop()
        for p in paths:
            y = apply3(p, b, n, x)
            if y != 0 and y not in seen:
                seen.add(y)
                todo.append(y)
    return seen


def components3(paths, b, n):
    """classes of the equivalence generated by the images (= closure under images and inverses), union-find"""
    parent = list(range(n))

    def find(x):
        while parent[x] != x:
            parent[x] = parent[parent[x]]
            x = parent[x]
        return x

    for x in range(1, n):
        for p in paths:
            y = apply3(p, b, n, x)
            if y != 0:
                rx, ry = find(x), find(y)
                if rx != ry:
                    parent[rx] = ry
    comp = {}
    for x in range(1, n):
        comp.setdefault(find(x), set()).add(x)
    return {x: comp[find(x)] for x in range(1, n)}


def wf3(b, u, n):
    """WF 4 + NoImageOfUnused of Model/WF.lean on the rows of a snapshot"""
    for i in range(4):
        if b[i][0] != 0 or any(y >= n for y in b[i]):
            return False
    for x in range(1, n):
        if b[1][x] and b[0][b[1][x]] != x or b[0][x] and b[1][b[0][x]] != x:
            return False
        for i in (2, 3):
            y = b[i][x]
            if y and (y == x or b[i][y] != x):
                return False
        if u[x] and any(b[i][x] for i in range(4)):
            return False
        if any(b[i][x] and u[b[i][x]] for i in range(4)):
            return False
    return True


def face_ok3(cell, b):
    """the face is closed (β1 total on it) and, if 3-glued, glued entirely and mirrored"""
    b1, b3 = b[1], b[3]
    if any(b1[x] == 0 for x in cell):
        return False
    if all(b3[x] == 0 for x in cell):
        return True
    return all(b3[x] != 0 and b1[b3[b1[x]]] == b3[x] for x in cell)


def open_face_tag(kind, cell, b):
    """`[fid-open-face] ` when a face-id clause fails on an OPEN face (some dart of the face is 1-free): `face_id_transac`
    replays its walk backwards on open faces and never takes the minimum with the first dart of that replay"""
    return "[fid-open-face] " if kind == "fid" and any(b[1][x] == 0 for x in cell) else ""


def glued_ok3(b, n, fcells):
    """every 3-glued face of the map is closed and mirrored (the restriction of the vertex clauses)"""
    return gens.mirror3(b[1], b[3]) and all(face_ok3(fcells[x], b) for x in range(1, n) if b[3][x] != 0)


def linear_closed3(pol, cell, b, n):
    """forward reachability = the cell: every one-directional generator is a permutation of the cell or
    undefined on all of it (β2 and β3 alone are involutions: their own inverses)"""
    for p in GEN3[pol]:
        if p in ((2,), (3,)):
            continue
        ims = [apply3(p, b, n, x) for x in cell]
        if any(ims) and not all(ims):
            return False
    return True


def oracle_c03_3d(case, li):
    if case.oracle != "c03-3d":
        return None
    if any(x.startswith("<missing") for x in li):
        return "driver died"
    if len(li) != len(case.lines):
        return f"expected {len(case.lines)} output lines, got {len(li)}"
    k = max(i for i, inp in enumerate(case.lines) if inp == "snap")
    if not li[k].startswith("snap "):
        return f"snapshot failed: {li[k]!r}"
    s = gens.parse_snap(li[k])
    n, b, u = s["n"], [s["b0"], s["b1"], s["b2"], s["b3"]], s["u"]
    COUNT3["maps"] += 1
    if not wf3(b, u, n):
        COUNT3["maps_not_wf_skipped"] += 1
        return None
    cells = {p: components3(GEN3[p], b, n) for p in SYM3}
    glued = glued_ok3(b, n, cells["f"])
    if not glued:
        COUNT3["maps_glued_faces_open_or_unmirrored"] += 1
    if any(u[1:]):
        COUNT3["maps_with_removed_darts"] += 1
    COUNT3["volumes_with_open_face"] += len({min(c) for c in cells["vol"].values() if len(c) > 1 and any(b[1][x] == 0 for x in c)})
    COUNT3["boundary_vertices"] += len({min(c) for c in cells["v"].values() if len(c) > 1 and any(b[2][x] == 0 for x in c)})
    obs = list(zip(case.lines, li))[k + 1:]
    ans = dict(obs)
    ids = {kind: {} for kind in SYM3.values()}        # the implementation's own answers, every dart
    claimed = {kind: set() for kind in SYM3.values()}  # darts on which the id clause is claimed
    for inp, out in obs:
        t = inp.split()
        if t[0] == "icell" and t[1] in ("0", "1", "2", "3"):
            other = ans.get(f"orbitnt {('v', 'e', 'f', 'vol')[int(t[1])]} {t[2]}")
            if other is not None:
                COUNT3["icell_vs_orbit"] += 1
                if other != out:
                    return f"{inp}: i_cell gives {out!r} but the orbit of that cell gives {other!r}"
            continue
        if t[0] == "isfree":
            if 1 <= int(t[2]) < n:
                d = int(t[2])
                want = all(b[i][d] == 0 for i in range(4)) if t[1] == "all" else b[int(t[1])][d] == 0
                COUNT3["isfree_checked"] += 1
                if out != f"ok {str(want).lower()}":
                    return f"{inp}: answered {out!r} but the snapshot says {want}"
            continue
        if t[0] in ("orbit", "orbitnt"):
            pol, d = t[1], int(t[2])
            paths = gens3(pol)
            if not (1 <= d < n) or paths is None:
                continue      # null / out-of-range dart, refused policy: correspondence only
            got = parse_list(out)
            if got is None:
                return f"{inp}: expected a dart list on a valid dart, got {out!r}"
            COUNT3["orbit_checked"] += 1
            if not got or got[0] != d:
                return f"{inp}: the orbit does not start with the dart: {out!r}"
            if len(set(got)) != len(got):
                return f"{inp}: a dart is yielded twice: {out!r}"
            if 0 in got:
                return f"{inp}: the null dart is yielded: {out!r}"
            fw = forward3(paths, b, n, d)
            if set(got) != fw:
                return f"{inp}: yielded {sorted(got)} but the darts reachable through the images are {sorted(fw)}"
            if pol in SYM3:
                # since /repo e8bc83e the six vertex images are closed under inverse on every WF map: no restriction left
                COUNT3["orbit_cell_checked"] += 1
                if set(got) != cells[pol][d]:
                    return f"{inp}: yielded {sorted(got)} but the cell (images and inverses) is {sorted(cells[pol][d])}"
            if pol in LIN3:
                cell = cells[LIN3[pol]][d]
                if linear_closed3(pol, cell, b, n) and (pol != "vl" or glued):
                    COUNT3["linear_closed"] += 1
                    if set(got) != cell:
                        return f"{inp}: closed cell {sorted(cell)} but the linear orbit yields {sorted(got)}"
                else:
                    COUNT3["linear_open_skipped"] += 1
            if t[0] == "orbit":
                other = ans.get(f"orbitnt {pol} {d}")
                if other is not None:
                    COUNT3["tx_vs_plain"] += 1
                    if other != out:
                        return f"{inp}: orbit_transac gives {out!r} but orbit gives {other!r}"
        elif t[0] in ("vid", "eid", "fid", "volid", "vidnt", "eidnt", "fidnt", "volidnt"):
            d = int(t[1])
            if not (1 <= d < n):
                continue
            kind = t[0][:-2] if t[0].endswith("nt") else t[0]
            pol = {v: k2 for k2, v in SYM3.items()}[kind]
            got = parse_list(out)
            if got is None or len(got) != 1:
                return f"{inp}: expected an identifier, got {out!r}"
            if t[0] == kind:
                ids[kind][d] = got[0]
                other = ans.get(f"{kind}nt {d}")
                if other is not None:
                    COUNT3["tx_vs_plain"] += 1
                    if other != out:
                        return f"{inp}: transactional id {out!r} but plain id {other!r}"
            # face ids: claimed on maps whose GLUED faces are closed and mirrored (the property's restriction) — an unglued
            # face of such a map is in scope whether it is closed or open
            if kind == "fid" and not glued:
                COUNT3["fid_open_or_unmirrored_skipped"] += 1
                continue
            COUNT3["ids_checked"] += 1
            claimed[kind].add(d)
            want = min(cells[pol][d])
            if got[0] != want:
                tag = open_face_tag(kind, cells["f"][d], b)
                return f"{tag}{inp}: identifier {got[0]} but the smallest dart of the cell {sorted(cells[pol][d])} is {want}"
            if kind == "fid" and any(b[1][x] == 0 for x in cells["f"][d]):
                COUNT3["fid_open_unglued_checked"] += 1
        elif t[0] in ITER3:
            pol = ITER3[t[0]]
            kind = SYM3[pol]
            got = parse_list(out)
            if got is None:
                return f"{inp}: expected a list, got {out!r}"
            in_use = [d for d in range(1, n) if not u[d]]
            # the mechanism, on every map: keep dart d iff d is in use and d is its own identifier
            if all(d in ids[kind] for d in in_use):
                COUNT3["iter_mechanism_checked"] += 1
                want2 = [d for d in in_use if ids[kind][d] == d]
                if got != want2:
                    return f"{inp}: yields {got} but the in-use darts that are their own {kind} are {want2}"
            ok = glued if pol == "f" else True
            if not ok:
                COUNT3["iter_skipped"] += 1
                continue
            COUNT3["iter_checked"] += 1
            want = sorted(set(min(cells[pol][d]) for d in in_use))
            if got != want:
                tag = "[fid-open-face] " if pol == "f" and any(b[1][d] == 0 for d in in_use) else ""
                return f"{tag}{inp}: yields {got} but the identifiers of the in-use darts are {want}"
    # equal ids <=> same cell, on the implementation's answers (where the id clause is claimed)
    for pol, kind in SYM3.items():
        ds = sorted(d for d in claimed[kind] if d in ids[kind])
        for i, d in enumerate(ds):
            for e in ds[i:]:
                COUNT3["id_pairs"] += 1
                same_id = ids[kind][d] == ids[kind][e]
                same_cell = e in cells[pol][d]
                if same_id != same_cell:
                    tag = open_face_tag(kind, cells["f"][d] | cells["f"][e], b)
                    return f"{tag}{kind}: darts {d} and {e} have ids {ids[kind][d]}, {ids[kind][e]} but same-cell is {same_cell}"
    return None


def observe3(darts, pols=POLS3, iters=True):
    out = []
    for d in darts:
        for p in pols:
            out.append(f"orbit {p} {d}")
            out.append(f"orbitnt {p} {d}")
        for k in ("vid", "eid", "fid", "volid"):
            out += [f"{k} {d}", f"{k}nt {d}"]
        out += [f"icell {i} {d}" for i in range(5)] + [f"isfree {i} {d}" for i in (0, 1, 2, 3, "all")]
    if iters:
        out += ["iterv", "itere", "iterf", "itervol", "nvert"]
    return out


def exhaustive3(ns, rng, frac=1.0):
    """every WF 3-map (removed darts included) x every dart 0..n+1 x every policy, ids, iterators"""
    cases = []
    for n in ns:
        k = 0
        for (b0, b1, b2, b3, u) in gens.wf_maps3(n, with_unused=True):
            if frac < 1.0 and rng.random() > frac:
                continue
            k += 1
            load = gens.load_line(3, n, 0, [b0, b1, b2, b3], u)
            cases.append(Case(f"e3x{n}-{k}", [load, "snap"] + observe3(range(0, n + 2), POLS3 + ["c4"]), oracle="c03-3d",
                              meta={"sig": f"3d-exhaustive-n{n}"}))
    return cases


def edit_history3(rng, in_use, cur, length, alloc):
    """random valid-argument editing calls (as tools/props/c02.py: a removed dart is never named again)"""
    lines, in_use = [], list(in_use)
    for _ in range(length):
        op = gens.random_op3(rng, in_use, alloc=alloc, weights=[5, 4, 1, 1])
        t = op.split()
        lines.append(op)
        if t[0] == "rm":
            in_use = [d for d in in_use if d != int(t[1])]
        elif t[0] == "add":
            in_use += list(range(cur, cur + int(t[1])))
            cur += int(t[1])
        # (`ins`: the reused / new dart is only observed, never named)
    return lines


def glued_faces3(rng, max_faces, variants, frac=1.0, maxops=7):
    """the glued-faces family (closed and open faces of <= 4 sides), fresh and after random link/sew/unlink/unsew/
    remove/insert calls of every dimension, observed on every dart"""
    cases, k = [], 0
    for n, rows, faces in gens.faces3_maps(max_faces, 4):
        if frac < 1.0 and rng.random() > frac:
            continue
        load = gens.load_line(3, n, 0, rows, [0] * (n + 1))
        for v in range(variants):
            k += 1
            pre = edit_history3(rng, range(1, n + 1), n + 1, 0 if v == 0 else rng.randint(1, maxops), alloc=(v % 2 == 0))
            cases.append(Case(f"g3f{k}", [load] + pre + ["snap"] + observe3(range(0, n + 3)), oracle="c03-3d",
                              meta={"sig": "3d-glued-faces"}))
    return cases


def polyhedra3(count, rng):
    """pairs of polyhedra (glued by a 3-link/3-sew or not), some faces opened by 1-unlinks (a volume with open
    faces, darts only reachable through β0), some edges opened by 2-unlinks (boundary vertices)"""
    cases = []
    pairs = gens.cell_pairs()
    for k in range(count):
        name, pa, pb = pairs[k % len(pairs)]
        if rng.random() < 0.5:
            pa, pb = pb, pa
        lines, a, b, pair = gens.two_cells_lines(rng, pa, pb, 0, values=False, sew=rng.random() < 0.3, force=rng.random() < 0.7,
                                                 glue=rng.choice(["sew", "link"]))
        if pair and rng.random() < 0.25:
            lines = lines[:-1]      # not glued
        n = a.ndarts + b.ndarts
        darts = list(range(1, n + 1))
        for _ in range(rng.choice([0, 1, 1, 2, 3, 5])):
            lines.append(f"{rng.choice(['', 'f'])}unlink 1 {rng.choice(darts)}")
        for _ in range(rng.choice([0, 0, 1, 2, 4])):
            lines.append(f"{rng.choice(['', 'f'])}unlink 2 {rng.choice(darts)}")
        if rng.random() < 0.2:
            lines.append(f"{rng.choice(['', 'f'])}unlink 3 {rng.choice(darts)}")
        sample = sorted(rng.sample(darts, min(len(darts), 14)))
        pols = ["v", "vl", "e", "f", "fl", "vol", "voll", rng.choice(["c10", "c01", "c23", "c3", "c0123"])]
        obs = observe3(sample, pols, iters=False)
        # ids of every dart (iterators are checked against them) + the iterators
        for d in darts:
            if d not in sample:
                obs += [f"vid {d}", f"eid {d}", f"fid {d}", f"volid {d}"]
        obs += ["iterv", "itere", "iterf", "itervol"]
        cases.append(Case(f"p3h{k}-{name}", lines + ["snap"] + obs, oracle="c03-3d", meta={"sig": "3d-polyhedra"}))
    return cases


def streams3d(tier, rng):
    """CMap3 observation streams: list of (name, cases, exhaustive?)"""
    if tier == "quick":
        return [
            ("3-D exhaustive WF 3-maps n<=3 (removed darts included)", exhaustive3([1, 2, 3], rng), True),
            ("3-D WF 3-maps n=4 (10% sample)", exhaustive3([4], rng, 0.10), False),
            ("3-D glued faces <=2 faces, fresh + random edits", glued_faces3(rng, 2, 8), False),
            ("3-D glued faces 3 faces (sample)", glued_faces3(rng, 3, 2, frac=0.25), False),
            ("3-D pairs of polyhedra, opened faces/edges", polyhedra3(400, rng), False),
        ]
    return [
        ("3-D exhaustive WF 3-maps n<=4 (removed darts included)", exhaustive3([1, 2, 3, 4], rng), True),
        ("3-D glued faces <=2 faces, fresh + random edits", glued_faces3(rng, 2, 60, maxops=10), False),
        ("3-D glued faces 3 faces", glued_faces3(rng, 3, 6, maxops=10), False),
        ("3-D pairs of polyhedra, opened faces/edges", polyhedra3(3000, rng), False),
    ]


def tx_queries(count, rng):
    """the transactional variants INSIDE a transaction that has already edited the map: a few links/unlinks (2-D and 3-D) followed by
    id / orbit queries in the same `tx` block; a transactional query must see the images written earlier in its own transaction
    (the model reads through the log).  Correspondence only, plus: the same queries after the commit give the same answers."""
    cases = []
    for c in range(count):
        dim = rng.choice([2, 3, 3])
        n = rng.randint(3, 7)
        init = [f"new {dim} {n} 0"]
        darts = list(range(1, n + 1))
        for _ in range(rng.choice([0, 1, 2, 3])):
            x, y = rng.sample(darts, 2)
            init.append(f"flink {rng.randint(1, dim)} {x} {y}")
        edits, queries = [], []
        for _ in range(rng.randint(1, 3)):
            x, y = rng.sample(darts, 2)
            i = rng.randint(1, dim)
            edits.append(rng.choice([f"link {i} {x} {y}", f"link {i} {x} {y}", f"unlink {i} {x}"]))
        pols = ["v", "e", "f", "vl", "fl"] + (["vol", "c3", "c23"] if dim == 3 else ["c12"])
        for _ in range(rng.randint(2, 5)):
            d = rng.choice(darts)
            queries.append(rng.choice([f"vid {d}", f"eid {d}", f"fid {d}", f"orbit {rng.choice(pols)} {d}"]
                                      + ([f"volid {d}"] if dim == 3 else [])))
        lines = init + ["tx"] + edits + queries + ["endtx"] + queries
        cases.append(Case(f"txq{c}", lines, oracle="txq", meta={"sig": "tx-queries", "k": len(edits) + len(queries), "nq": len(queries)}))
    return cases


def oracle_txq(case, li):
    """when the block commits, the answers inside the block equal the answers to the same queries after the commit"""
    if any(x.startswith("<missing") for x in li):
        return "driver died"
    nq = case.meta["nq"]
    tx = [x for x in li if x.startswith("tx ")]
    if not tx or not tx[0].startswith("tx ok"):
        return None
    inside = [x.strip() for x in tx[0][len("tx ok"):].split(" ; ")][-nq:]
    after = [x[3:].strip() if x.startswith("ok ") else x for x in li[-nq:]]
    if inside != after:
        return f"queries inside the committed block answered {inside} but the same queries after the commit answer {after}"
    return None


def lazy_orbits(count, rng):
    """two orbits ALIVE AT ONCE on one thread (`orbit()` returns a lazy iterator): consumed alternately (`orbitz`) and nested
    (`orbitn`: for every dart of one orbit, the orbit of that dart under another policy), on 2-maps and 3-maps; each orbit must be
    what it is when computed alone (the model computes them one by one)"""
    cases = []
    maps2 = {n: list(gens.wf_maps2(n, with_unused=False)) for n in (2, 3, 4)}
    fam3 = list(gens.faces3_maps(2, 3))
    for c in range(count):
        if c % 3 != 2:
            n = rng.choice((2, 3, 4, 4))
            b0, b1, b2, u = rng.choice(maps2[n])
            lines = [gens.load_line(2, n, 0, [b0, b1, b2], u)]
            pols = ["v", "e", "f", "vl", "fl", "c12", "c01"]
        else:
            n, rows, _ = rng.choice(fam3)
            lines = [gens.load_line(3, n, 0, rows, [0] * (n + 1))]
            for _ in range(rng.choice([0, 1, 2])):
                lines.append(gens.random_op3(rng, list(range(1, n + 1)), alloc=False, weights=[4, 0, 0, 0], force_p=1.0))
            pols = ["v", "e", "f", "vol", "vl", "fl", "c3", "c23"]
        darts = list(range(1, n + 1))
        for _ in range(rng.randint(2, 5)):
            if rng.random() < 0.5:
                lines.append(f"orbitz {rng.choice(pols)} {rng.choice(darts)} {rng.choice(pols)} {rng.choice(darts)}")
            else:
                lines.append(f"orbitn {rng.choice(pols)} {rng.choice(darts)} {rng.choice(pols)}")
        cases.append(Case(f"lz{c}", lines, oracle=None, meta={"sig": "lazy-orbits"}))
    return cases


def run(tier, seed):
    rng = random.Random(seed)
    for k in COUNT:
        COUNT[k] = 0
    parts = []
    parts.append(("two orbits alive at once (zipped / nested lazy iterators)",
                  hv.campaign(lazy_orbits(3000 if tier == "quick" else 40000, rng), None)))
    parts.append(("transactional queries after edits in the same transaction (2-D and 3-D)",
                  hv.campaign(tx_queries(4000 if tier == "quick" else 60000, rng), oracle_txq)))
    if tier == "quick":
        r1 = hv.campaign(exhaustive([1, 2, 3, 4], rng), oracle_c03)
        r1["stats"]["exhaustive"] = True
        parts.append(("exhaustive n<=4", r1))
        parts.append(("exhaustive n=5 (1% sample)", hv.campaign(exhaustive([5], rng, 0.01), oracle_c03)))
        parts.append(("random maps <=40 darts, grids", hv.campaign(random_maps(1500, rng), oracle_c03)))
    else:
        r1 = hv.campaign(exhaustive([1, 2, 3, 4], rng), oracle_c03)
        r1["stats"]["exhaustive"] = True
        parts.append(("exhaustive n<=4", r1))
        parts.append(("exhaustive n=5 (20% sample)", hv.campaign(exhaustive([5], rng, 0.20), oracle_c03)))
        parts.append(("random maps <=40 darts, grids", hv.campaign(random_maps(20000, rng), oracle_c03)))
    for k in COUNT3:
        COUNT3[k] = 0
    for name, cases, exh in streams3d(tier, rng):
        r3 = hv.campaign(cases, oracle_c03_3d)
        if exh:
            r3["stats"]["exhaustive"] = True
        parts.append((name, r3))
    res = hv.merge_results(parts)
    res["stats"]["oracle_counts"] = dict(COUNT)
    res["stats"]["oracle_counts_3d"] = dict(COUNT3)
    res["stats"]["exhaustive"] = True
    return res


def matches(known, v):
    """a known finding with matcher kind `face-id-open-face` absorbs oracle failures (never model/implementation disagreements)
    whose text starts with the tag `[fid-open-face] ` (a face-id clause failing on an open face); anything else stays a violation"""
    if v.get("kind") != "oracle":
        return False
    fail = (v.get("replay") or {}).get("oracle_failure") or ""
    return (known.get("matcher") or {}).get("kind") == "face-id-open-face" and fail.startswith("[fid-open-face] ")
