"""C13 — polygon triangulation kernels produce a true triangulation or refuse."""
import math
import random
from fractions import Fraction as Fr

import gens
import hv
import kern2
from hv import Case
from kern2 import Snap, area2, cross3, fr_tok

SPEC = {
    "lean_modules": ["Honeycomb.Props.C13", "Honeycomb.Props.C13b", "Honeycomb.Props.C13c", "Honeycomb.Props.C13d",
                     "Honeycomb.Props.C13e", "Honeycomb.Props.C13f", "Honeycomb.Props.C13Gen", "Honeycomb.Props.C13GenB"],
    # Gen/Fan.lean is re-translated from honeycomb-kernels/src/triangulation/fan.rs and mod.rs before every build
    "gen": ["fan", "earclip"],
    "required_theorems": [
        # Props/C13GenB.lean: the ear test, one clipping step, the loop and the whole ear-clipping kernel as translated ARE the model's
        "C13_gen_earInside_ccw", "C13_gen_earInside_cw", "C13_gen_earTest", "C13_gen_earclip_step", "C13_gen_earclip_loop", "C13_gen_earclip", "C13_gen_earclip_ccw", "C13_gen_earclip_cw", "C13_gen_earclip_kernel_triangles",
        # Props/C13Gen.lean: check_requirements and BOTH fan kernels as translated ARE the model's (program equality, loop by induction)
        "C13_gen_check_requirements", "C13_gen_fan_loop_step", "C13_gen_fan_loop", "C13_gen_fanFrom_convex", "C13_gen_fanFrom_cell", "C13_gen_fanConvex", "C13_gen_check_requirements_ok_iff", "C13_gen_fanTest", "C13_gen_fan", "C13_gen_fan_kernel_star",
        "C13_check_requirements_ok_iff", "C13_shoelace_step", "C13_earclip_area_sum",
                          "C13_fan_area_sum", "C13_fan_star_sees_every_side", "C13_fan_apex_sees_all",
                          "C13_earclip_preserves_WF", "C13_fan_preserves_WF", "C13_fan_convex_preserves_WF",
                          "C13_fan_preserves_WF_closed_face", "C13_fan_structure", "C13_fan_convex_structure",
                          "C13_fan_cell_structure", "C13_earclip_frame", "C13_earclip_structure",
                          "C13_fan_test_iff", "C13_fan_first_side_weak_witness",
                          "C13_fan_triangles_carry_list_coordinates", "C13_fan_area_conserved_in_map",
                          "C13_fan_orientation_in_map", "C13_fan_old_vertices_keep_coordinates",
                          "C13_fan_convex_triangles_carry_list_coordinates",
                          "C13_earclip_triangles_carry_list_coordinates", "C13_earclip_area_conserved_in_map",
                          "C13_earclip_orientation_in_map", "C13_earclip_ccw_orientation_in_map",
                          "C13_earclip_cw_orientation_in_map", "C13_earclip_old_vertices_keep_coordinates",
                          "C13_fan_accepts_convex_ccw", "C13_fan_accepts_convex_cw",
                          "C13_earclip_all_triangles_oriented_partial", "C13_earclip_ccw_all_triangles_oriented_partial",
                          "C13_earclip_last_triangle_needs_simplicity_witness",
                          "C13_earclip_ok_implies_spares_free", "C13_fan_ok_implies_spares_free",
                          "C13_fan_convex_ok_implies_spares_free", "C13_stale_spare_value_moves_a_corner_witness"],
    "trusted_base": [
        "Lean 4.33 kernel; axioms propext, Classical.choice, Quot.sound only",
        "hand-written model Honeycomb/Model/Kernels/{Geom2,Fan,EarClip}.lean (+ Stm, Map, Ops, Ops2) tied to /repo by the "
        "hcmodel/hcimpl correspondence run of this check; check_requirements is transcribed by hand (not generated)",
        "Rust harness /verif/harness/hcimpl (k2.rs: fan / fanconvex / earclip on CMap2<f64>) and tools/{hv,kern2,gens}.py; the oracle "
        "evaluates the property on the `snap` before/after with exact rational arithmetic, independently of the model",
        "coordinates are small dyadic rationals on which f64 arithmetic is exact; the model reproduces f64's signed zero in the "
        "star search (signum of a vanishing cross product), rounding is not modelled",
    ],
    "assumptions": [
        "the theorems on areas/orientation are about the vertex-list computations (ear search, list surgery, star search) shared by "
        "the model kernels; the map surgery is treated in Props/C13b.lean / C13c.lean (WF, exact face structure); Props/C13d.lean "
        "(fan kernels) and Props/C13e.lean (ear clipping) prove that the dart triangles of the result map, corners read through "
        "the result's vertex ids, carry exactly those vertex-list triangles, in order (hence area sum and orientation hold in "
        "the map), and that every dart other than the spare darts keeps its coordinates",
        "C13d/C13e (coordinates in the result map): the spare darts are fresh — free (all beta null) and without a vertex value —, "
        "the vertex storage merges with Vertex2's average (cfg.law 0 = avgLaw), no injected failure (fc = 0); C13e also inherits "
        "EarsNotLast from C13_earclip_structure and needs an orientation test that rejects triples with equal end points (true of "
        "both public tests, insideCCW_ends_differ / insideCW_ends_differ: a vanishing cross product is never accepted)",
        "fan WF/structure theorems: the face is a closed beta1-cycle (necessary: on an open chain the final 1-sew can write beta1(0))",
        "spare darts are distinct free in-use darts WITHOUT a vertex value under their id (fresh); see not_proved for what happens "
        "otherwise",
    ],
    "rule": "polygons with 3..10 sides on the 1/4 lattice: strictly convex, star-shaped from one vertex (star vertex at every index), convex "
            "with one vertex pushed in (reflex vertex at every index), centroid-star and 2-opt random simple polygons; both orientations; "
            "isolated faces and faces with neighbour triangles 2-sewn on a random subset of sides; spare darts appended or allocated "
            "first; x fan_cell, fan_convex_cell, earclip ccw/cw; plus wrong spare counts, undefined vertices, faces with < 4 sides, and "
            "a correspondence-only stream with collinear / repeated / self-intersecting vertex lists. Oracle on the implementation: "
            "ok => n-2 closed triangles on the face darts + spares, every side keeps its end points and beta2, every dart outside keeps "
            "all its images, all coordinates read at vertex ids unchanged, every triangle strictly oriented like the polygon, signed areas "
            "add up, wf; err => map unchanged; ear clipping must accept simple polygons in general position of the announced "
            "orientation, fan must accept strictly convex ones; for the ear-clipping kernels the decidable hypotheses of the Lean "
            "theorems (EarsNotLast, LastOK) are recomputed on the vertex list of every such polygon and must hold. "
            "distinct_nontrivial = distinct implementation transcripts.",
    "not_proved": [
        "ear clipping succeeds on every simple polygon in general position (needs the two-ears theorem; sampled only)",
        "exact face structure after ear clipping is proved (C13_earclip_structure: n-2 listed triangles, each a closed beta1 3-cycle, "
        "frame) under the hypothesis EarsNotLast (the ear is never found at the last index of the vertex list): necessary — for "
        "ear = n-1 the kernel's vector surgery drops the wrong dart — and true on simple polygons by the two-ears theorem, which is "
        "not proved",
        "that the triangles of the map surgery carry the coordinates of the vertex-list triangles is PROVED for all kernels with "
        "fresh spare darts (C13_fan_*_in_map / C13_fan_triangles_carry_list_coordinates / "
        "C13_fan_convex_triangles_carry_list_coordinates; C13_earclip_triangles_carry_list_coordinates, "
        "C13_earclip_area_conserved_in_map, C13_earclip_orientation_in_map, C13_earclip_old_vertices_keep_coordinates). Spare "
        "darts that are not fresh (Props/C13f.lean): the kernels only check their NUMBER; a spare dart that carries a LINK makes the "
        "call fail in the link core that tests it (proved as: Ok => every spare dart was free, C13_*_ok_implies_spares_free for the "
        "three kernels; nothing is published, C06); a FREE spare dart that carries a stale VERTEX VALUE is not refused and the value "
        "is averaged into a polygon corner (C13_stale_spare_value_moves_a_corner_witness: Ok, corner (4,4) -> (7,7), areas no longer "
        "add up; the implementation does the same, replay: pentagon + `wv 6 10 10` + `fan 1 4 6 7 8 9`) — so the property's "
        "precondition 'the right number of spare darts' has to mean FRESH darts (free and valueless); the generators of this check "
        "only produce fresh spare darts",
        "the last remaining triangle of ear clipping has the announced orientation: the code does not test it and it is NOT a "
        "consequence of the ear tests (C13_earclip_last_triangle_needs_simplicity_witness: a self-crossing quadrilateral of positive "
        "area whose accepted ear leaves a clockwise triangle) — it needs the simplicity of the polygon (Jordan-type argument, not "
        "proved). Proved instead: C13_earclip_orientation_in_map (every CLIPPED ear passes the test in the result map; the last "
        "triangle's doubled area is the polygon's minus the ears') and C13_earclip_all_triangles_oriented_partial: under the "
        "decidable list condition LastOK all n-2 triangles of the result map pass the test. LastOK and EarsNotLast are evaluated by "
        "this check's oracle (list_earclip) on every generated simple polygon in general position of the announced orientation; "
        "how often each held is counted in stats.earclip_list_conditions_on_simple_polygons (a false hypothesis marks an input the "
        "theorem does not cover — never observed — and is not by itself a violation: the real output is judged by the oracle on "
        "every input)",
        "the first side examined by the fan's star search is only sign-tested by the code: C13_fan_test_iff states exactly what is "
        "guaranteed, C13_fan_first_side_weak_witness shows a degenerate first triangle is accepted; the strict-orientation theorem "
        "C13_fan_apex_sees_all therefore carries 'no side collinear with the apex' as a hypothesis",
    ],
}

Q = Fr(1, 4)


# ---------------------------------------------------------------------------------------------
# polygons
# ---------------------------------------------------------------------------------------------

def snapq(x):
    return Fr(round(x * 4), 4)


def convex_polygon(rng, n):
    for _ in range(200):
        r = rng.uniform(5, 8)
        angs = sorted(rng.uniform(0, 2 * math.pi) for _ in range(n))
        cx, cy = rng.randint(-3, 3), rng.randint(-3, 3)
        poly = [(snapq(cx + r * math.cos(a)), snapq(cy + r * math.sin(a))) for a in angs]
        if kern2.strictly_convex(poly) and kern2.general_position(poly):
            return poly
    return None


def star_polygon(rng, n):
    """vertex 0 sees everything (counter-clockwise)"""
    for _ in range(200):
        angs = sorted(rng.uniform(0.15, math.pi - 0.15) for _ in range(n - 1))
        v0 = (Fr(rng.randint(-2, 2)), Fr(rng.randint(-4, 0)))
        poly = [v0] + [(snapq(float(v0[0]) + rng.uniform(2, 8) * math.cos(a)), snapq(float(v0[1]) + rng.uniform(2, 8) * math.sin(a)))
                       for a in angs]
        if kern2.is_simple(poly) and kern2.general_position(poly) and area2(poly) > 0 and kern2.sees_all(poly, 0):
            return poly
    return None


def reflex_polygon(rng, n, i):
    """strictly convex polygon with vertex i pushed inside: exactly one reflex vertex, at index i"""
    for _ in range(200):
        poly = convex_polygon(rng, n)
        if poly is None:
            continue
        cx = sum(p[0] for p in poly) / n
        cy = sum(p[1] for p in poly) / n
        a, b = poly[(i - 1) % n], poly[(i + 1) % n]
        mx, my = (a[0] + b[0]) / 2, (a[1] + b[1]) / 2
        f = Fr(rng.choice([1, 2, 3]), 4)
        poly2 = list(poly)
        poly2[i] = (snapq(float(mx + (cx - mx) * f)), snapq(float(my + (cy - my) * f)))
        if kern2.is_simple(poly2) and kern2.general_position(poly2) and kern2.reflex_indices(poly2) == [i]:
            return poly2
    return None


def centroid_star(rng, n):
    for _ in range(200):
        angs = sorted(rng.uniform(0, 2 * math.pi) for _ in range(n))
        poly = [(snapq(rng.uniform(1.5, 8) * math.cos(a)), snapq(rng.uniform(1.5, 8) * math.sin(a))) for a in angs]
        if kern2.is_simple(poly) and kern2.general_position(poly) and area2(poly) != 0:
            return poly
    return None


def two_opt(rng, n):
    for _ in range(200):
        pts = list({(Fr(rng.randint(-32, 32), 4), Fr(rng.randint(-32, 32), 4)) for _ in range(n)})
        if len(pts) != n or not kern2.general_position(pts):
            continue
        rng.shuffle(pts)
        for _ in range(400):
            done = True
            for i in range(n):
                for j in range(i + 2, n):
                    if i == 0 and j == n - 1:
                        continue
                    if kern2.seg_intersect(pts[i], pts[(i + 1) % n], pts[j], pts[(j + 1) % n]):
                        pts[i + 1:j + 1] = reversed(pts[i + 1:j + 1])
                        done = False
            if done:
                break
        if kern2.is_simple(pts) and area2(pts) != 0:
            return pts
    return None


def orient(poly, ccw):
    if (area2(poly) > 0) != ccw:
        poly = [poly[0]] + poly[:0:-1]
    return poly


def rotate(poly, k):
    k %= len(poly)
    return poly[k:] + poly[:k]


# ---------------------------------------------------------------------------------------------
# maps
# ---------------------------------------------------------------------------------------------

def build_map(rng, poly, nspare, neighbours=(), spares_first=False, undefined=()):
    """protocol lines loading the polygon as one face (darts in order), optional outer triangles on the given
    sides, `nspare` spare darts (appended with `add`, or allocated first).  returns (lines, face darts, spares)"""
    n = len(poly)
    off = nspare if spares_first else 0
    nd = off + n + 3 * len(neighbours)
    b0, b1, b2 = [0] * (nd + 1), [0] * (nd + 1), [0] * (nd + 1)
    org = {}
    face = [off + 1 + i for i in range(n)]
    for i, d in enumerate(face):
        b1[d] = face[(i + 1) % n]
        b0[face[(i + 1) % n]] = d
        org[d] = poly[i]
    x = off + n + 1
    o = 1 if area2(poly) > 0 else -1
    for i in neighbours:
        p, q = poly[i], poly[(i + 1) % n]
        a, b, c = x, x + 1, x + 2
        x += 3
        for (u, v) in ((a, b), (b, c), (c, a)):
            b1[u] = v
            b0[v] = u
        b2[a], b2[face[i]] = face[i], a
        # apex on the outer side of the edge
        mx, my = (p[0] + q[0]) / 2, (p[1] + q[1]) / 2
        nx, ny = (q[1] - p[1]) * o, -(q[0] - p[0]) * o
        org[a], org[b], org[c] = q, p, (mx + nx / 2 + Fr(1, 8), my + ny / 2 + Fr(1, 8))
    rows = [b0, b1, b2]
    lines = [gens.load_line(2, nd, 0, rows, [0] * (nd + 1))]
    ids = {}
    for d, p in sorted(org.items()):
        ids.setdefault(kern2.vid(rows, d), p)
    for k, (v, p) in enumerate(sorted(ids.items())):
        if v in [kern2.vid(rows, face[i]) for i in undefined]:
            continue
        lines.append(f"wv {v} {fr_tok(p[0])} {fr_tok(p[1])}")
    if spares_first:
        spares = list(range(1, nspare + 1))
    else:
        if nspare:
            lines.append(f"add {nspare}")
        spares = list(range(nd + 1, nd + 1 + nspare))
    return lines, face, spares


def op_line(kern, face_dart, spares):
    s = " ".join(map(str, spares))
    head = {"fan": "fan", "fanconvex": "fanconvex", "earccw": "earclip ccw", "earcw": "earclip cw"}[kern]
    return f"{head} {face_dart} {len(spares)} {s}".rstrip()


def mk_case(cid, pre, op, meta, oracle="c13"):
    lines = pre + ["snap", op, "snap", "wf"]
    m = dict(meta)
    m["op_idx"] = len(pre) + 1
    return Case(cid, lines, oracle=oracle, meta=m)


# ---------------------------------------------------------------------------------------------
# oracle
# ---------------------------------------------------------------------------------------------

def parse_op(toks):
    if toks[0] == "earclip":
        kern = "earccw" if toks[1] == "ccw" else "earcw"
        toks = toks[1:]
    else:
        kern = toks[0]
    k = int(toks[2])
    return kern, int(toks[1]), [int(x) for x in toks[3:3 + k]]


def list_earclip(P, ccw):
    """the vertex-list computation of the ear-clipping kernels, as the Lean model has it (findEar / earclipTriangles /
    EarsNotLast / LastOK of Props/C13.lean, C13c.lean, C13e.lean): the first index whose corner passes the orientation test
    with every other vertex (different from the three corners as a point) strictly outside, `remove((ear + 1) % n)`, until
    three vertices are left.  Returns (ears, last, ears_not_last, last_ok) or None when some search finds no ear."""
    def inside(a, b, c):
        x = cross3(a, b, c)
        return x > 0 if ccw else x < 0

    def strictly_outside(a, b, c, v):
        sg = (cross3(a, b, v), cross3(b, c, v), cross3(c, a, v))
        return any(x > 0 for x in sg) and any(x < 0 for x in sg)

    vs, ears, not_last = list(P), [], True
    while len(vs) > 3:
        n, ear = len(vs), None
        for i in range(n):
            a, b, c = vs[i], vs[(i + 1) % n], vs[(i + 2) % n]
            if inside(a, b, c) and all(strictly_outside(a, b, c, v) for v in vs if v != a and v != b and v != c):
                ear = i
                break
        if ear is None:
            return None
        if ear + 1 >= n:
            not_last = False
        ears.append((vs[ear], vs[(ear + 1) % n], vs[(ear + 2) % n]))
        del vs[(ear + 1) % n]
    return ears, tuple(vs), not_last, inside(*vs)


LIST_STATS = {}


def judge(before, res, after, wfline, kern, fd, spares):
    """(items, info): failures [(tag, detail)] and facts about the case used by the matcher"""
    items, info = [], {}
    if res != "ok":
        if before.raw != after.raw:
            items.append(("error-changed-map", f"{res!r} but the map changed"))
        if wfline != "wf true true true":
            items.append(("wf-lost", wfline))
    n = before.n
    if not (0 < fd < n) or before.u[fd]:
        return items, info
    F, closed = kern2.face_cycle(before.b, fd)
    if not closed:
        return items, info
    P = [kern2.coord(before, d) for d in F]
    defined = all(p is not None for p in P)
    nf = len(F)
    good_spares = (len(set(spares)) == len(spares) and all(0 < s < n and not before.u[s] and s not in F and
                   before.b[0][s] == 0 and before.b[1][s] == 0 and before.b[2][s] == 0 for s in spares))
    info.update({"nf": nf, "defined": defined})
    # ---- refusals the property names
    want = None
    if kern != "fanconvex" and not defined:
        want = "err UndefinedFace one-or-more-undefined-vertices"
    elif nf < 3:
        want = "err UndefinedFace less-than-3-vertices"
    elif nf == 3:
        want = "err AlreadyTriangulated"
    elif len(spares) < 2 * (nf - 3):
        want = f"err NotEnoughDarts {2 * (nf - 3) - len(spares)}"
    elif len(spares) > 2 * (nf - 3):
        want = f"err TooManyDarts {len(spares) - 2 * (nf - 3)}"
    if want is not None:
        if res != want:
            items.append(("wrong-refusal", f"answered {res!r}, specified {want!r}"))
        return items, info
    if not defined or not good_spares:
        return items, info
    simple = kern2.is_simple(P)
    gp = kern2.general_position(P)
    a2 = area2(P)
    convex = simple and kern2.strictly_convex(P)
    info.update({"simple": simple, "gp": gp, "convex": convex, "poly": P})
    if not simple or not gp:
        return items, info       # outside the property (correspondence only)
    o = 1 if a2 > 0 else -1
    if (kern == "earccw" and o < 0) or (kern == "earcw" and o > 0):
        # wrong announced orientation: outside the guard of the property (documented precondition of the kernel)
        if res == "ok" and wfline != "wf true true true":
            items.append(("wf-lost", wfline))
        return items, info
    # ---- the decidable hypotheses of the Lean theorems on the vertex list (C13_earclip_structure: EarsNotLast;
    #      C13_earclip_all_triangles_oriented_partial: LastOK), evaluated on every simple polygon in general position of the
    #      announced orientation: they are expected to hold there (two-ears / Jordan arguments, not proved)
    if kern in ("earccw", "earcw"):
        le = list_earclip(P, kern == "earccw")
        key = "no-ear" if le is None else ("last_ok=%s ears_not_last=%s" % (le[3], le[2]))
        LIST_STATS[key] = LIST_STATS.get(key, 0) + 1
        # a false hypothesis means "this input is outside what the theorem covers", not "the code is wrong": it is counted
        # (stats.earclip_list_conditions_on_simple_polygons, and a note when it ever happens); whether the REAL output is a
        # correct triangulation is decided by the clauses below, on every input
    # ---- must-succeed clauses
    if res != "ok":
        if kern == "earccw" and o > 0 or kern == "earcw" and o < 0:
            items.append(("earclip-refused", f"simple polygon in general position of the announced orientation answered {res!r}"))
        if kern in ("fan", "fanconvex") and convex:
            items.append(("fan-refused-convex", f"strictly convex polygon answered {res!r}"))
        if kern == "fan" and res not in ("err NonFannable",):
            items.append(("fan-wrong-error", f"answered {res!r}"))
        return items, info
    # ---- a successful call: the face is replaced by nf-2 triangles
    if after.n != before.n or after.u != before.u:
        items.append(("flags", "dart count or removal flags changed"))
        return items, info
    region = set(F) | set(spares)
    for i in range(3):
        if after.b[i][0] != 0:
            items.append(("null-image", f"b{i}[0]={after.b[i][0]}"))
        for d in range(1, n):
            if d not in region and after.b[i][d] != before.b[i][d]:
                items.append(("frame", f"b{i}[{d}] of a dart outside the face changed"))
    for d in F:
        if after.b[2][d] != before.b[2][d]:
            items.append(("side-adjacency", f"b2[{d}] {before.b[2][d]} -> {after.b[2][d]}"))
    for d in range(1, n):
        if d in spares or before.u[d]:
            continue
        if kern2.coord(after, d) != kern2.coord(before, d):
            items.append(("coordinates", f"origin of dart {d}: {kern2.coord(before, d)} -> {kern2.coord(after, d)}"))
    tris, seen = [], set()
    for d in sorted(region):
        if d in seen:
            continue
        cyc, cl = kern2.face_cycle(after.b, d)
        seen.update(cyc)
        if not cl or len(cyc) != 3 or not set(cyc) <= region:
            items.append(("not-a-triangle", f"face of dart {d} after the call: {cyc} closed={cl}"))
        else:
            tris.append(cyc)
    if items and any(t == "not-a-triangle" for t, _ in items):
        return items, info
    if len(tris) != nf - 2:
        items.append(("triangle-count", f"{len(tris)} triangles for {nf} sides"))
    pset = set(P)
    tot = Fr(0)
    bad_or = []
    corner_count = {}
    for cyc in tris:
        pts = [kern2.coord(after, d) for d in cyc]
        if any(p is None or p not in pset for p in pts):
            items.append(("foreign-vertex", f"triangle {cyc} has corners {pts}"))
            continue
        c = cross3(*pts)
        tot += c
        if c * o <= 0:
            bad_or.append((cyc, pts, c))
        for p in pts:
            corner_count[p] = corner_count.get(p, 0) + 1
    for i, d in enumerate(F):
        nxt = after.b[1][d]
        if kern2.coord(after, nxt) != P[(i + 1) % nf]:
            items.append(("side-endpoint", f"side {d} no longer ends at {P[(i + 1) % nf]}"))
    for s in spares:
        t = after.b[2][s]
        if t not in spares or after.b[2][t] != s:
            items.append(("diagonal", f"spare dart {s} is not 2-linked with a spare dart"))
        elif kern2.coord(after, after.b[1][s]) != kern2.coord(after, t):
            items.append(("diagonal", f"diagonal {s}/{t} is not one segment"))
    if tot != a2:
        items.append(("area-sum", f"signed areas x2 add to {tot}, polygon {a2}"))
    if bad_or and not (kern == "fanconvex" and not convex):   # fan_convex_cell documents "assumes the polygon is convex"
        cyc, pts, c = bad_or[0]
        items.append(("orientation", f"{len(bad_or)} triangle(s) not strictly oriented like the polygon, e.g. {cyc} corners {pts} cross {c}"))
    if wfline != "wf true true true":
        items.append(("wf-lost", wfline))
    if kern in ("fan", "fanconvex"):
        apex = [p for p, c in corner_count.items() if c == nf - 2]
        info["apex_sees_all"] = [kern2.sees_all(P, P.index(p)) for p in apex]
    return items, info


def analyse(lines, li, op_idx):
    if any(x.startswith("<missing") for x in li) or len(li) < op_idx + 3:
        return [("driver", "driver died")], {}
    kern, fd, spares = parse_op(lines[op_idx].split())
    before, after = Snap(li[op_idx - 1]), Snap(li[op_idx + 1])
    items, info = judge(before, li[op_idx], after, li[op_idx + 2], kern, fd, spares)
    info["kern"] = kern
    info["res"] = li[op_idx]
    return items, info


STATS = {}


def oracle_c13(case, li):
    if case.oracle != "c13":
        return None
    items, info = analyse(case.lines, li, case.meta["op_idx"])
    key = (case.meta.get("family", "?"), info.get("kern", "?"), "ok" if info.get("res") == "ok" else "refused")
    STATS[key] = STATS.get(key, 0) + 1
    if not items:
        return None
    seen, out = set(), []
    for t, dsc in items:
        if (t, dsc) not in seen:
            seen.add((t, dsc))
            out.append(f"{t}: {dsc}")
    return "; ".join(out)


# ---------------------------------------------------------------------------------------------
# streams
# ---------------------------------------------------------------------------------------------

KERNELS = ("fan", "fanconvex", "earccw", "earcw")


def polygon_cases(rng, per_shape):
    cases = []
    cid = 0

    def emit(poly, family, extra=None):
        nonlocal cid
        n = len(poly)
        nb = [i for i in range(n) if rng.random() < 0.5] if rng.random() < 0.5 else []
        sf = rng.random() < 0.25
        pre, face, spares = build_map(rng, poly, 2 * (n - 3), nb, sf)
        for kern in KERNELS:
            cid += 1
            fd = face[0]
            meta = {"sig": f"{family}-{kern}", "family": family}
            if extra:
                meta.update(extra)
            cases.append(mk_case(f"{family}{n}-{cid}", pre, op_line(kern, fd, spares), meta))

    for n in range(4, 11):
        for ccw in (True, False):
            for _ in range(per_shape):
                p = convex_polygon(rng, n)
                if p:
                    emit(rotate(orient(p, ccw), rng.randrange(n)), "convex")
                p = centroid_star(rng, n)
                if p:
                    emit(rotate(orient(p, ccw), rng.randrange(n)), "cstar")
                p = two_opt(rng, n)
                if p:
                    emit(rotate(orient(p, ccw), rng.randrange(n)), "simple")
            # star vertex at every index, reflex vertex at every index
            for i in range(n):
                for _ in range(max(1, per_shape // 3)):
                    p = star_polygon(rng, n)
                    if p:
                        emit(rotate(orient(p, ccw), -i), "star", {"star_index": i})
                    p = reflex_polygon(rng, n, i)
                    if p:
                        q = orient(p, ccw)
                        emit(q, "reflex", {"reflex_index": kern2.reflex_indices(q)})
    return cases


def far_cases(rng, count):
    """the same polygon families translated far from the origin (2^47 with neighbours, 2^50 isolated): every coordinate,
    every difference and every product of differences is still exact in f64, so the code's answers must not depend on the
    translation -- an orientation predicate that multiplies absolute coordinates (shoelace form) loses the sign here"""
    cases = []
    cid = 0
    while len(cases) < count:
        n = rng.randint(4, 10)
        fam = rng.choice(["convex", "reflex", "simple", "star"])
        if fam == "convex":
            p = convex_polygon(rng, n)
        elif fam == "reflex":
            p = reflex_polygon(rng, n, rng.randrange(n))
        elif fam == "simple":
            p = two_opt(rng, n)
        else:
            p = star_polygon(rng, n)
        if not p:
            continue
        p = rotate(orient(p, rng.random() < 0.5), rng.randrange(n))
        iso = rng.random() < 0.5
        T = 2 ** 50 if iso else 2 ** 47
        sx, sy = rng.choice([(1, 1), (1, -1), (-1, 1), (-1, -1), (1, 0), (0, 1), (-1, 0), (0, -1)])
        q = [(x + sx * T, y + sy * T) for (x, y) in p]
        nb = [] if iso else [i for i in range(n) if rng.random() < 0.4]
        pre, face, spares = build_map(rng, q, 2 * (n - 3), nb, rng.random() < 0.25)
        for kern in KERNELS:
            cid += 1
            meta = {"sig": f"far-{fam}-{kern}", "family": "far-" + fam}
            if fam == "reflex":
                meta["reflex_index"] = kern2.reflex_indices(q)
            cases.append(mk_case(f"far{n}-{cid}", pre, op_line(kern, face[0], spares), meta))
    return cases


def directed_cases():
    """the design-round witnesses"""
    cases = []
    pent = [(Fr(0), Fr(0)), (Fr(2), Fr(1)), (Fr(4), Fr(0)), (Fr(4), Fr(4)), (Fr(0), Fr(4))]
    for k, kern in enumerate(KERNELS):
        pre, face, spares = build_map(random.Random(1), pent, 4)
        cases.append(mk_case(f"d7-{k}", pre, op_line(kern, face[0], spares), {"sig": "d7-pentagon", "family": "directed"}))
    sq = [(Fr(0), Fr(0)), (Fr(1), Fr(0)), (Fr(1), Fr(1)), (Fr(0), Fr(1))]
    for k, kern in enumerate(KERNELS):
        for r in range(4):
            for ccw in (True, False):
                pre, face, spares = build_map(random.Random(1), rotate(orient(sq, ccw), r), 2)
                cases.append(mk_case(f"sq-{k}-{r}-{int(ccw)}", pre, op_line(kern, face[0], spares), {"sig": "unit-square", "family": "directed"}))
    return cases


def refusal_cases(rng, count):
    """wrong number of spare darts, undefined vertices, faces with fewer than 4 sides"""
    cases = []
    for c in range(count):
        kind = rng.choice(["count", "count", "undefined", "small"])
        n = rng.randint(1, 3) if kind == "small" else rng.randint(4, 8)
        if n >= 4:
            poly = orient(convex_polygon(rng, n) if rng.random() < 0.5 else centroid_star(rng, n), rng.random() < 0.5)
        else:
            poly = [(Fr(0), Fr(0)), (Fr(3), Fr(1)), (Fr(1), Fr(4))][:n]
        want = 2 * max(n - 3, 0)
        if kind == "count":
            ns = rng.choice([x for x in (0, want - 2, want - 1, want + 1, want + 2, want + 5) if x >= 0 and x != want])
        else:
            ns = rng.choice([want, want, 0, 2])
        und = [rng.randrange(n)] if kind == "undefined" else []
        nb = [i for i in range(n) if rng.random() < 0.3] if n >= 3 else []
        pre, face, spares = build_map(rng, poly, ns, nb, False, und)
        kern = rng.choice(KERNELS)
        cases.append(mk_case(f"ref{c}", pre, op_line(kern, face[0], spares), {"sig": "refusal-" + kind, "family": "refusal"}))
    return cases


def degenerate_cases(rng, count):
    """collinear triples, repeated points, self-intersections, axis-aligned lattice polygons (signed zeros in the
    star search), non-canonical face dart, open faces, bad spare darts: correspondence (+ 'error => unchanged')"""
    cases = []
    for c in range(count):
        n = rng.randint(4, 8)
        kind = rng.choice(["lattice", "lattice", "collinear", "repeat", "cross", "noncanon", "open", "badspare"])
        if kind in ("lattice", "collinear", "repeat", "cross"):
            pts = [(Fr(rng.randint(-3, 3)), Fr(rng.randint(-3, 3))) for _ in range(n)]
            if kind == "lattice":
                # rectilinear-ish staircase polygons: many zero cross products with both signs of zero
                cx, cy = 0, 0
                pts = sorted({(Fr(rng.randint(-2, 2)), Fr(rng.randint(-2, 2))) for _ in range(n + 2)},
                             key=lambda p: math.atan2(float(p[1]) - cy + 0.01, float(p[0]) - cx + 0.013))
            poly = pts
        else:
            poly = orient(centroid_star(rng, n), rng.random() < 0.5)
        n = len(poly)
        if n < 3:
            continue
        ns = 2 * max(n - 3, 0)
        nb = [i for i in range(n) if rng.random() < 0.3]
        pre, face, spares = build_map(rng, poly, ns, nb, rng.random() < 0.2)
        fd = face[0]
        if kind == "noncanon":
            fd = rng.choice(face)
        if kind == "open":
            pre.append(f"funsew 1 {rng.choice(face)}")
        if kind == "badspare" and spares:
            spares = spares[:]
            spares[rng.randrange(len(spares))] = rng.choice([0, face[0], spares[0], 999])
        kern = rng.choice(KERNELS)
        cases.append(mk_case(f"deg{c}", pre, op_line(kern, fd, spares), {"sig": "degenerate-" + kind, "family": "degenerate"}))
    return cases


def block_cases(rng, count):
    """two kernels in one transaction (two faces of one map): correspondence + WF"""
    cases = []
    for c in range(count):
        n = rng.randint(4, 6)
        poly = orient(convex_polygon(rng, n), True)
        pre, face, spares = build_map(rng, poly, 2 * (n - 3) + 2, [0], False)
        # the neighbour triangle on side 0 cannot be triangulated (AlreadyTriangulated) — use it for the error path
        tri = face[-1] + 1
        lines = pre + ["tx", op_line(rng.choice(KERNELS), face[0], spares[:2 * (n - 3)])]
        if rng.random() < 0.5:
            lines.append(op_line(rng.choice(KERNELS), tri, spares[2 * (n - 3):]))
        else:
            lines.append(f"vid {face[0]}")
        lines += ["endtx", "snap", "wf"]
        cases.append(Case(f"blk{c}", lines, oracle=None, meta={"sig": "tx-block"}))
    return cases


def run(tier, seed):
    rng = random.Random(seed)
    STATS.clear()
    LIST_STATS.clear()
    per = 10 if tier == "quick" else 80
    parts = []
    parts.append(("directed witnesses (D7 pentagon, unit squares)", hv.campaign(directed_cases(), oracle_c13, max_report=50)))
    parts.append(("polygons: convex / star / reflex at every index / random simple, isolated and embedded",
                  hv.campaign(polygon_cases(rng, per), oracle_c13, max_report=400)))
    parts.append(("polygons translated by 2^47 / 2^50 (all differences and their products exact in f64)",
                  hv.campaign(far_cases(rng, 1200 if tier == "quick" else 16000), oracle_c13, max_report=50)))
    parts.append(("refusals: spare counts, undefined vertices, small faces",
                  hv.campaign(refusal_cases(rng, 1500 if tier == "quick" else 20000), oracle_c13, max_report=50)))
    parts.append(("degenerate inputs (outside the guard)",
                  hv.campaign(degenerate_cases(rng, 3000 if tier == "quick" else 40000), oracle_c13, max_report=50, advisory=True)))
    parts.append(("inside tx blocks", hv.campaign(block_cases(rng, 500 if tier == "quick" else 5000), None)))
    from props import c08
    parts.append(("kernels after edits of their face in the same transaction (convex polygons must still be accepted)",
                  hv.campaign(c08.tri_programs(800 if tier == "quick" else 8000, rng), c08.oracle_c08k, max_report=20)))
    res = hv.merge_results(parts)
    res["stats"]["by_family_kernel_outcome"] = {"/".join(k): v for k, v in sorted(STATS.items())}
    res["stats"]["earclip_list_conditions_on_simple_polygons"] = dict(sorted(LIST_STATS.items()))
    uncovered = {k: v for k, v in LIST_STATS.items() if "False" in k}
    if uncovered:
        res.setdefault("notes", []).append(f"ear-clipping list hypotheses false on some simple polygons (inputs the C13c/e theorems do not cover): {uncovered}")
    res["violations"] = dedupe(res["violations"])
    return res


def signatures(v):
    rp = v.get("replay", {})
    lines, li = rp.get("input_lines", []), rp.get("impl_output", [])
    try:
        op_idx = max(i for i, ln in enumerate(lines) if ln.split()[0] in ("fan", "fanconvex", "earclip"))
        items, info = analyse(lines, li, op_idx)
    except Exception:
        return {"unknown"}
    if not items:
        return {"unknown"}
    tags = {t for t, _ in items}
    sigs = set()
    if "orientation" in tags:
        # D7: fan_cell (not fan_convex_cell, not ear clipping) returns Ok on a simple polygon in general position, the
        # result is a combinatorially perfect fan (all other clauses hold, areas add up) but the apex does not see
        # the whole polygon, so some triangle is not oriented like the polygon
        ok = (info.get("kern") == "fan" and info.get("res") == "ok" and info.get("simple") and info.get("gp")
              and info.get("apex_sees_all") and not any(info["apex_sees_all"]) and tags == {"orientation"})
        sigs.add("fan-accepts-non-star-apex" if ok else "unknown")
    if tags - {"orientation"}:
        sigs.add("unknown")
    return sigs


def dedupe(violations):
    seen, out = set(), []
    for v in violations:
        key = (v["kind"], tuple(sorted(signatures(v))) if v["kind"] == "oracle" else v["what"][:80])
        if key in seen and v["kind"] == "oracle" and "unknown" not in key[1]:
            continue
        seen.add(key)
        out.append(v)
    return out


def matches(known, v):
    """No finding of C13 is open: D7 is repaired (/repo 00af791), so every oracle failure is a VIOLATION.
    `signatures` is kept only to group identical failures in the report."""
    return False
