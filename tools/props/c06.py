"""C06 — a call that reports an error leaves the map exactly as it was."""
import random

import gens
import hv
from hv import Case

SPEC = {
    "lean_modules": ["Honeycomb.Props.C06", "Honeycomb.Props.C04Gen", "Honeycomb.Props.C01GenApi", "Honeycomb.Props.C02GenApi", "Honeycomb.Props.C18Gen"],
    # Gen/AttrMoves.lean is re-translated from attributes/collections.rs before every build
    "gen": ["attrs", "dispatch2", "dispatch3", "alloc"],
    "required_theorems": [
        # Props/C04Gen.lean: the translated AttrSparseVec::merge / split ARE the model's mergeS / splitS (program equality)
        "C04_gen_merge_dispatch", "C04_gen_split_dispatch", "C04_gen_mergeS", "C04_gen_splitS",
        # Props/C01GenApi.lean, C02GenApi.lean: every `force_` form of the 2-D and 3-D API runs ONE internal function inside exactly ONE
        # atomically_with_err (translator) and that function is the one the transactional form runs (so C06_error_leaves_map_unchanged,
        # which is about `atomically p`, applies to the whole call)
        "C01_gen_force_tables", "C02_gen_force_tables", "C01_gen_api", "C02_gen_api", "C18_gen_attr_loops",
        "C06_error_leaves_map_unchanged", "C06_log_error_leaves_map_unchanged"],
    "trusted_base": [
        "Lean 4.33 kernel; axioms propext, Classical.choice, Quot.sound only",
        "model of fast-stm's Transaction::read/write/commit-on-Ok (Honeycomb/Model/Stm.lean: execLog, atomicallyLog) — hand-written after "
        "fast-stm 0.5.0 src/transaction/mod.rs; tied to the code only through the behaviour of the honeycomb operations built on it",
        "hand-written model of the operations, tied to /repo by the fault-injection + differential campaign",
        "Rust harness hcimpl (test attribute types with a thread-local fault countdown), tools/*.py",
    ],
    "assumptions": [
        "single-threaded execution in this check (concurrency: C07)",
        "that the real operations write shared state only through their Transaction is NOT a theorem: it is what the campaign tests "
        "(full snapshot before/after every failing call, for every fault position k up to the number of attribute updates of the call)",
    ],
    "rule": "for every case (state, call) and every fault position k in 0..K: full snapshot (all beta images of all darts, removal flags, "
            "every slot of every storage) before and after; oracle: outcome err/panic => snapshots identical; the model must predict the "
            "same outcome and snapshot. States: exhaustive WF 2-maps n<=3 x every sew/unsew/link/unlink x args; random histories; "
            "transaction blocks. distinct_nontrivial = distinct implementation transcripts.",
    "not_proved": [
        "that each real operation/kernel is a closure writing only through the log (code fact, covered by the campaign)",
        "kernels: swap / cut / collapse are covered by the separate stream `remeshing kernels` (their model exists: Model/Kernels/{Swap,Cut,"
        "Collapse}.lean); vertex insertion and triangulation by the checks of C13/C14",
    ],
}


def oracle_unchanged(case, li):
    """expects ... snap(before) ; [fault k] ; op ; snap(after): if op failed, snaps equal"""
    snaps = [(i, l) for i, l in enumerate(li) if l.startswith("snap ")]
    for (i, a), (j, b) in zip(snaps, snaps[1:]):
        between = li[i + 1:j]
        failed = [x for x in between if x.startswith("err") or x == "panic" or x.startswith("tx err") or x == "tx panic"]
        succeeded = [x for x in between if x.startswith("ok") or x.startswith("tx ok")]
        # only judge windows containing exactly the faulted call (plus the `fault k` line answering `ok`)
        if failed and len(succeeded) <= 1 and a != b:
            return f"call reported {failed[0]!r} but the map changed: before={a!r} after={b!r}"
    for l in li:
        if l.startswith("<missing"):
            return l
    return None


def canon(line):
    """which storage fails first at a given k depends on the (unspecified) HashMap order of the storages: compare the
    outcome class only (DESIGN.md §7 C06)"""
    for v in ("FailedMerge", "FailedSplit", "InsufficientData"):
        line = line.replace("err " + v, "err Attr")
    return line


def fault_cases(rng, nmax, kmax, frac=1.0, mask=0b10111):
    cases = []
    cid = 0
    for n in range(1, nmax + 1):
        for (b0, b1, b2, u) in gens.wf_maps2(n, with_unused=False):
            if rng.random() > frac:
                continue
            in_use = list(range(1, n + 1))
            load = gens.load_line(2, n, mask, [b0, b1, b2], u)
            vals = gens.value_lines(rng, n, mask, pv=0.9, pa=0.8)
            ops = []
            for l in in_use:
                for r in in_use:
                    ops.append(f"sew 1 {l} {r}")
                    if l != r:
                        ops.append(f"sew 2 {l} {r}")
                        ops.append(f"fsew 2 {l} {r}")
                ops += [f"unsew 1 {l}", f"unsew 2 {l}", f"funsew 2 {l}", f"funsew 1 {l}", f"fsew 1 {l} {in_use[(l) % n]}"]
                # links and unlinks (no attribute update, k = 0 only matters): a REFUSED call — occupied base or image, already free —
                # in plain and force_ form must leave the map unchanged as well
                if n <= 3:
                    ops += [f"{f}unlink {i} {l}" for f in ("", "f") for i in (1, 2)]
                    ops += [f"{f}link 1 {l} {r}" for f in ("", "f") for r in in_use]
                    ops += [f"{f}link 2 {l} {r}" for f in ("", "f") for r in in_use if r != l]
            for op in ops:
                for k in range(0, (kmax if "sew" in op else 0) + 1):
                    cid += 1
                    lines = [load] + vals + ["snap"] + ([f"fault {k}"] if k else []) + [op, "snap"]
                    cases.append(Case(f"f{n}-{cid}", lines, oracle="unchanged", meta={"sig": op.split()[0], "k": k}))
    return cases


def tx_fault_blocks(count, rng, mask=0b10111):
    cases = []
    maps = {n: list(gens.wf_maps2(n, with_unused=False)) for n in (2, 3, 4)}
    for c in range(count):
        n = rng.choice((2, 3, 3, 4, 4))
        b0, b1, b2, u = rng.choice(maps[n])
        in_use = list(range(1, n + 1))
        lines = [gens.load_line(2, n, mask, [b0, b1, b2], u)] + gens.value_lines(rng, n, mask, pv=0.9, pa=0.8)
        lines.append("snap")
        k = rng.randint(0, 8)
        if k:
            lines.append(f"fault {k}")
        lines.append("tx")
        for _ in range(rng.randint(1, 4)):
            op = gens.random_op2(rng, n, in_use, force_p=0.0)
            while op.split()[0] in ("rm", "ins", "add"):
                op = gens.random_op2(rng, n, in_use, force_p=0.0)
            lines.append(op)
        lines += ["endtx", "snap"]
        cases.append(Case(f"txf{c}", lines, oracle="unchanged", meta={"sig": "tx-block", "k": k}))
    return cases


def remesh_fault_cases(rng, kmax, per_mesh):
    """separate stream (C15 kernels): swap / cut / collapse on small split grids carrying the fault-injectable VTerm (vertex) and
    ETerm (edge) attributes at every cell; the k-th attribute-law call of the kernel fails"""
    from props import c15
    cases = []
    for (nx, ny) in ((1, 1), (2, 1), (2, 2)):
        pre, g = c15.setup(nx, ny, 3, rng, False)
        pre = list(pre) + [f"wa 2 {e} {200 + e}" for e in sorted({g.eid(d) for d in g.linked})]
        darts = g.linked if len(g.linked) <= per_mesh else rng.sample(g.linked, per_mesh)
        for e in darts:
            for op in ([f"swap {e}"], [f"collapse {e}"], c15.cut_lines(g, e, rng)):
                for k in range(0, kmax + 1):
                    lines = pre + op[:-1] + ["snap"] + ([f"fault {k}"] if k else []) + [op[-1], "snap"]
                    cases.append(Case(f"rf{nx}x{ny}-{len(cases)}", lines, oracle="unchanged", meta={"sig": op[-1].split()[0], "k": k}))
    return cases


def faces3_fault_cases(rng, max_sides, per_map, kmax, reps=1):
    """3-D stream: every map of the glued-faces family (<= 2 faces, closed and open, <= max_sides sides) after 0..4 random
    link/sew ops (which create the 2- and 3-links), then ONE link/unlink/sew/unsew (plain and force_ variants, all dimensions)
    with the k-th attribute-law call failing; full snapshot before and after"""
    cases = []
    for rep in range(reps):
        for pre in (0, 2, 4):
            for name, lines in gens.faces3_cases(rng, max_faces=2, max_sides=max_sides, per_map=per_map, pre_ops=pre,
                                                 snap_before=True, distinct=True):
                j = lines.index("snap")
                i = len(lines) - 1 - lines[::-1].index("snap")
                k = rng.randint(0, kmax)
                l2 = lines[:j + 1] + ([f"fault {k}"] if k else []) + lines[j + 1:i + 1]
                cases.append(Case(f"{name}-p{pre}r{rep}", l2, oracle="unchanged", meta={"sig": "3d " + l2[-2].split()[0], "k": k}))
    return cases


def run(tier, seed):
    rng = random.Random(seed)
    parts = []
    parts.append(("3-maps: glued-faces family, one (force_)link/unlink/sew/unsew of any dimension, fault positions k<=8",
                  hv.campaign(faces3_fault_cases(rng, 3 if tier == "quick" else 4, 30 if tier == "quick" else 80, 8,
                                                 1 if tier == "quick" else 3), oracle_unchanged, canon=canon)))
    parts.append(("remeshing kernels (swap / cut / collapse) with fault positions k<=12",
                  hv.campaign(remesh_fault_cases(rng, 12, 12 if tier == "quick" else 24), oracle_unchanged, canon=canon)))
    if tier == "quick":
        r = hv.campaign(fault_cases(rng, 3, 8), oracle_unchanged, canon=canon)
        r["stats"]["exhaustive"] = True
        parts.append(("fault positions k<=8 on every sew/unsew of every WF 2-map n<=3", r))
        parts.append(("faulted transaction blocks", hv.campaign(tx_fault_blocks(4000, rng), oracle_unchanged, canon=canon)))
    else:
        r = hv.campaign(fault_cases(rng, 3, 10), oracle_unchanged, canon=canon)
        r["stats"]["exhaustive"] = True
        parts.append(("fault positions k<=10 on every sew/unsew of every WF 2-map n<=3", r))
        parts.append(("fault positions, n=4 (10% sample)", hv.campaign(fault_cases_n(rng, 4, 10, 0.10), oracle_unchanged, canon=canon)))
        parts.append(("faulted transaction blocks", hv.campaign(tx_fault_blocks(60000, rng), oracle_unchanged, canon=canon)))
    return hv.merge_results(parts)


def fault_cases_n(rng, n, kmax, frac):
    return [c for c in fault_cases(rng, n, kmax, frac) if c.cid.startswith(f"f{n}-")]


def matches(known, v):
    return False
