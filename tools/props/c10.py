"""C10 — building from cmap text yields a well-formed map or an error."""
import copy
import random
import re

import cmapgen as cg
import hv
from hv import Case
from props.c09 import campaign_impl_only

SPEC = {
    "lean_modules": ["Honeycomb.Props.C10", "Honeycomb.Props.C10b"],
    "required_theorems": ["C10_build_wf_or_error", "C10_load_wf_or_error", "C10_load_never_panics",
                          "C10_chars_load_wf_or_error", "C10_chars_never_panics"],
    "trusted_base": [
        "Lean 4.33 kernel; axioms propext, Classical.choice, Quot.sound only",
        "hand-written token-level model Honeycomb/Model/CmapText.lean (parseFile, build, load — mirroring the validating "
        "loader of commit 7170072) tied to /repo by the hcmodel/hcimpl correspondence run (`loadtext`, `snap`, `ser`, `wf`)",
        "Rust harness /verif/harness/hcimpl/src/cmapio.rs (temp file + CMapBuilder::from_cmap_file + build under catch_unwind) "
        "and tools/*.py; the oracle evaluates WF2 and the agreement with the text in Python (tools/cmapgen.py, an independent "
        "reading of the format that also predicts the exact reply) on the implementation's snapshot",
    ],
    "assumptions": [
        "character level (Props/C10b): `loadChars` mirrors from_cmap_file(..).build() on the characters (str::lines, trim, "
        "starts_with / contains / trim_matches / to_lowercase (ASCII lowering: no non-ASCII string lowers to a section name) / "
        "split('#'), split_whitespace with Rust's Unicode White_Space, parse::<u32/usize>) and is PROVED equal to the token-level "
        "`load` of the tokenised text for EVERY character string (parseFileC_eq, loadChars_eq); the token streams use printable "
        "ASCII tokens (`|` cannot be a token), the raw stream any UTF-8 text",
        "`accepted section layout` = CMapFile::try_from returns Ok (model: parseFile f = .ok cf); through the public "
        "from_cmap_file every rejected layout / META line is a documented panic (reported as `layout …`, outside the "
        "quantifier; in the model `load` returns them as errors)",
        "coordinate tokens: the model reads Rust's finite decimal grammar exactly (exponents up to 30) and the harness "
        "notation p/q; inf/infinity/nan (valid for Rust, not representable in the model) only occur in the "
        "implementation-only stream; the rounding of decimals to f64 is not modelled (generators use exactly representable values)",
        "dart counts are kept below 5000 in the streams: the loader allocates n_darts before any consistency check, a huge "
        "count in META exhausts memory (not exercised, not covered by the theorem, which has no memory model)",
        "maps have fewer than 2^32 darts (u32 ids; no truncation of `d as DartIdType` is modelled)",
    ],
    "rule": "mutations of valid serializations of random WF maps (1..6 darts): out-of-range images, non-inverse b0/b1, "
            "asymmetric / fixed-point b2, non-null or non-numeric null-dart column, linked / repeated / out-of-range / null unused "
            "ids, vertex ids >= n_darts, vertex lines for the null dart or removed darts, non-numeric tokens, missing/extra columns, "
            "section edits (duplicated / missing / renamed / reordered sections, comments, header spellings, multi-line meta and "
            "unused), valid numeric spellings (+, leading zeros, decimals, exponents), pairs of mutations, random texts with a "
            "valid layout, and a token soup around the section syntax; oracle: the reply is never `panic`, it equals the reply "
            "predicted by the independent Python reading (exact BuilderError variant and message code), and on `ok` the snapshot is "
            "WF2 (Python and `wf`) and equal to the map the text denotes (n, every image, flags, vertices: last line wins). "
            "Raw character stream (loadhex): the same (mutated) texts rendered with CRLF, tabs, VT/FF, NBSP, EM SPACE, "
            "LINE SEPARATOR, NEL, IDEOGRAPHIC SPACE as blanks and FS/US/ZWSP/BOM/NUL as look-alike NON-blanks, plus random "
            "character edits (non-digits, signs, overflow >= 2^32 and >= 2^64, glued tokens, broken headers, lost newlines, "
            "non-ASCII digits) and files that are not UTF-8; expectation from an independent Python tokeniser (Rust's White_Space "
            "set) + reading. distinct_nontrivial = distinct implementation transcripts.",
    "not_proved": [
        "the float parsing of coordinate tokens beyond the finite decimal grammar with exponent <= 30 and exact values "
        "(rounding to f64, inf/nan) is outside the model; the model additionally accepts the harness notation p/q, which the real "
        "reader rejects with BadValue (never fed raw)",
        "bytes that are not UTF-8: from_cmap_file panics in read_to_string(..).expect(..) before a text exists (documented "
        "`# Panics`; outside the quantifier, exercised and compared in the raw stream)",
        "the first stage through the public API: from_cmap_file unwraps the section parser's error (documented panic); the "
        "theorem is about build() after an accepted layout, as the property is",
    ],
}

GARBAGE_NUM = ["x", "1x", "-1", "1.5", "+", "1_0", "4294967296", "0x1", "1e1", "--", "99999999999999999999"]
GARBAGE_COORD = ["x", "1..2", "--1", "1e", "e5", ".", "1_0", "0x1", "+", "1,5", "1e+", "-", "1/0", "+1/2", "1/2/3", "1.5.2"]
GARBAGE_META = ["x", "1x", "-1", "1.5", "+", "1_0", "0x1", "--"]
VALID_COORD = ["2.5", "-.5", "5.", "1e1", "25e-2", "+3", "0.125", "-0.0", "1E2", "00.5", "1.0e+1", "12/4", "-3/8"]


class Txt:
    """a cmap text in components"""

    def __init__(self, n, b0, b1, b2, u, verts):
        self.meta = [[cg.VERSION, "2", str(n)]]
        self.rows = [[str(x) for x in b0], [str(x) for x in b1], [str(x) for x in b2]]
        self.unused = [[str(d) for d in range(n + 1) if u[d]]]
        self.verts = [[str(v), x, y] for v, (x, y) in sorted(verts.items())]
        self.order = ["meta", "betas", "unused", "vertices"]
        self.headers = {"meta": ["[META]"], "betas": ["[BETAS]"], "unused": ["[UNUSED]"], "vertices": ["[VERTICES]"]}
        self.extra_front = []   # lines before the first header
        self.extra_end = []
        self.blank = True

    def lines(self):
        out = list(self.extra_front)
        for s in self.order:
            out.append(self.headers[s])
            if s == "meta":
                out += self.meta
            elif s == "betas":
                out += self.rows
            elif s == "unused":
                out += self.unused
            else:
                out += self.verts
            if self.blank:
                out.append([])
        return out + self.extra_end


def base(rng, nmin=1, nmax=6):
    n = rng.randint(nmin, nmax)
    b0, b1, b2, u = cg.random_wf_map(rng, n, p1=0.6, p2=0.6, pu=0.35)
    verts = {}
    for v in cg.vertex_ids(n, b0, b1, b2, u):
        if rng.random() < 0.8:
            verts[v] = (cg.fr_tok(rng.randint(-16, 16) / 4), cg.fr_tok(rng.randint(-16, 16) / 4))
    info = {"n": n, "b": [b0, b1, b2], "u": u}
    return Txt(n, b0, b1, b2, u, verts), info


def coord(rng):
    from fractions import Fraction
    return cg.fr_tok(Fraction(rng.randint(-32, 32), 4))


# every mutation returns True if it applied
def m_range(rng, t, info):
    n = info["n"]
    i, d = rng.randrange(3), rng.randint(1, n)
    t.rows[i][d] = str(rng.choice([n + 1, n + 2, n + 7, 4294967295]))
    return True


def m_inverse(rng, t, info):
    n = info["n"]
    i, d = rng.choice([0, 1]), rng.randint(1, n)
    cur = info["b"][i][d]
    v = rng.choice([x for x in range(0, n + 1) if x != cur])
    t.rows[i][d] = str(v)
    return True


def m_beta2(rng, t, info):
    n = info["n"]
    d = rng.randint(1, n)
    cur = info["b"][2][d]
    v = rng.choice([x for x in range(0, n + 1) if x != cur])
    t.rows[2][d] = str(v)
    return True


def m_nullcol(rng, t, info):
    n = info["n"]
    t.rows[rng.randrange(3)][0] = rng.choice(["1", str(n), "x", "7", "-1", str(n + 3)])
    return True


def m_unused_linked(rng, t, info):
    n = info["n"]
    linked = [d for d in range(1, n + 1) if any(info["b"][i][d] for i in range(3))]
    if not linked:
        return False
    t.unused[0].insert(rng.randint(0, len(t.unused[0])), str(rng.choice(linked)))
    return True


def m_unused_repeated(rng, t, info):
    n = info["n"]
    free = [d for d in range(0, n + 1) if not any(info["b"][i][d] for i in range(3))]
    if not free:
        return False
    d = rng.choice(free)
    k = 1 if info["u"][d] else 2
    for _ in range(k):
        t.unused[0].insert(rng.randint(0, len(t.unused[0])), str(d))
    return True


def m_unused_oor(rng, t, info):
    n = info["n"]
    t.unused[0].insert(rng.randint(0, len(t.unused[0])), str(rng.choice([n + 1, n + 2, n + 17, 4294967295])))
    return True


def m_vertex_oor(rng, t, info):
    n = info["n"]
    vid = str(rng.choice([n + 1, n + 2, n + 17, 4294967295]))
    if t.verts and rng.random() < 0.5:
        t.verts[rng.randrange(len(t.verts))][0] = vid
    else:
        t.verts.insert(rng.randint(0, len(t.verts)), [vid, coord(rng), coord(rng)])
    return True


def m_vertex_missing(rng, t, info):
    n = info["n"]
    cands = [0] + [d for d in range(1, n + 1) if info["u"][d]]
    t.verts.insert(rng.randint(0, len(t.verts)), [str(rng.choice(cands)), coord(rng), coord(rng)])
    return True


def m_nonnumeric(rng, t, info):
    n = info["n"]
    k = rng.random()
    if k < 0.4:
        t.rows[rng.randrange(3)][rng.randint(1, n)] = rng.choice(GARBAGE_NUM)
    elif k < 0.55:
        t.unused[0].insert(rng.randint(0, len(t.unused[0])), rng.choice(GARBAGE_NUM))
    elif k < 0.7:
        if not t.verts:
            return False
        t.verts[rng.randrange(len(t.verts))][0] = rng.choice(GARBAGE_NUM)
    elif k < 0.9:
        if not t.verts:
            return False
        t.verts[rng.randrange(len(t.verts))][rng.choice([1, 2])] = rng.choice(GARBAGE_COORD)
    else:
        t.meta[0][rng.choice([1, 2])] = rng.choice(GARBAGE_META)
    return True


def m_columns(rng, t, info):
    n = info["n"]
    k = rng.random()
    if k < 0.2:
        r = t.rows[rng.randrange(3)]
        del r[rng.randrange(len(r))]
    elif k < 0.4:
        r = t.rows[rng.randrange(3)]
        r.insert(rng.randint(0, len(r)), "0")
    elif k < 0.5:
        for r in t.rows:
            r.append("0")
    elif k < 0.6:
        t.meta[0][2] = str(max(0, n + rng.choice([-1, 1, 2])))
    elif k < 0.7:
        if rng.random() < 0.5:
            t.meta[0].append("7")
        else:
            del t.meta[0][rng.randrange(3)]
    elif k < 0.85:
        if not t.verts:
            return False
        del t.verts[rng.randrange(len(t.verts))][rng.choice([1, 2])]
    elif k < 0.95:
        if not t.verts:
            return False
        t.verts[rng.randrange(len(t.verts))].append(rng.choice(["0", "x", "1/2"]))
    else:
        if not t.verts:
            return False
        v = t.verts[rng.randrange(len(t.verts))]
        del v[1:]
    return True


def m_sections(rng, t, info):
    k = rng.random()
    if k < 0.1:
        t.extra_end.append(t.headers[rng.choice(t.order)])
    elif k < 0.2:
        t.order.remove(rng.choice(["unused", "vertices"]))
    elif k < 0.27:
        t.order.remove(rng.choice(["meta", "betas"]))
    elif k < 0.37:
        s = rng.choice(t.order)
        t.headers[s] = rng.choice([["[BETA]"], ["[METAS]"], ["[]"], ["[", "META", "]"], ["[VERTEX]"], ["[META]", "#", "c"],
                                   ["[UNUSED]x"]])
    elif k < 0.5:
        rng.shuffle(t.order)
    elif k < 0.58:
        t.rows.insert(rng.randint(0, 3), ["0"] * len(t.rows[0]))
    elif k < 0.66:
        del t.rows[rng.randrange(3)]
    elif k < 0.76:
        s = rng.choice(t.order)
        t.headers[s] = [rng.choice(["[[{}]]", "[{}]]", "[{}][", "[]{}]", "[{}]"]).format(
            rng.choice([s.upper(), s.lower(), s.capitalize()]))]
    elif k < 0.86:
        # comments: full-line, trailing, glued to a token
        t.extra_front.append(["#", "generated"])
        t.rows[rng.randrange(3)].append(rng.choice(["#", "#c", "#1 2"]))
        if t.verts:
            v = t.verts[rng.randrange(len(t.verts))]
            v[-1] = v[-1] + "#y"
        t.meta[0].append("#meta")
    elif k < 0.92:
        t.extra_front.append(["1", "2", "3"])        # data before the first header: ignored
        t.blank = False
    elif k < 0.96:
        # meta and unused spread over several lines
        t.meta = [[t.meta[0][0]], t.meta[0][1:]]
        u = t.unused[0]
        h = len(u) // 2
        t.unused = [u[:h], u[h:]]
    else:
        # a β line split in two (four content lines -> InconsistentData)
        i = rng.randrange(3)
        r = t.rows[i]
        h = max(1, len(r) // 2)
        t.rows[i:i + 1] = [r[:h], r[h:]]
    return True


def m_valid_spelling(rng, t, info):
    n = info["n"]
    for _ in range(rng.randint(1, 4)):
        k = rng.random()
        if k < 0.4:
            i, d = rng.randrange(3), rng.randint(0, n)
            t.rows[i][d] = rng.choice(["+", "0", "00", "+00"]) + t.rows[i][d]
        elif k < 0.5:
            t.meta[0][2] = rng.choice(["+", "0", "000"]) + t.meta[0][2]
        elif k < 0.6 and t.unused[0]:
            j = rng.randrange(len(t.unused[0]))
            t.unused[0][j] = rng.choice(["+", "0"]) + t.unused[0][j]
        elif t.verts:
            v = t.verts[rng.randrange(len(t.verts))]
            v[rng.choice([1, 2])] = rng.choice(VALID_COORD)
            if rng.random() < 0.3:
                v[0] = "+" + v[0]
    return True


def m_vertex_repeated(rng, t, info):
    """the same vertex id on two lines is accepted: the last line wins"""
    if not t.verts:
        return False
    v = t.verts[rng.randrange(len(t.verts))]
    t.verts.insert(rng.randint(0, len(t.verts)), [v[0], coord(rng), coord(rng)])
    return True


MUTATIONS = {
    "beta-out-of-range": m_range, "beta01-not-inverse": m_inverse, "beta2-asymmetric": m_beta2,
    "null-column": m_nullcol, "unused-linked": m_unused_linked, "unused-repeated": m_unused_repeated,
    "unused-out-of-range": m_unused_oor, "vertex-id-out-of-range": m_vertex_oor,
    "vertex-on-missing-dart": m_vertex_missing, "non-numeric": m_nonnumeric, "columns": m_columns,
    "sections": m_sections, "valid-spelling": m_valid_spelling, "vertex-repeated": m_vertex_repeated,
}


def make_case(cid, rng, lines, mut):
    ana = cg.analyse(lines)
    mask = rng.choice([0, 0, 7, 23])
    # `ser` is there for the correspondence only
    cl = ["new 2 0 0", cg.loadtext_line(mask, lines), "snap", "ser", "wf"]
    sig = f"mut={mut};expect={ana['kind']} {ana['detail']}".strip()
    return Case(cid, cl, oracle="c10", meta={"sig": sig, "ana": ana})


def mutated(count, rng, muts=None, double=0.25):
    cases = []
    names = list(muts or MUTATIONS)
    k = 0
    while len(cases) < count:
        t, info = base(rng, nmin=1, nmax=6)
        name = names[k % len(names)]
        k += 1
        t2 = copy.deepcopy(t)
        if not MUTATIONS[name](rng, t2, info):
            continue
        tag = name
        if rng.random() < double:
            other = rng.choice(list(MUTATIONS))
            try:
                if MUTATIONS[other](rng, t2, info):
                    tag = f"{name}+{other}"
            except (IndexError, ValueError):
                pass    # the first mutation removed what the second wanted to edit
        cases.append(make_case(f"mu{len(cases)}-{tag}", rng, t2.lines(), tag))
    return cases


def valid_controls(count, rng):
    cases = []
    for k in range(count):
        t, info = base(rng, nmin=0, nmax=8)
        cases.append(make_case(f"ok{k}", rng, t.lines(), "none"))
    return cases


def random_texts(count, rng):
    cases = []
    for k in range(count):
        n = rng.randint(0, 4)
        pool = [str(x) for x in range(0, n + 1)] * 3 + ["0"] * (4 * n + 4) + [str(n + 1)]
        if rng.random() < 0.1:
            pool += ["x", "+1", "01"]
        rows = [[rng.choice(pool) for _ in range(n + 1)] for _ in range(3)]
        if rng.random() < 0.85:
            for r in rows:
                r[0] = "0"
        if rng.random() < 0.5:
            # symmetric-ish: derive b0 from b1 where possible so that accepted texts are not too rare
            rows[0] = ["0"] * (n + 1)
            for d in range(1, n + 1):
                v = cg.parse_u(rows[1][d], cg.U32)
                if v is not None and 0 < v <= n and rows[0][v] == "0":
                    rows[0][v] = str(d)
        unused = [str(rng.randint(0, n + 1)) for _ in range(rng.choice([0, 0, 1, 1, 2, 3]))]
        verts = [[str(rng.randint(0, n + 1)), coord(rng), coord(rng)] for _ in range(rng.choice([0, 1, 2, 3]))]
        lines = [["[META]"], [cg.VERSION, "2", str(n)], ["[BETAS]"]] + rows
        if rng.random() < 0.8:
            lines += [["[UNUSED]"], unused]
        if rng.random() < 0.8:
            lines += [["[VERTICES]"]] + verts
        cases.append(make_case(f"rt{k}", rng, lines, "random"))
    return cases


SOUP = ["[META]", "[meta]", "[BETAS]", "[betas]", "[UNUSED]", "[VERTICES]", "[Vertices]", "[[META]]", "[META", "META]",
        "[", "]", "[]", "[x]", "[BETAS]x", "x[BETAS]", "#", "#x", "x#y", "0#", "#[META]", "[META]#", "[UNUSED]#c",
        "0", "0", "0", "1", "2", "3", "0.8.1", "+1", "01", "x", "1/2", "-3/4", "2.5", "[0]", "0]"]


def layout_soup(count, rng):
    """random token soup around the section syntax: headers in odd spellings, brackets, comments glued to tokens,
    data before the first header, repeated / missing sections (three-way check of the section parser)"""
    cases = []
    for k in range(count):
        lines = []
        if rng.random() < 0.7:
            lines += [[rng.choice(["[META]", "[meta]", "[[META]]"])], [cg.VERSION, "2", str(rng.randint(0, 2))]]
        if rng.random() < 0.7:
            n = rng.randint(0, 2)
            lines += [[rng.choice(["[BETAS]", "[betas]"])]] + [["0"] * (n + 1) for _ in range(3)]
        for _ in range(rng.randint(0, 5)):
            lines.insert(rng.randint(0, len(lines)), [rng.choice(SOUP) for _ in range(rng.randint(0, 4))])
        cases.append(make_case(f"soup{k}", rng, lines, "soup"))
    return cases


def special_coord_cases(count, rng):
    """implementation only: coordinate tokens the model cannot represent"""
    toks = ["inf", "-inf", "+inf", "infinity", "-Infinity", "INF", "nan", "NaN", "-nan", "1e999", "-1e999", "1e-999",
            "1e400", "0.1", "1e31", "123456789012345678901234567890", "4.9e-324", "1.7976931348623157e308"]
    cases = []
    for k in range(count):
        t, info = base(rng, nmin=1, nmax=4)
        if not t.verts:
            t.verts.append(["1", "0", "0"])
        for v in t.verts:
            v[rng.choice([1, 2])] = rng.choice(toks)
        lines = t.lines()
        cases.append(Case(f"sc{k}", ["new 2 0 0", cg.loadtext_line(0, lines), "wf"], oracle="special",
                          meta={"sig": "mut=special-coord;expect=ok"}))
    return cases


# ---------------------------------------------------------------------------------------------
# character level (C10b): raw texts through `loadhex`
# ---------------------------------------------------------------------------------------------

SEPS = [" "] * 6 + ["  ", "\t", " \t ", " ", " ", "\x0b", "\x0c", "\r", " ", "\u0085", "　"]
FAKE_SEPS = ["\x1c", "\x1f", "​", "﻿", "_", "\x00"]   # NOT White_Space for Rust: they glue tokens
EDIT_POOL = list("0123456789") * 3 + list("+-#[]x.e/") + [" ", "\t", "\n", "\r", "\r\n", " ", "\x1c", "​"]


def undo_ratio(tok):
    """loadhex feeds the text as it is: valid p/q tokens are written as exact decimals"""
    if cg._RATIO.match(tok):
        a, b = tok.split("/")
        if int(b) != 0 and (int(b) & (int(b) - 1)) == 0:
            from fractions import Fraction
            return cg.exact_decimal(Fraction(int(a), int(b)))
    return tok


def render_raw(lines, rng):
    eol = rng.choice(["\n", "\n", "\r\n"])
    fancy = rng.random() < 0.6
    out = []
    for l in lines:
        toks = []
        for t in l:
            # a comment may be glued to a ratio: only the data part is converted
            head, sepc, tail = t.partition("#")
            toks.append(undo_ratio(head) + sepc + tail)
        s = ""
        if fancy and rng.random() < 0.3:
            s += rng.choice(SEPS)
        for k, t in enumerate(toks):
            if k:
                if fancy and rng.random() < 0.03:
                    s += rng.choice(FAKE_SEPS)
                else:
                    s += rng.choice(SEPS) if fancy else " "
            s += t
        if fancy and rng.random() < 0.3:
            s += rng.choice(SEPS)
        out.append(s)
    text = eol.join(out) + (eol if rng.random() < 0.8 else "")
    if fancy and rng.random() < 0.2:
        text = rng.choice(["\n", " \n", "﻿", "\r\n\r\n"]) + text
    return text


def char_edits(text, rng, k):
    cs = list(text)
    for _ in range(k):
        if not cs:
            break
        i = rng.randrange(len(cs))
        r = rng.random()
        if r < 0.4:
            cs[i] = rng.choice(EDIT_POOL)
        elif r < 0.7:
            cs.insert(i, rng.choice(EDIT_POOL))
        else:
            del cs[i]
    return "".join(cs)


def meta_count(lines):
    st, secs = cg.split_sections(lines)
    if st != "ok":
        return 0
    parts = [t for l in secs["meta"] for t in l]
    return cg.parse_u(parts[2], cg.USIZE) or 0


_EXP = re.compile(r"^[+-]?(?:[0-9]+\.?[0-9]*|\.[0-9]+)[eE]([+-]?[0-9]+)$")


def float_outside_model(tok):
    """valid f64 literals the model cannot represent (documented limits): big exponents, inf / nan"""
    t = tok.split("#")[0]
    m = _EXP.match(t)
    if m and abs(int(m.group(1))) > 30:
        return True
    if cg._RATIO.match(t) and int(t.split("/")[1]) != 0:
        return True     # the harness notation p/q: accepted by the model's coordinate reader only
    return t.lstrip("+-").lower() in ("inf", "infinity", "nan")


def make_raw_case(cid, rng, text, mut, data=None):
    """text: str (UTF-8 encoded) or, with data, raw bytes that are not valid UTF-8"""
    mask = rng.choice([0, 0, 7, 23])
    if data is not None:
        ana = {"kind": "utf8", "detail": "", "expect": None}
        payload = data.hex()
    else:
        toks = cg.tokenise_text(text)
        if meta_count(toks) > 5000:
            return None            # the loader allocates n_darts before checking anything
        if any(float_outside_model(t) for l in toks for t in l):
            return None
        ana = cg.analyse(toks)
        if ana["kind"] == "ok":
            # floats stay outside the model: keep only coordinates that are exactly representable as f64
            from fractions import Fraction
            for x, y in ana["expect"]["verts"].values():
                for q in (x, y):
                    try:
                        if Fraction(float(q)) != q:
                            return None
                    except OverflowError:
                        return None
        payload = cg.hexs(text)
    cl = ["new 2 0 0", f"loadhex {mask} {payload}".rstrip(), "snap", "ser", "wf", "serhex"]
    sig = f"mut={mut};expect={ana['kind']} {ana['detail']}".strip()
    return Case(cid, cl, oracle="c10", meta={"sig": sig, "ana": ana})


def raw_texts(count, rng):
    """character-level stream: (mutated) token texts rendered with CRLF / tabs / Unicode blanks / look-alike
    non-blanks, then random character edits (non-digits, signs, overflow, glued tokens, broken headers, lost
    newlines); a few files that are not UTF-8"""
    cases = []
    names = list(MUTATIONS)
    k = 0
    while len(cases) < count:
        k += 1
        t, info = base(rng, nmin=0 if k % 7 == 0 else 1, nmax=6)
        tag = "raw"
        r = rng.random()
        if r < 0.45 and info["n"] >= 1:
            name = names[k % len(names)]
            t2 = copy.deepcopy(t)
            try:
                if MUTATIONS[name](rng, t2, info):
                    t, tag = t2, f"raw-{name}"
            except (IndexError, ValueError):
                pass
        text = render_raw(t.lines(), rng)
        if rng.random() < 0.4:
            text = char_edits(text, rng, rng.choice([1, 1, 2, 4]))
            tag += "+edit"
        if rng.random() < 0.05:
            over = rng.choice(["4294967296", "4294967295", "18446744073709551616", "00000000000000000000001", "+0", "-0", "+", "1_0", "0x1", "٣"])
            text = text.replace(" 0", " " + over, 1)
            tag += "+num"
        if rng.random() < 0.02:
            b = text.encode("utf-8")
            i = rng.randrange(len(b) + 1)
            c = make_raw_case(f"raw{len(cases)}-utf8", rng, None, "raw-utf8", data=b[:i] + rng.choice([b"\xff", b"\xc3", b"\xe2\x80"]) + b[i:])
        else:
            c = make_raw_case(f"raw{len(cases)}-{tag}", rng, text, tag)
        if c is not None:
            cases.append(c)
    return cases


# ---------------------------------------------------------------------------------------------
# oracle
# ---------------------------------------------------------------------------------------------

REPLIES = {}


def oracle_c10(case, li):
    if any(ln.startswith("<missing") for ln in li):
        return "[driver] " + li[0]
    mut = case.meta["sig"].split(";")[0][4:].split("+")[0]
    rep_key = " ".join(li[1].split(" ")[:2]) if len(li) > 1 else "?"
    REPLIES.setdefault(mut, {})
    REPLIES[mut][rep_key] = REPLIES[mut].get(rep_key, 0) + 1
    if case.oracle == "special":
        rep, wf = li[1], li[2]
        if rep == "panic":
            return "[panic] the loader panics"
        if rep == "ok" and wf != "wf true true true":
            return f"[nonwf:special] {wf}"
        if not (rep == "ok" or rep.startswith("err ")):
            return f"[analysis-mismatch] unexpected reply {rep}"
        return None
    ana = case.meta["ana"]
    rep = li[1]
    if ana["kind"] == "utf8":
        # not a text: `read_to_string(..).expect(..)` panics in from_cmap_file (outside the quantifier)
        return None if rep == "panic" else f"[reply-mismatch] bytes that are not UTF-8: {rep!r}, expected 'panic'"
    if rep == "panic":
        return f"[panic] the loader panics (the Python reading expects {ana['kind']} {ana['detail']})"
    want = {"layout": "layout " + str(ana["detail"]), "err": "err " + str(ana["detail"]), "ok": "ok"}[ana["kind"]]
    if rep != want:
        tag = "accepted-invalid" if rep == "ok" else "reply-mismatch"
        return f"[{tag}] implementation says {rep!r}, the Python reading of the text expects {want!r}"
    if rep != "ok":
        return None       # layout: outside the quantifier of C10; err: the advertised failure channel
    s = cg.parse_snap(li[2])
    if s is None:
        return f"[driver] no snapshot after ok: {li[2][:100]!r}"
    f = cg.snap_wf_failure(s)
    if f:
        return f"[{f}] the loader returns an ill-formed map: {li[2][:300]}"
    if len(li) > 4 and li[4] != "wf true true true":
        return f"[nonwf:driver] {li[4]}"
    ex = ana["expect"]
    if s["n"] != ex["n"]:
        return f"[disagree:n] n_darts {s['n']} for a text announcing {ex['n']}"
    for i in range(3):
        for d in range(0, ex["n"]):
            if s[f"b{i}"][d] != ex["rows"][i][d]:
                return f"[disagree:beta] b{i}({d}) = {s[f'b{i}'][d]}, text says {ex['rows'][i][d]}"
    if s["u"] != ex["unused"]:
        return f"[disagree:unused] flags {s['u']}, text says {ex['unused']}"
    for d in range(ex["n"]):
        got = cg.snap_vertex(s["a0"][d])
        want_v = ex["verts"].get(d)
        if got != want_v:
            return f"[disagree:vertex] vertex {d} = {got}, text says {want_v}"
    return None


def campaign(cases):
    """hv.campaign without the cap on reported violations: with hundreds of (known) oracle failures the
    default cap would drop model/implementation disagreements from the violation list"""
    return hv.campaign(cases, oracle_c10, max_report=10 ** 9)


def run(tier, seed):
    rng = random.Random(seed)
    parts = []
    if tier == "quick":
        parts.append(("valid controls", campaign(valid_controls(500, rng))))
        parts.append(("single and double mutations", campaign(mutated(7800, rng))))
        parts.append(("random texts with valid layout", campaign(random_texts(4000, rng))))
        parts.append(("section-syntax token soup", campaign(layout_soup(3000, rng))))
        parts.append(("raw characters (loadhex)", campaign(raw_texts(6000, rng))))
        parts.append(("special coordinate tokens (implementation only)",
                      campaign_impl_only(special_coord_cases(600, rng), oracle_c10)))
    else:
        parts.append(("valid controls", campaign(valid_controls(3000, rng))))
        parts.append(("single and double mutations", campaign(mutated(39000, rng))))
        parts.append(("random texts with valid layout", campaign(random_texts(30000, rng))))
        parts.append(("section-syntax token soup", campaign(layout_soup(30000, rng))))
        parts.append(("raw characters (loadhex)", campaign(raw_texts(60000, rng))))
        parts.append(("special coordinate tokens (implementation only)",
                      campaign_impl_only(special_coord_cases(3000, rng), oracle_c10)))
    res = hv.merge_results(parts)
    # per-class tally of the observed failures (evidence only)
    tally = {}
    for v in res["violations"]:
        if v.get("kind") == "oracle":
            m = re.match(r".*?\[([^\]]+)\]", v["what"])
            tag = m.group(1) if m else "?"
            tally[tag] = tally.get(tag, 0) + 1
    res.setdefault("notes", []).append({"observed_failure_classes": tally})
    res["notes"].append({"implementation_replies_per_mutation_class": REPLIES})
    return res


def matches(known, v):
    """D5a–D5g were repaired in /repo (7170072); nothing is expected to fail any more"""
    return False
