"""C02 — 3-map structural integrity, mirrored 3-sewn faces, refusal of non-mirrorable 3-links.

Proofs: `Honeycomb.Props.C02` (WF 4 and Mirror preserved by every call and every history; refusal of
faces of different shapes), on the lemmas `Honeycomb/Lemmas/{Link3,Sew3}.lean`.  Tie + oracle: model
`Honeycomb/Model/Ops3.lean`, harness `hcimpl/src/s3.rs`.

Oracles (evaluated on the implementation's output):
  * wf        — after every editing call made with non-null, in-use darts (distinct for 2-/3-links) the
                line printed by `wf` is `wf true true true` (WF 4, NoImageOfUnused 4, Mirror);
  * refusal   — a `link 3` / `sew 3` (any variant) whose two faces, read from the `snap` printed just
                before the call, have different closedness or a different number of sides must not
                return `ok`.
Failure texts start with a tag: `[D1-closed-left]` when the offending call is a successful 3-link/3-sew
whose left face is closed (DESIGN.md §8-D1: the right walk is not checked when the left walk closes),
`[D1b-open-right-longer]` when both faces are open, the walks agree ahead of the darts and the right
face has extra darts behind (`three_link` does not test `rside` after its backward loop), `[other]`
otherwise.  `matches` lets a known finding with matcher kind `three-link-closed-left` /
`three-link-open-right-longer` absorb the corresponding tag only.
"""
import random
import re

import gens
import hv
from hv import Case

SPEC = {
    "lean_modules": ["Honeycomb.Props.C02", "Honeycomb.Props.C02b", "Honeycomb.Props.C01Gen", "Honeycomb.Props.C02Gen", "Honeycomb.Props.C02Gen3", "Honeycomb.Props.C02GenApi"],
    # Gen/LinkCores.lean is re-translated from components/betas.rs before every build
    "gen": ["cores", "links3", "links3c", "dispatch3"],
    "required_theorems": [
        # Props/C01Gen.lean: the translated *_core functions of betas.rs ARE the model's link cores (program equality)
        "C01_gen_oneLinkCore", "C01_gen_twoLinkCore", "C01_gen_threeLinkCore", "C01_gen_oneUnlinkCore", "C01_gen_twoUnlinkCore",
        "C01_gen_threeUnlinkCore",
        # Props/C02Gen.lean: the translated CMap3::one_link / one_unlink ARE the model's oneLink3 / oneUnlink3
        "C02_gen_oneLink3", "C02_gen_oneUnlink3", "C02_gen_one_links_preserve_WF_and_Mirror",
        # Props/C02Gen3.lean: the translated CMap3::three_link / three_unlink (both while loops) ARE the model's threeLink3 / threeUnlink3
        "C02_gen_threeLink3", "C02_gen_threeUnlink3", "C02_gen_three_links_preserve_WF", "C02_gen_refusal", "C02_gen_api", "C02_gen_force_tables", "C02_gen_api_step_preserves_WF", "whileL_linkBody", "whileL_unlinkBody","C02_step_preserves_WF", "C02_history_preserves_WF", "C02_step_preserves_Mirror",
                          "C02_history_preserves_WF_and_Mirror", "C02_refusal", "C02_refusal_sew",
                          "C02_three_link_checks_shape", "C02_refused_call_changes_nothing",
                          "C02_unused_is_nobodys_image", "C02_failed_call_changes_nothing",
                          "C02b_step_preserves_Sided", "C02b_history_preserves_Sided", "C02b_sided_counterexample",
                          "C02b_noSelfGlue_counterexample", "C02b_step_preserves_NoSelfGlue_partial",
                          "C02b_step_preserves_NoSelfGlue", "C02b_history_preserves_all", "nsg_of_noAdj"],
    "trusted_base": [
        "Lean 4.33 kernel; axioms propext, Classical.choice, Quot.sound only",
        "hand-written model Honeycomb/Model/{Stm,Map,Ops,Ops2,Ops3}.lean tied to /repo by the hcmodel/hcimpl correspondence run",
        "Rust harness /verif/harness/hcimpl (protocol interpreter s3.rs, WF/mirror oracle) and tools/*.py",
        "fast-stm is represented by the sequential semantics `atomically` (single thread; C07 covers concurrency)",
        "CMap3 removal flags are read through the [UNUSED] section of CMap3::serialize",
    ],
    "assumptions": [
        "maps have fewer than 2^32 darts (no u32 wrap-around is modelled)",
        "three_sew/three_unsew walk the two faces through the transaction (orbit_transac, /repo f79acf8 — the repair of D4), as the "
        "model always did; the stream `composed transactions` runs 3-sews after 1-links of the same faces inside one tx block",
    ],
    "rule": "exhaustive: every WF 3-map with n<=N darts (b1 partial injection, b2 and b3 fixed-point-free partial involutions, "
            "removed sets) x every link/unlink/sew/unsew of dimension 1,2,3 x every in-use argument tuple; the glued-faces family "
            "(all ways to build <=2 (quick) / <=3 (thorough, sampled) faces of <=4 sides, closed and open) x every call, fresh and "
            "after random pre-operations; random valid-argument histories on face families and on pairs of polyhedra "
            "(cube, tetrahedron, prism, pyramid) glued by a 3-sew; composed transactions (two faces built by 1-links out of free darts, "
            "3-linked/3-sewn and edited again inside one tx block vs the same calls one by one: all-or-nothing, same final state); "
            "malformed arguments (outside the guard of the property: advisory correspondence, a disagreement there is recorded, not an alarm).",
    "not_proved": [
        "no clause of the statement is left `_partial`: WF 4 (C02_step/history_preserves_WF), Mirror (open and closed faces, every "
        "op) and the refusal (closed/closed of different lengths, closed/open, open/open with different numbers of darts ahead or "
        "behind) are proved on the model of the code AFTER the D1/D1b fix: commit (243b216); before them Mirror and the refusal were false "
        "(former defect D1/D1b, repaired in 243b216)",
        "the theorems are about the sequential semantics of single calls and histories; concurrency is C07, composed transactions "
        "C08 (D4 — three_sew/three_unsew used the non-transactional orbit() — is repaired in /repo; it never affected the beta part "
        "proved here: the face walks only feed the attribute updates)",
        "model/implementation agreement is established by the differential run of this check, not by proof",
        "Props/C02b.lean (the two extra predicates of the 3-D rendering theorems C20b): `Sided3` (faces 3-linked as a whole) is NOT an "
        "invariant under C02's guards alone — a 1-link/1-sew of a 3-linked dart with a 3-free one breaks it (C02b_sided_counterexample: "
        "new 3 3 0; link 3 1 2; link 1 1 3), and one more breaks `NoSelfGlue3` (C02b_noSelfGlue_counterexample); with the extra guard "
        "G13 (both darts 3-linked or neither) on 1-links/1-sews WF ∧ Mirror ∧ Sided3 is preserved by every call and history (proved: "
        "C02b_step_preserves_Sided, C02b_history_preserves_Sided; three_link links and three_unlink unlinks whole faces, closed or open). "
        "NoSelfGlue is proved preserved from WF ∧ Mirror ∧ Sided3 ∧ NoSelfGlue maps by every call under C02's guards + G13 "
        "(C02b_step_preserves_NoSelfGlue, C02b_history_preserves_all; key lemma nsg_of_noAdj: on a WF mirrored sided map a self-glued "
        "face shows as a dart 3-linked to its own successor). NOT proved: NoSelfGlue through 1-links/1-sews WITHOUT G13 (the result is "
        "then not sided; exhaustive search tools/sided_scan.py — every WF 3-map with <= 4 darts x every guarded call, 24500 random "
        "histories — found no violation from maps satisfying all four predicates); C02b_step_preserves_NoSelfGlue_partial covers every "
        "other call without G13",
    ],
}

OP_RE = re.compile(r"^f?(link|unlink|sew|unsew) ([0-9]+) ([0-9]+)(?: ([0-9]+))?$")


def classify(op, res, snap_before):
    """tag of a failure attributed to the call `op` (result line `res`) made in state `snap_before`"""
    m = OP_RE.match(op)
    if m and m.group(1) in ("link", "sew") and m.group(2) == "3" and res.startswith("ok") and snap_before:
        try:
            s = gens.parse_snap(snap_before)
            sl = gens.face_shape3(s, int(m.group(3)))
            sr = gens.face_shape3(s, int(m.group(4)), right=True)
            if sl[0] == "closed":
                return "[D1-closed-left]"
            # both open, same number of darts ahead, the right face continues behind where the left one ends
            if sr[0] == "open" and sl[2] == sr[2] and sl[1] < sr[1]:
                return "[D1b-open-right-longer]"
        except (ValueError, KeyError, IndexError):
            pass
    return "[other]"


def oracle(case, li):
    """walk the transcript: remember the last snap, the last editing call and its result"""
    if case.oracle == "c02tx":
        return oracle_tx(case, li)
    if case.oracle != "c02":
        return None
    last_snap, last_op, last_res, snap_at_op = None, None, None, None
    for ln_in, ln_out in zip(case.lines, li):
        if ln_out.startswith("<missing"):
            return "[other] " + ln_out
        if ln_in == "snap":
            last_snap = ln_out
            continue
        m = OP_RE.match(ln_in)
        if m:
            last_op, last_res, snap_at_op = ln_in, ln_out, last_snap
            if m.group(1) in ("link", "sew") and m.group(2) == "3" and ln_out.startswith("ok") and last_snap:
                s = gens.parse_snap(last_snap)
                l, r = int(m.group(3)), int(m.group(4))
                sl, sr = gens.face_shape3(s, l), gens.face_shape3(s, r, right=True)
                if sl[0] != sr[0] or sl[1] != sr[1]:
                    return (f"{classify(ln_in, ln_out, last_snap)} non-mirrorable request accepted: `{ln_in}` returned ok "
                            f"with left face {sl[:2]} and right face {sr[:2]}")
            continue
        if ln_in == "wf" and ln_out != "wf true true true":
            tag = classify(last_op, last_res, snap_at_op) if last_op else "[other]"
            return f"{tag} integrity lost after `{last_op}` -> `{last_res}`: {ln_out}"
    return None


def wrap_calls(lines):
    """`snap` before and `wf` after every editing call of the case (so that the first failure is attributed
    to exactly one call and its pre-state is known)"""
    out = []
    for ln in lines:
        if ln in ("snap", "wf"):
            continue
        if OP_RE.match(ln) or ln.split()[0] in ("rm", "ins", "add"):
            out += ["snap", ln, "wf"]
        else:
            out.append(ln)
    return out + ["snap"]


def valid_single(lines_iter, prefix):
    return [Case(f"{prefix}{n}", wrap_calls(l), oracle="c02",
                 meta={"sig": l[-3].split()[0].lstrip("f") + " " + l[-3].split()[1]})
            for n, l in lines_iter]


def exhaustive_wf3(nmax, rng, frac_last=1.0, mask=31):
    cases = []
    cid = 0
    for n in range(1, nmax + 1):
        for (b0, b1, b2, b3, u) in gens.wf_maps3(n, with_unused=(n <= 2)):
            if n == nmax and frac_last < 1.0 and rng.random() > frac_last:
                continue
            in_use = [d for d in range(1, n + 1) if not u[d]]
            load = gens.load_line(3, n, mask, [b0, b1, b2, b3], u)
            vals = gens.value_lines(rng, n, mask, dim=3, pv=rng.choice([1.0, 0.5]), pa=rng.choice([0.7, 0.3]))
            ops = gens.ops3_all(in_use, force=False, distinct=True) + gens.ops3_all(in_use, force=True, extra=False, distinct=True)
            # the property starts from well-formed *and mirrored* maps; the others are correspondence-only
            orc = "c02" if gens.mirror3(b1, b3) else None
            for op in ops:
                cid += 1
                cases.append(Case(f"w{n}-{cid}", [load] + vals + ["snap", op, "snap", "wf"], oracle=orc,
                                  meta={"sig": " ".join(op.split()[:2]).lstrip("f")}))
    return cases


def faces_family(rng, max_faces, frac, per_map, pre_ops, mask=31):
    return valid_single(gens.faces3_cases(rng, max_faces, 4, mask=mask, frac=frac, per_map=per_map, pre_ops=pre_ops,
                                          distinct=True, snap_before=True), f"f{max_faces}p{pre_ops}-")


def history_lines(rng, in_use, cur, length, alloc=True):
    """valid-argument history: `snap` before and `wf` after every call"""
    lines = []
    in_use = list(in_use)
    for _ in range(length):
        op = gens.random_op3(rng, in_use, alloc=alloc)
        t = op.split()
        lines += ["snap", op, "wf"]
        if t[0] == "rm":
            in_use = [d for d in in_use if d != int(t[1])]  # maybe removed: never used again
        elif t[0] == "add":
            in_use += list(range(cur, cur + int(t[1])))
            cur += int(t[1])
    return lines


def random_histories(count, rng, maxlen=30):
    cases = []
    shapes = gens.face_shapes(4)
    for k in range(count):
        n, rows, faces = gens.faces3_rows([rng.choice(shapes) for _ in range(rng.randint(2, 4))])
        mask = rng.choice([31, 15, 7, 0, 16, 2])
        lines = [gens.load_line(3, n, mask, rows, [0] * (n + 1))]
        lines += gens.value_lines(rng, n, mask, dim=3, pv=rng.choice([1.0, 0.8, 0.3]), pa=rng.choice([1.0, 0.5, 0.0]))
        lines += history_lines(rng, range(1, n + 1), n + 1, rng.randint(5, maxlen))
        lines += ["snap", "wf", "ndarts"]
        cases.append(Case(f"rh{k}", lines, oracle="c02", meta={"sig": "history"}))
    return cases


def polyhedra_histories(count, rng, maxlen=14):
    cases = []
    pairs = gens.cell_pairs()
    for k in range(count):
        name, pa, pb = rng.choice(pairs)
        if rng.random() < 0.5:
            pa, pb = pb, pa
        mask = rng.choice([31, 15, 0, 1, 4, 8])
        lines, a, b, pair = gens.two_cells_lines(rng, pa, pb, mask, values=rng.random() < 0.8, sew=rng.random() < 0.8,
                                                 force=rng.random() < 0.7, glue=rng.choice(["sew", "link"]),
                                                 pa=rng.choice([0.5, 1.0, 0.0]))
        # the gluing call itself is checked like every other call
        lines = lines[:-1] + ["snap", lines[-1], "wf"] if pair else lines + ["wf"]
        n = a.ndarts + b.ndarts
        darts = list(range(1, n + 1))
        for _ in range(rng.randint(0, maxlen)):
            r = rng.random()
            if r < 0.3:
                op = f"{rng.choice(['', 'f'])}{rng.choice(['sew', 'link'])} 3 {rng.choice(a.darts)} {rng.choice(b.darts)}"
            elif r < 0.5:
                op = f"{rng.choice(['', 'f'])}{rng.choice(['unsew', 'unlink'])} 3 {rng.choice(darts)}"
            else:
                op = gens.random_op3(rng, darts, alloc=False)
            lines += ["snap", op, "wf"]
        lines += ["snap", "wf"]
        cases.append(Case(f"ph{k}-{name}", lines, oracle="c02", meta={"sig": "polyhedra"}))
    return cases


def composed_tx(count, rng):
    """two faces built by 1-links out of free darts and glued by a 3-link / 3-sew (then possibly edited again) inside ONE
    transaction; the same calls run first one by one.  Layout: init, snap, ops…, snap, wf, init, snap, tx, ops…, endtx, snap, wf.
    Oracle: wf after both runs; the block is all-or-nothing; when every separate call answered ok the block answers ok and
    reaches the same state (before /repo f79acf8 three_sew walked the committed faces: D4)."""
    cases = []
    for k in range(count):
        a = rng.randint(1, 4)
        b = a if rng.random() < 0.8 else rng.randint(1, 4)
        ca = rng.random() < 0.75
        cb = ca if rng.random() < 0.85 else not ca
        n = a + b + rng.randint(0, 2)
        mask = rng.choice([31, 13, 5, 0, 1, 4])
        init = [f"new 3 {n} {mask}"] + gens.value_lines(rng, n, mask, dim=3, pv=rng.choice([1.0, 1.0, 0.6]),
                                                         pa=rng.choice([1.0, 0.5, 0.0]))
        left, right = list(range(1, a + 1)), list(range(a + 1, a + b + 1))
        links = [f"link 1 {x} {y}" for face, closed in ((left, ca), (right, cb))
                 for x, y in list(zip(face, face[1:])) + ([(face[-1], face[0])] if closed else [])]
        if rng.random() < 0.5:
            rng.shuffle(links)
        ld, rd = rng.choice(left), rng.choice(right)
        if ca and cb and a == b and a >= 2 and rng.random() < 0.8:
            # coordinates of a geometrically consistent gluing: the k-th dart of the right walk sits on the head of the
            # k-th dart of the left walk (so the orientation test of three_sew passes and the merges are of equal points)
            i0, j0 = left.index(ld), right.index(rd)
            pts = [f"{gens.dy(rng)} {gens.dy(rng)} {k}" for k in range(a)]
            init = [x for x in init if not x.startswith("wv ")]
            init += [f"wv {left[(i0 + k) % a]} {pts[k]}" for k in range(a)]
            init += [f"wv {right[(j0 - k) % a]} {pts[(k + 1) % a]}" for k in range(a)]
        ops = links + [f"{rng.choice(['sew', 'sew', 'link'])} 3 {ld} {rd}"]
        darts = list(range(1, n + 1))
        for _ in range(rng.choice([0, 0, 1, 2, 3])):
            x, y = rng.choice(darts), rng.choice(darts)
            ops.append(rng.choice([f"unsew 3 {x}", f"unlink 3 {x}", f"unlink 1 {x}", f"unsew 1 {x}", f"link 1 {x} {y}",
                                   f"sew 1 {x} {y}", f"sew 3 {rng.choice(left)} {rng.choice(right)}"]
                                  + ([f"sew 2 {x} {y}", f"link 2 {x} {y}"] if x != y else [])))
        lines = init + ["snap"] + ops + ["snap", "wf"] + init + ["snap", "tx"] + ops + ["endtx", "snap", "wf"]
        cases.append(Case(f"tx{k}", lines, oracle="c02tx", meta={"sig": "composed-tx", "k": len(ops), "ninit": len(init)}))
    return cases


def oracle_tx(case, li):
    if any(x.startswith("<missing") for x in li):
        return "[other] driver died"
    k, ni = case.meta["k"], case.meta["ninit"]
    # indices: init[0:ni], snap ni, ops ni+1..ni+k, snap ni+k+1, wf ni+k+2, init, snap 2ni+k+3, tx, ops, endtx, snap, wf
    s0, seq, s1, wf1 = li[ni], li[ni + 1:ni + 1 + k], li[ni + k + 1], li[ni + k + 2]
    base = 2 * ni + k + 3
    t0, endtx, t1, wf2 = li[base], li[base + k + 2], li[base + k + 3], li[base + k + 4]
    if wf1 != "wf true true true":
        return f"[other] integrity lost by the separate calls {case.lines[ni + 1:ni + 1 + k]} -> {seq}: {wf1}"
    if wf2 != "wf true true true":
        return f"[other] integrity lost by the transaction block {case.lines[ni + 1:ni + 1 + k]} -> {endtx}: {wf2}"
    if s0 != t0:
        return "[other] the two initial states differ (generator bug)"
    if endtx.startswith("tx ok"):
        if not all(x.startswith("ok") for x in seq):
            return f"[other] the block committed although a separate call failed: {seq} vs {endtx}"
        if s1 != t1:
            return f"[other] block and sequence of the same successful calls reach different states: {s1} vs {t1}"
    else:
        if all(x.startswith("ok") for x in seq):
            return f"[other] every separate call succeeded but the block answered {endtx}"
        if t1 != t0:
            return f"[other] a failed block changed the map: {t0} vs {t1}"
    return None


def malformed(count, rng, mask=15):
    """null / removed / out-of-range / equal arguments: correspondence only"""
    cases = []
    shapes = gens.face_shapes(4)
    for k in range(count):
        n, rows, faces = gens.faces3_rows([rng.choice(shapes) for _ in range(rng.randint(1, 3))])
        lines = [gens.load_line(3, n, mask, rows, [0] * (n + 1))] + gens.value_lines(rng, n, mask, dim=3)
        for _ in range(rng.randint(1, 8)):
            l, r = rng.randint(0, n + 1), rng.randint(0, n + 1)
            i = rng.randint(1, 3)
            lines.append(rng.choice([
                f"link {i} {l} {r}", f"sew {i} {l} {r}", f"flink {i} {l} {l}", f"fsew {i} {l} {r}", f"unlink {i} {l}",
                f"unsew {i} {l}", f"funlink {i} {l}", f"funsew {i} {l}", f"rm {l}", f"rmtx {l}", f"link 4 {l} {r}",
                f"vid {l}", f"fid {l}", f"volid {l}", f"orbit v {l}", f"orbit c4 {l}", f"rv {l}", f"ra 4 {l}", "iterf"]))
        lines += ["snap", "wf"]
        cases.append(Case(f"mal{k}", lines, oracle=None, meta={"sig": "malformed"}))
    return cases


def swallow_blocks(count, rng):
    """`txi … endtx` (3-D): a user transaction that swallows the refusals of its calls and commits; well-formedness and the
    mirror condition must survive (a refused call must not have written anything that breaks them)"""
    cases = []
    fam = list(gens.faces3_maps(2, 4))
    for k in range(count):
        n, rows, _ = rng.choice(fam)
        darts = list(range(1, n + 1))
        mask = rng.choice([0, 1, 31])
        lines = [gens.load_line(3, n, mask, rows, [0] * (n + 1))] + gens.value_lines(rng, n, mask, dim=3, pv=0.9, pa=0.5)
        for _ in range(rng.choice([0, 1, 2])):
            lines.append(gens.random_op3(rng, darts, alloc=False, weights=[4, 2, 0, 0], force_p=1.0))
        lines += ["wf", "txi"]
        for _ in range(rng.randint(2, 5)):
            lines.append(gens.random_op3(rng, darts, force_p=0.0, alloc=False))
        lines += ["endtx", "snap", "wf"]
        cases.append(Case(f"txi{k}", lines, oracle="c02", meta={"sig": "swallowed-aborts"}))
    return cases


def run(tier, seed):
    rng = random.Random(seed)
    parts = []
    # NOT part of the check: `swallow_blocks` (a transaction that swallows the refusal of a 3-D call and commits).  C02, unlike
    # C01, does not speak of failing calls, and the 3-D walks refuse AFTER partial writes (three_link links pair by pair and
    # aborts when the faces turn out not to mirror each other; one_link links, then mirrors): with the Abort swallowed the partial
    # links are published and the mirror condition is lost (`txi; sew 3 1 2` on a 1-gon and a free dart).  Recorded as an
    # observation in DESIGN.md §13.4; the generator is kept for experiments.
    if tier == "quick":
        r1 = hv.campaign(exhaustive_wf3(3, rng, frac_last=0.15), oracle)
        r1["stats"]["exhaustive"] = True
        parts.append(("exhaustive WF 3-maps n<=2 (+15% sample of n=3)", r1))
        r2 = hv.campaign(faces_family(rng, 2, 1.0, None, 0), oracle)
        r2["stats"]["exhaustive"] = True
        parts.append(("glued faces <=2 faces x every call", r2))
        parts.append(("glued faces <=2 faces after 3 random calls (sample)", hv.campaign(faces_family(rng, 2, 1.0, 60, 3), oracle)))
        parts.append(("glued faces 3 faces (sample)", hv.campaign(faces_family(rng, 3, 0.1, 30, 2, mask=15), oracle)))
        parts.append(("random histories", hv.campaign(random_histories(1500, rng), oracle)))
        parts.append(("polyhedra histories", hv.campaign(polyhedra_histories(600, rng), oracle)))
        parts.append(("composed transactions (faces built and 3-sewn in one block)", hv.campaign(composed_tx(1500, rng), oracle)))
        parts.append(("malformed", hv.campaign(malformed(1500, rng), None, advisory=True)))
    else:
        r1 = hv.campaign(exhaustive_wf3(3, rng), oracle)
        r1["stats"]["exhaustive"] = True
        parts.append(("exhaustive WF 3-maps n<=3", r1))
        r2 = hv.campaign(faces_family(rng, 2, 1.0, None, 0), oracle)
        r2["stats"]["exhaustive"] = True
        parts.append(("glued faces <=2 faces x every call", r2))
        for pre in (2, 4):
            parts.append((f"glued faces <=2 faces after {pre} random calls (sample)",
                          hv.campaign(faces_family(rng, 2, 1.0, 300, pre), oracle)))
        parts.append(("glued faces 3 faces (sample)", hv.campaign(faces_family(rng, 3, 0.5, 80, 3, mask=15), oracle)))
        parts.append(("random histories", hv.campaign(random_histories(15000, rng, maxlen=50), oracle)))
        parts.append(("polyhedra histories", hv.campaign(polyhedra_histories(5000, rng, maxlen=25), oracle)))
        parts.append(("composed transactions (faces built and 3-sewn in one block)", hv.campaign(composed_tx(15000, rng), oracle)))
        parts.append(("malformed", hv.campaign(malformed(15000, rng), None, advisory=True)))
    return hv.merge_results(parts)


def matches(known, v):
    """a known finding with matcher kind `three-link-closed-left` (D1) / `three-link-open-right-longer`
    absorbs oracle failures (never model/implementation disagreements) carrying the matching tag; any other
    failure stays a violation"""
    if v.get("kind") != "oracle":
        return False
    tag = {"three-link-closed-left": "[D1-closed-left]",
           "three-link-open-right-longer": "[D1b-open-right-longer]"}.get((known.get("matcher") or {}).get("kind"))
    fail = (v.get("replay") or {}).get("oracle_failure") or ""
    return tag is not None and fail.startswith(tag)
