"""C15 — remeshing primitives (swap / cut / collapse) keep a triangle mesh a triangle mesh."""
import random
from fractions import Fraction as Fr

import hv
import kern2
import remesh
from hv import Case
from kern2 import fr_tok
from remesh import Mesh

SPEC = {
    "lean_modules": ["Honeycomb.Props.C15", "Honeycomb.Props.C15b", "Honeycomb.Props.C15c", "Honeycomb.Props.C15d", "Honeycomb.Props.C15Gen", "Honeycomb.Props.C15GenB", "Honeycomb.Props.C15GenC"],
    "gen": ["anchors", "remesh", "collapse"],
    "required_theorems": [
        # Props/C15Gen.lean: the translated swap_edge / cut_outer_edge / cut_inner_edge and the sew::<I> dispatch ARE the model's
        "C15_gen_sew_dispatch", "C15_gen_swapEdge", "C15_gen_cutOuterEdge", "C15_gen_cutInnerEdge", "C15_gen_swap_preserves_WF", "C15_gen_swap_guards",
        "C15_gen_cutOuter_preserves_WF", "C15_gen_cutInner_preserves_WF",
        # Props/C15GenB.lean: the guard and the half-cell helpers of collapse.rs
        "C15_gen_collapse_halfMid", "C15_gen_collapse_halfBase", "C15_gen_collapse_edgeToMidpoint", "C15_gen_collapse_choice", "C15_gen_collapse_isCollapsible", "C15_gen_collapse_choice_total",
        # the rest of collapse.rs and the orientation post-check of utils/routines.rs: the WHOLE collapse_edge on translated code
        "C15_gen_collapse_edgeToBase", "C15_gen_collapse_edge", "C15_gen_collapse_orient", "C15_gen_collapse_edge_full", "C15_gen_collapse_no_flat_triangle",
        
        "C15_swap_preserves_WF", "C15_cutOuter_preserves_WF", "C15_cutInner_preserves_WF", "C15_collapse_preserves_WF",
        "C15_collapseA_refines", "C15_error_leaves_map_unchanged", "C15_swap_guards", "C15_collapse_guards",
        "C15_collapse_choice_total", "C15_collapse_choice_error", "C15_collapse_choice_target",
        "C15_vanchor_merge_comm", "C15_vanchor_merge_idem", "C15_vanchor_merge_assoc", "C15_vanchor_merge_lower_dim",
        "C15_vanchor_merge_fails_iff", "C15_eanchor_merge_comm", "C15_eanchor_merge_assoc", "C15_fanchor_merge_comm",
        "C15_fanchor_merge_assoc", "C15_anchor_conversions", "C15_cut_midpoint", "C15_cut_area_conserved",
        "C15_cut_area_conserved_inner", "C15_swap_area_partial",
        # one proved negation per listed finding (DESIGN §6.3)
        "C15_D9_witness", "C15_D15a_witness", "C15_D15d_witness", "C15_D15e_witness",
        # former finding D15g (fixed in /repo 94962f9): the strict orientation post-check, and the old witness as a regression
        "C15_orientation_check_strict", "C15_collapse_passed_check", "C15_collapse_no_flat_triangle", "C15_D15g_regression",
        # former findings D15b / D15c (fixed in /repo 27a7433 / aac3ec9): positive theorems
        "C15_cutOuter_second_half_anchored", "C15_cut_midpoint_under_vertex_id", "C15_cutOuter_unit_square_all_orders",
        "C15_cutInner_unit_square_orders",
        # Props/C15b.lean: the core clause at beta level on arbitrary WF maps, cells, collapse side conditions
        "C15_swap_topology", "C15_swap_faces_are_triangles", "C15_cutOuter_topology", "C15_cutInner_topology",
        "C15_cutOuter_cells", "C15_cut_midpoint_in_final_map", "C15_collapse_midpoint_interior",
        # Props/C15c.lean: counts through the iterators, vertex cells after cut / swap, distinctness of the six darts
        "C15_six_distinct", "C15_swap_counts", "C15_swap_face_count", "C15_swap_edge_count", "C15_swap_cells",
        "C15_cutOuter_face_count", "C15_cutOuter_edge_count", "C15_cutOuter_vertex_count", "C15_cutOuter_vertices",
        "C15_cutInner_face_count", "C15_cutInner_vertex_count", "C15_cutInner_faces", "C15_cutInner_vertices",
        "C15_cutInner_cells", "C15_collapse_midpoint_face_count",
        # values at dart level (Lemmas/RemeshValues.lean): D9 as a theorem, the midpoint of an inner cut in the final map;
        # the anchor-driven (end point) collapse on interior configurations
        "C15_swap_moves_corners", "C15_cutInner_midpoint_in_final_map", "C15_collapse_endpoint_interior",
        "C15_cutInner_edge_count", "C15_collapse_midpoint_edge_count", "C15_collapse_endpoint_interior_right",
        # Props/C15d.lean: anchors after the cuts, for every subset of the anchor storages
        "C15_cutOuter_edge_face_anchors", "C15_cutOuter_vertex_anchors", "C15_cutOuter_other_storages",
        "C15_cutInner_face_anchors", "C15_cutInner_edge_anchors", "C15_cutInner_other_storages",
        "C15_collapse_other_storages", "C15_collapse_midpoint_face_anchors", "C15_collapse_endpoint_target",
        "C15_collapse_midpoint_vertex_count", "C15_cutOuter_anchors", "C15_cutInner_anchors",
        "C15_cutInner_vertex_anchor_storage_refused",
    ],
    "trusted_base": [
        "Lean 4.33 kernel; axioms propext, Classical.choice, Quot.sound only",
        "hand-written model Honeycomb/Model/Kernels/{Swap,Cut,Collapse,Geom2}.lean (+ Stm, Map, Ops, Ops2) tied to /repo by the "
        "hcmodel/hcimpl correspondence run of this check; the anchor laws are GENERATED from utils/anchors.rs by tools/gen_lean.py "
        "(Honeycomb/Gen/Anchors.lean, regenerated on every run)",
        "Rust harness /verif/harness/hcimpl (k3.rs: swap / cutin / cutout / collapse / anchor accessors on CMap2<f64>; StmError::Retry is "
        "reported as `retry` instead of waited for) and tools/{hv,kern2,remesh}.py; the oracle (tools/remesh.py) re-derives the specified "
        "result from the `snap` before the call with exact Fractions, independently of the model",
        "coordinates are dyadic rationals with few bits (histories stop before 2^-18), on which f64 arithmetic is exact; the model "
        "reproduces f64's signed zero in signum, rounding is not modelled",
    ],
    "assumptions": [
        "guard of the oracle: the map before the call is a well-formed, fully embedded triangle mesh (every linked in-use dart in a closed "
        "beta1 triangle, coordinates at every vertex id), with ANY subset of the three anchor storages and ANY subset of the cells "
        "anchored (fully, partially or not at all: an undefined anchor is a value the clauses compare like any other, merged by the "
        "attribute law: undefined + defined = defined), no anchor stored under an identifier that is not a cell of the mesh (D15a "
        "leaves such garbage; it would resurface when a cell takes that identifier); a collapse additionally needs the three anchors it reads (both end points and "
        "the edge) when the VertexAnchor storage exists — without them the kernel retries; the edge exists and is of the "
        "right kind (interior for swap / cut_inner, boundary for cut_outer), spare darts are distinct free in-use darts; the collapse "
        "clauses additionally need the link condition of the statement (no common neighbour besides the opposite corners)",
        "theorems (a) take the named darts of the kernel in range / non-null where the Rust code indexes with them (hypotheses listed in "
        "Props/C15.lean); single-threaded execution",
        "`retry` outcomes (the kernel meets an undefined vertex / anchor, or collapse_edge computes NULL_VERTEX_ID as the new vertex) are "
        "not successes: only `map unchanged` is required of them; they are counted in the evidence notes",
        "OUTSIDE THE STATEMENT, observed on every run (the statement only constrains successful calls): (1) cut_inner_edge can never "
        "succeed on a map whose VertexAnchor storage is registered — its first 1-sew (ld, nd1) merges the vertex attributes of the two "
        "brand-new vertices {nd4,nd6} and {nd1,nd3}, both without anchor, i.e. VertexAnchor::merge_from_none = Err(InsufficientData) "
        "(`grid 2 1 224 ncl 0 0 1 1 1 1` + anchors / `add 6` / `cutin 2 7 8 9 10 11 12` -> err InsufficientData, map unchanged) "
        "— a THEOREM of the model on arbitrary well-formed maps: C15_cutInner_vertex_anchor_storage_refused; "
        "(2) collapse_edge on a boundary edge of a corner triangle (beta2(b0l) = null and no right side) computes NULL_VERTEX_ID as the "
        "new vertex and then calls is_orbit_orientation_consistent(NULL), which reads the undefined vertex 0 and returns "
        "StmError::Retry: inside atomically_with_err the call waits forever (`grid 2 1 224 ncl 0 0 2 1 1 1` + anchors / `collapse 1` "
        "-> retry); the same Retry is returned whenever collapse_edge is given the non-canonical dart of an anchored edge (the "
        "EdgeAnchor is read at the dart passed, not at the edge identifier)",
    ],
    "notes": [
        "cut_inner_edge + registered VertexAnchor => always Err(InsufficientData) (merge_from_none on the two new vertices)",
        "collapse_edge on corner triangles => NULL_VERTEX_ID => is_orbit_orientation_consistent(NULL) => Retry forever",
    ],
    "rule": "split grids 1x1..3x3 (thorough 4x4) from `grid 2 1 <mask> ncl`, vertices perturbed by multiples of 1/16 (all triangles stay "
            "positively oriented), with and without anchors (corners = nodes, boundary = curves, interior = surfaces; faces one or several "
            "surfaces), PARTIALLY anchored (only some of the storages 6/7/8: masks 32, 64, 96, 128, 160, 192; or all three with face "
            "anchors / interior edge anchors / random edge and face anchors / a few vertex anchors left undefined) and optionally VTerm; stream 1: EVERY dart of every mesh as edge argument (both orientations of interior edges, boundary, "
            "next to the boundary) x swap / cut_inner|cut_outer (spare darts from `add`, natural and permuted) / collapse; stream 2: histories "
            "(<= 30 calls) of the same operations on random edges, generated adaptively from the implementation's own snapshots (the driver "
            "re-anchors faces left without anchor by finding D15a and clears the anchors that finding leaves under identifiers that are "
            "no longer cells, so that histories stay inside the guard); stream 3 (correspondence + "
            "error => unchanged only): null / removed / free / out-of-range edges, wrong cut kind, null / repeated / linked / removed spare darts, "
            "undefined vertices, missing or partial anchors; stream 4: kernels inside tx blocks. Oracle on the implementation per call, from the "
            "snapshots before/after: ok => all faces triangles, wf, triangle set (as cyclic coordinate triples) = specified set, V/E/F deltas, "
            "surviving darts keep origin coordinates / vertex, edge, face anchors (merged cells: lawful merge), swap & cut: signed area of the "
            "region conserved, cut: new vertex at the midpoint, collapse: target = midpoint / end point as dictated by the anchors, 3 darts per "
            "removed triangle flagged and nothing left outside the mesh unflagged, one orientation around the new vertex; err / retry => map "
            "unchanged. distinct_nontrivial = distinct implementation transcripts.",
    "not_proved": [
        "global V/E/F counts on arbitrary meshes: THEOREMS through the iterators for swap (0/0/0: C15_swap_counts), cut_outer_edge "
        "(C15_cutOuter_{vertex,edge,face}_count), cut_inner_edge (C15_cutInner_{vertex,edge,face}_count) and edges / faces of the interior "
        "midpoint collapse (C15_collapse_midpoint_{edge,face}_count); the vertex count of the interior midpoint collapse (-1) is a theorem "
        "under the hypothesis `no vertex is split by the call` (C15_collapse_midpoint_vertex_count; without it the clause is false: "
        "D15f); NOT proved: every count of the end-point collapse and of boundary configurations: oracle only",
        "`all triangles around the resulting vertex have the same orientation`: the post-check is modelled, compared, and proved STRICT "
        "(C15_collapse_no_flat_triangle: every triangle of the orbit the kernel walks has a non-zero cross product of one sign, "
        "former D15g); that the orbit walked is the whole fan fails on pinched results (D15f): oracle",
        "swap: coordinates/area — FALSE today (D9): C15_D9_witness is the negation on unit_triangles(1), C15_swap_moves_corners the "
        "general statement (arbitrary WF map with four different corner vertices holding points: the end points keep their values, "
        "the opposite corners become (C+A)/2 or ((C+A)/2+C)/2); C15_swap_area_partial states what does hold; the TOPOLOGY of the swap "
        "is a theorem on arbitrary WF maps (C15_swap_topology, vertices: C15_swap_cells)",
        "collapse, well-formedness: UNCONDITIONAL for collapse_edge itself on interior configurations, in the midpoint variant "
        "(C15_collapse_midpoint_interior) and in the end-point variants `Left` / `Right` (C15_collapse_endpoint_interior, "
        "C15_collapse_endpoint_interior_right: six flagged darts free, the kept darts re-glued in place of the neighbours' darts, "
        "frame); for boundary configurations only C15_collapse_preserves_WF (asserted kernel, hypothesis `newly flagged darts are free`) + oracle `wf`",
        "collapse: target position — FALSE today for boundary end points (D15d, C15_D15d_witness); triangle-mesh result — FALSE today for "
        "corner triangles collapsed towards an end point (D15e, C15_D15e_witness); one vertex left — FALSE for interior edges between two "
        "boundary vertices (D15f, replayed by the check, no `decide` witness); a flat triangle at the resulting vertex used to be "
        "accepted (former D15g, fixed in /repo 94962f9): now a theorem (C15_collapse_no_flat_triangle); the old witness is refused "
        "(C15_D15g_regression, and the regression case `fixed-d15g-flat` of the check)",
        "anchors after the CUTS: THEOREMS for every subset of the anchor storages (Props/C15d.lean): every slot of the EdgeAnchor / "
        "FaceAnchor storages after cut_outer_edge (C15_cutOuter_edge_face_anchors) and cut_inner_edge (C15_cutInner_face_anchors, "
        "C15_cutInner_edge_anchors), vertex anchors kept and the new vertex anchored after cut_outer_edge "
        "(C15_cutOuter_vertex_anchors), absent storages untouched (C15_cut{Outer,Inner}_other_storages); the same in words, with the identifiers of the resulting "
        "map: C15_cutOuter_anchors, C15_cutInner_anchors; no vertex-anchor statement "
        "for cut_inner_edge: with a VertexAnchor storage it never succeeds (C15_cutInner_vertex_anchor_storage_refused: interior edge "
        "between different vertices, spare darts without vertex anchor). Anchors after COLLAPSE: the kernel never writes the "
        "FaceAnchor storage (C15_collapse_other_storages, every map and variant); in the midpoint variant on interior configurations "
        "every surviving face keeps identifier and anchor (C15_collapse_midpoint_face_anchors); in the end-point variants the "
        "returned vertex holds position and vertex anchor of the chosen end point (C15_collapse_endpoint_target, every map). NOT "
        "proved: edge anchors after a collapse (lawful merge of the glued sides) and vertex anchors of the other vertices: oracle; "
        "face anchors after an end-point collapse are FALSE today in the case D15a (witness by `decide`)",
        "cut: the midpoint at the new vertex's identifier in the FINAL map is a theorem on arbitrary WF maps, any spare numbering, for "
        "cut_outer_edge (C15_cut_midpoint_in_final_map; former D15c, /repo aac3ec9) and for cut_inner_edge "
        "(C15_cutInner_midpoint_in_final_map: end points different vertices, spare darts without vertex value, Vertex2 law)",
        "the beta-level theorems assume the darts around the edge pairwise distinct (C15_six_distinct derives the six of the two "
        "triangles from `not loops, different faces`; spare darts / neighbours' darts distinct from them is assumed) and closed faces; "
        "the cuts additionally that the face IS a triangle (the cut kernels do not test it)",
    ],
}

OPS = ("swap", "cutin", "cutout", "collapse")
MAXBITS = 18
NOTES = {}


# ---------------------------------------------------------------------------------------------
# meshes
# ---------------------------------------------------------------------------------------------

_GRID = {}


def grid_mesh(nx, ny):
    """the split grid as the implementation builds it (topology only is used)"""
    if (nx, ny) not in _GRID:
        rc, out = hv.run_bin(hv.HCIMPL, f"grid 2 1 0 ncl 0 0 {nx} {ny} 1 1\nsnap\n")
        _GRID[(nx, ny)] = Mesh(out[1])
    return _GRID[(nx, ny)]


def sides_of(p, nx, ny):
    s = []
    if p[1] == 0:
        s.append(0)
    if p[0] == nx:
        s.append(1)
    if p[1] == ny:
        s.append(2)
    if p[0] == 0:
        s.append(3)
    return s


def part_of(anchors):
    """the partial-anchoring rule of a configuration (`("part", rule)`), or None"""
    return anchors[1] if isinstance(anchors, tuple) else None


def setup(nx, ny, mask, rng, anchors, surfaces=1, amp=3):
    """lines building a perturbed, (optionally) anchored split grid.  `anchors`: False / True (every cell of every registered
    kind) / "random" / ("part", rule): PARTIALLY anchored — only the storages of `mask` exist (written through `wanchort`, the
    top-level `wanchor` needs all three) and `rule` leaves anchors undefined on purpose: "all" (nothing dropped), "faces" (no
    face anchor), "faces-some", "inner-edges" (edge anchors on the boundary only), "random" (edges and faces at random),
    "vertices-some" (a few vertices too: most calls then fail with InsufficientData, error => unchanged)"""
    g = grid_mesh(nx, ny)
    lines = [f"grid 2 1 {mask} ncl 0 0 {nx} {ny} 1 1"]
    vids = sorted({g.vid(d) for d in g.linked})
    for _ in range(50):
        pos = {}
        for v in vids:
            p = g.a0[v]
            s = sides_of(p, nx, ny)
            dx = Fr(rng.randint(-amp, amp), 16) if not (anchors and set(s) & {1, 3}) else 0
            dy = Fr(rng.randint(-amp, amp), 16) if not (anchors and set(s) & {0, 2}) else 0
            pos[v] = (p[0] + dx, p[1] + dy)
        if all(kern2.cross3(*[pos[g.vid(x)] for x in g.face(d)]) > 0 for d in g.linked):
            break
    else:
        pos = {v: g.a0[v] for v in vids}
    for v in vids:
        if pos[v] != g.a0[v]:
            lines.append(f"wv {v} {fr_tok(pos[v][0])} {fr_tok(pos[v][1])}")
    if anchors:
        rule = part_of(anchors)
        w = "wanchor" if mask & 224 == 224 else "wanchort"
        has_v, has_e, has_f = bool(mask & 32), bool(mask & 64), bool(mask & 128)
        somef = rng.random()
        for v in vids:
            if not has_v or (rule == "vertices-some" and rng.random() < 0.25):
                continue
            s = sides_of(g.a0[v], nx, ny)
            a = f"N{v}" if len(s) == 2 else (f"C{s[0]}" if len(s) == 1 else "S0")
            if anchors == "random" and s:
                # any classification is a legal input of the kernels: nodes and curves anywhere on the boundary
                a = rng.choice([f"N{v}", f"C{s[0]}", f"C{s[-1]}", "C9"])
            elif anchors == "random" and rng.random() < 0.15:
                a = "C9"
            lines.append(f"{w} v {v} {a}")
        for e in sorted({g.eid(d) for d in g.linked}):
            if not has_e or (rule == "inner-edges" and g.b[2][e]) or (rule == "random" and rng.random() < 0.3):
                continue
            s = set(sides_of(g.org(e), nx, ny)) & set(sides_of(g.org(g.b[1][e]), nx, ny))
            a = f"C{min(s)}" if (s and g.b[2][e] == 0) else "S0"
            lines.append(f"{w} e {e} {a}")
        for k, f in enumerate(sorted({g.fid(d) for d in g.linked})):
            if not has_f or rule == "faces" or (rule == "faces-some" and (k % 2 == 0) == (somef < 0.5)) \
                    or (rule == "random" and rng.random() < 0.4):
                continue
            lines.append(f"{w} f {f} S{k % surfaces}")
    if mask & 1:
        for v in vids:
            lines.append(f"wa 1 {v} {100 + v}")
    return lines, g


def cut_lines(m, e, rng, shuffle=False):
    """`add k` + the cut of the right kind for edge e, spare darts = the new ids"""
    k = 6 if m.b[2][e] else 3
    nds = list(range(m.n, m.n + k))
    if shuffle:
        rng.shuffle(nds)
    return [f"add {k}", ("cutin" if k == 6 else "cutout") + f" {e} " + " ".join(map(str, nds))]


# ---------------------------------------------------------------------------------------------
# oracle: walk the transcript, judge every kernel call
# ---------------------------------------------------------------------------------------------

def windows(lines, li):
    """yields (index, op, before, res, after, wfline) for every kernel call followed by `snap`, `wf`"""
    cur = None
    for i, ln in enumerate(lines):
        if i >= len(li):
            return
        t = ln.split()
        if t[0] == "snap" and li[i].startswith("snap "):
            cur = li[i]
        elif t[0] == "add" and cur is not None and li[i].startswith("ok "):
            cur = remesh.extend_snap(cur, int(t[1]))
        elif t[0] in OPS:
            op = remesh.parse_op(ln)
            if op is None or cur is None or i + 2 >= len(li) or lines[i + 1] != "snap" or lines[i + 2] != "wf":
                cur = None
                continue
            if not li[i + 1].startswith("snap "):
                return
            yield i, op, Mesh(cur), li[i], Mesh(li[i + 1]), li[i + 2]
        elif t[0] not in ("wf", "snap", "ndarts", "iterv", "itere", "iterf", "ranchor", "vid", "eid", "fid"):
            cur = None      # anything that may change the map invalidates the last snapshot


def analyse(lines, li):
    """[(index, op, items, signatures)] over the failing calls"""
    out = []
    for i, op, before, res, after, wfline in windows(lines, li):
        items = remesh.judge(before, res, after, wfline, op)
        if items:
            out.append((i, op, items, remesh.window_signatures(before, res, after, op, items, wfline)))
    return out


def oracle_c15(case, li):
    if any(x.startswith("<missing") for x in li):
        return "driver died"
    if case.oracle == "unchanged":
        # outside the guard: only `a failed call leaves the map unchanged`
        for i, op, before, res, after, wfline in windows(case.lines, li):
            if not (res == "ok" or res.startswith("ok ")) and before.raw != after.raw:
                return f"line {i} {case.lines[i]!r}: {res!r} but the map changed"
        return None
    if case.oracle != "c15":
        return None
    exp = (case.meta or {}).get("expect")
    if exp and (exp[0] >= len(li) or li[exp[0]] != exp[1]):
        return f"line {exp[0]} {case.lines[exp[0]]!r}: expected {exp[1]!r}, got {li[exp[0]] if exp[0] < len(li) else None!r}"
    for i, op, before, res, after, wfline in windows(case.lines, li):
        k = (op["kind"], "retry" if res == "retry" else "other")
        if res == "retry" and remesh.in_guard(before, op):
            NOTES[k] = NOTES.get(k, 0) + 1
    bad = analyse(case.lines, li)
    if not bad:
        return None
    parts = []
    for i, op, items, sigs in bad[:4]:
        seen, txt = set(), []
        for t, dsc in items:
            if (t, dsc) not in seen and len(txt) < 5:
                seen.add((t, dsc))
                txt.append(f"{t}: {dsc}")
        parts.append(f"line {i} {case.lines[i]!r} [{','.join(sorted(sigs))}] " + "; ".join(txt))
    return " || ".join(parts)


# ---------------------------------------------------------------------------------------------
# stream 1: every edge of every mesh
# ---------------------------------------------------------------------------------------------

def configs(tier):
    sizes = [(1, 1), (2, 1), (1, 2), (2, 2), (3, 2), (3, 3)] + ([(4, 3), (4, 4)] if tier == "thorough" else [])
    out = []
    for (nx, ny) in sizes:
        for (mask, anchors, surfaces) in ((0, False, 1), (224, True, 1), (224, True, 3), (1, False, 1), (225, True, 1)):
            out.append((nx, ny, mask, anchors, surfaces))
    return out


PARTIAL = ((96, "all"), (32, "all"), (64, "all"), (128, "all"), (160, "all"), (192, "all"), (224, "faces"), (224, "faces-some"),
           (224, "inner-edges"), (224, "random"), (96, "inner-edges"), (224, "vertices-some"))


def partial_configs(tier):
    """PARTIALLY anchored meshes (in scope: `with and without anchor attributes`): some of the storages 6/7/8 only, or all
    three with anchors left undefined on purpose"""
    sizes = [(1, 1), (2, 1), (2, 2)] + ([(3, 2), (3, 3)] if tier == "thorough" else [])
    return [(nx, ny, mask, ("part", rule), 1 + (nx + len(rule)) % 2) for (nx, ny) in sizes for (mask, rule) in PARTIAL]


def mesh_of(lines):
    """the implementation's snapshot after `lines` (used to generate calls on meshes that are not plain grids)"""
    _rc, out = hv.run_bin(hv.HCIMPL, "\n".join(lines + ["snap"]) + "\n")
    k = len(lines)
    return Mesh(out[k]) if k < len(out) and out[k].startswith("snap ") else None


def refined(pre, g, rng, anchors, ncuts):
    """the mesh after `ncuts` successful random cuts (re-anchored if a listed finding leaves a cell bare; cuts no longer do since /repo 27a7433)"""
    full = anchors and not part_of(anchors)
    for _ in range(ncuts):
        e = rng.choice(sorted({g.eid(d) for d in g.linked}))
        if g.anch["a6"] and g.b[2][e]:
            continue        # cut_inner_edge never succeeds once VertexAnchor is registered
        cand = pre + cut_lines(g, e, rng)
        m = mesh_of(cand)
        if m is None or not m.is_triangle_mesh() or not m.embedded():
            continue
        rep = repair_lines(m) if full else []
        if rep:
            cand = cand + rep
            m = mesh_of(cand)
        if m is not None and m.is_triangle_mesh() and m.embedded() and (m.fully_anchored() or not full):
            pre, g = cand, m
    return pre, g


def every_edge(tier, rng):
    cases = []
    reps = 1 if tier == "quick" else 4
    variants = []
    for (nx, ny, mask, anchors, surfaces) in configs(tier):
        for rep in range(reps):
            variants.append((nx, ny, mask, anchors, surfaces, rep, 0))
            if nx * ny <= 6:
                variants.append((nx, ny, mask, anchors, surfaces, rep, 1 + rep % 2))
            if anchors and nx * ny <= 6:
                variants.append((nx, ny, mask, "random", surfaces, rep, 0))
    for (nx, ny, mask, anchors, surfaces) in partial_configs(tier):
        for rep in range(reps):
            variants.append((nx, ny, mask, anchors, surfaces, rep, 0))
            if nx * ny <= 2:
                variants.append((nx, ny, mask, anchors, surfaces, rep, 1))
    for (nx, ny, mask, anchors, surfaces, rep, ncuts) in variants:
        if True:
            pre, g = setup(nx, ny, mask, rng, anchors, surfaces)
            if ncuts:
                pre, g = refined(pre, g, rng, anchors, ncuts)
            rep = f"{rep}c{ncuts}{'r' if anchors == 'random' else ''}{('p-' + part_of(anchors)) if part_of(anchors) else ''}"
            for e in g.linked:
                canonical = g.eid(e) == e
                inner = g.b[2][e] != 0
                ops = [[f"swap {e}"], [f"collapse {e}"], cut_lines(g, e, rng), cut_lines(g, e, rng, shuffle=True)]
                for o in ops:
                    sig = f"{o[-1].split()[0]}-{'inner' if inner else 'boundary'}-" \
                          f"{('part-' + part_of(anchors)) if part_of(anchors) else ('anch' if anchors else 'plain')}"
                    # with anchors, the kernels read the EdgeAnchor at the identifier they are given: a non-canonical dart is
                    # outside the guard (`e: EdgeIdType`), kept for the correspondence and the generic clauses
                    lines = pre + o[:-1] + ["snap", o[-1], "snap", "wf"]
                    cases.append(Case(f"e{nx}x{ny}m{mask}s{surfaces}r{rep}-{e}-{o[-1].split()[0]}{len(cases)}", lines,
                                      oracle="c15" if (canonical or not anchors or not mask & 64) else "unchanged",
                                      meta={"sig": sig}))
    return cases


# ---------------------------------------------------------------------------------------------
# stream 2: histories, generated adaptively from the implementation's snapshots
# ---------------------------------------------------------------------------------------------

def repair_lines(m):
    """re-anchor the cells that have no anchor (faces after D15a), so that the history stays in the guard"""
    out = []
    if not any(m.anch.values()):
        return out
    seen = set()
    for d in m.linked:
        if m.anch["a6"] and m.anchor_v(d) is None and ("v", m.vid(d)) not in seen:
            seen.add(("v", m.vid(d)))
            out.append(f"wanchor v {m.vid(d)} S0")
        if m.anch["a7"] and m.anchor_e(d) is None and ("e", m.eid(d)) not in seen:
            seen.add(("e", m.eid(d)))
            out.append(f"wanchor e {m.eid(d)} " + ("C7" if m.b[2][d] == 0 else "S0"))
        if m.anch["a8"] and m.anchor_f(d) is None and ("f", m.fid(d)) not in seen:
            seen.add(("f", m.fid(d)))
            out.append(f"wanchor f {m.fid(d)} S0")
    return out


def next_call(m, rng, anchors):
    if not m.is_triangle_mesh(m.free) or not m.embedded() or m.max_den_bits() > MAXBITS or not m.linked:
        return None
    pre = repair_lines(m) if (anchors and not part_of(anchors)) else []
    # anchors left under identifiers that are no longer cells (finding D15a) are cleared, so that the history stays in the guard
    pre = [f"xanchort {k} {i}" for (k, i) in m.stale_anchors()] + pre
    edges = sorted({m.eid(d) for d in m.linked})
    inner = [e for e in edges if m.b[2][e]]
    bnd = [e for e in edges if not m.b[2][e]]
    onb = {m.vid(d) for d in bnd} | {m.vid(m.b[1][d]) for d in bnd}
    near = [e for e in inner if m.vid(e) in onb or m.vid(m.b[1][e]) in onb]
    kinds = ["collapse"] * 4 + (["swap"] * 3 if inner else []) + (["cutin"] * 2 if inner and m.n < 140 else []) \
        + (["cutout"] * 2 if bnd and m.n < 140 else [])
    kind = rng.choice(kinds)
    if kind == "cutout":
        e = rng.choice(bnd)
    elif kind in ("swap", "cutin"):
        e = rng.choice(near if near and rng.random() < 0.4 else inner)
    else:
        e = rng.choice(rng.choice([x for x in (inner, bnd, near) if x]))
    if m.b[2][e] and not anchors and rng.random() < 0.3:
        e = m.b[2][e]      # the other orientation of the edge
    if pre:
        pre = pre + ["snap"]
    if kind in ("cutin", "cutout"):
        cl = cut_lines(m, e, rng, shuffle=rng.random() < 0.3)
        return pre + [cl[0], cl[1], "snap", "wf"]
    return pre + [f"{kind} {e}", "snap", "wf"]


def histories(count, maxops, rng, tier):
    states = []
    cfgs, pcfgs = configs(tier), partial_configs(tier)
    for c in range(count):
        nx, ny, mask, anchors, surfaces = rng.choice(pcfgs if c % 4 == 3 else cfgs)
        pre, _g = setup(nx, ny, mask, rng, anchors, surfaces)
        states.append({"cid": f"h{c}-{nx}x{ny}m{mask}" + (f"p-{part_of(anchors)}" if part_of(anchors) else ""),
                       "lines": pre + ["snap"], "anchors": anchors, "alive": True, "ops": 0})
    for _round in range(maxops):
        live = [s for s in states if s["alive"]]
        if not live:
            break
        text = hv.render([Case(s["cid"], s["lines"] + ["snap"]) for s in live])
        _rc, out = hv.run_bin(hv.HCIMPL, text)
        groups = hv.split_outputs(out)
        for s, (_cid, lo) in zip(live, groups):
            if not lo or not lo[-1].startswith("snap "):
                s["alive"] = False
                continue
            nxt = next_call(Mesh(lo[-1]), rng, s["anchors"])
            if nxt is None:
                s["alive"] = False
            else:
                s["lines"] += nxt
                s["ops"] += 1
    return [Case(s["cid"], s["lines"], oracle="c15", meta={"sig": "history", "ops": s["ops"]}) for s in states]


# ---------------------------------------------------------------------------------------------
# stream 3: outside the guard (correspondence + error => unchanged)
# ---------------------------------------------------------------------------------------------

def misuse(count, rng, tier):
    cases = []
    cfgs = [c for c in configs(tier) if c[0] * c[1] <= 6]
    for c in range(count):
        nx, ny, mask, anchors, surfaces = rng.choice(cfgs)
        pre, g = setup(nx, ny, mask, rng, anchors, surfaces)
        n = g.n
        pre = list(pre)
        kind = rng.choice(["edge", "spares", "wrongcut", "undefined", "noanchor", "partial", "unsewn", "removed"])
        e = rng.choice(g.linked)
        extra = []
        if kind == "undefined":
            for _ in range(rng.randint(1, 2)):
                extra.append(f"xv {g.vid(rng.choice(g.linked))}")
        elif kind == "noanchor" and anchors:
            for _ in range(rng.randint(1, 3)):
                d = rng.choice(g.linked)
                extra.append(rng.choice([f"xanchort v {g.vid(d)}", f"xanchort e {g.eid(d)}", f"xanchort f {g.fid(d)}"]))
        elif kind == "partial":
            # only some of the three anchor storages exist
            pm = rng.choice([32, 64, 128, 96, 160, 192])
            pre = [pre[0].replace(f" {mask} ncl", f" {pm} ncl")] + [x for x in pre[1:] if x.startswith("wv")]
        elif kind == "unsewn":
            extra.append(f"funsew {rng.choice([1, 2])} {rng.choice(g.linked)}")
        elif kind == "removed":
            extra += ["add 2", f"rm {n}"]
            n += 2
        k = rng.choice([3, 6])
        extra.append(f"add {k + 1}")
        sp = list(range(n, n + k))
        pool = [0, n + k, n + k + 1, n + k + 7] + g.linked[:6]
        if kind == "edge":
            e = rng.choice([0, n, n + k, n + k + 1, n + 50, e])
        if kind == "spares":
            for _ in range(rng.randint(1, 2)):
                sp[rng.randrange(k)] = rng.choice(pool + sp)
        op = rng.choice(["swap", "collapse", "cut", "cut", "cutx"])
        if op == "cut":
            line = ("cutin" if k == 6 else "cutout") + f" {e} " + " ".join(map(str, sp))
        elif op == "cutx":
            inner = 0 < e < g.n and g.b[2][e] != 0
            line = ("cutout" if inner else "cutin") + f" {e} " + " ".join(map(str, (sp + sp)[: (3 if inner else 6)]))
        else:
            line = f"{op} {e}"
        lines = pre + extra + ["snap", line, "snap", "wf"]
        cases.append(Case(f"mis{c}-{kind}", lines, oracle="unchanged", meta={"sig": "misuse-" + kind}))
    return cases


# ---------------------------------------------------------------------------------------------
# stream 4: inside tx blocks
# ---------------------------------------------------------------------------------------------

def blocks(count, rng, tier):
    cases = []
    cfgs = [c for c in configs(tier) if c[0] * c[1] <= 6]
    for c in range(count):
        nx, ny, mask, anchors, surfaces = rng.choice(cfgs)
        pre, g = setup(nx, ny, mask, rng, anchors, surfaces)
        lines = list(pre) + ["add 12", "tx"]
        sp = list(range(g.n, g.n + 12))
        for _ in range(rng.randint(1, 3)):
            e = rng.choice(g.linked)
            r = rng.random()
            if r < 0.3:
                lines.append(f"swap {e}")
            elif r < 0.55:
                lines.append(f"collapse {e}")
            elif r < 0.8 and len(sp) >= 6:
                k = 6 if g.b[2][e] else 3
                lines.append(("cutin" if k == 6 else "cutout") + f" {e} " + " ".join(map(str, sp[:k])))
                sp = sp[k:]
            elif r < 0.9:
                lines.append(f"vid {e}")
            else:
                lines.append(rng.choice([f"ranchor v {g.vid(e)}", f"wanchort e {g.eid(e)} C5", f"xanchort f {g.fid(e)}", f"unsew 1 {e}"]))
        lines += ["endtx", "snap", "wf"]
        cases.append(Case(f"blk{c}", lines, oracle=None, meta={"sig": "tx-block"}))
    return cases


UNIT_ANCH = ["wanchor v 1 N1", "wanchor v 2 N2", "wanchor v 3 N3", "wanchor v 6 C1", "wanchor e 1 C0", "wanchor e 2 S0",
             "wanchor e 3 C3", "wanchor e 5 C1", "wanchor e 6 C2", "wanchor f 1 S0", "wanchor f 4 S0"]
TWO_ANCH = ["wanchor v 1 N1", "wanchor v 2 N2", "wanchor v 3 C3", "wanchor v 6 C1", "wanchor v 9 N9", "wanchor v 12 N12",
            "wanchor e 1 C0", "wanchor e 2 S0", "wanchor e 3 C3", "wanchor e 5 C1", "wanchor e 6 S0", "wanchor e 8 S0",
            "wanchor e 9 C3", "wanchor e 11 C1", "wanchor e 12 C2", "wanchor f 1 S1", "wanchor f 4 S2", "wanchor f 7 S3",
            "wanchor f 10 S4"]


# the unit square with vertex and edge anchors only (written through `wanchort`: works with any set of storages), + 3 spare darts
PART_VE = [x.replace("wanchor ", "wanchort ") for x in UNIT_ANCH if not x.startswith("wanchor f")] + ["add 3"]


# found by the thorough history stream (seed 20260926, case h779), greedily shortened: an interior edge between two boundary
# vertices whose adjacent triangles have no boundary side
D15F_HISTORY = ["grid 2 1 0 ncl 0 0 1 2 1 1", "wv 1 -1/8 -1/16", "wv 2 1 3/16", "wv 3 -1/8 13/16", "wv 6 7/8 15/16", "wv 9 1/16 2",
                "wv 12 17/16 31/16", "add 3", "cutout 1 14 13 15", "add 6", "cutin 2 16 17 18 19 20 21", "swap 16", "add 3",
                "cutout 11 22 23 24", "swap 16", "add 3", "cutout 12 25 26 27", "swap 18", "swap 21", "add 6",
                "cutin 4 28 29 30 31 32 33", "add 3", "cutout 27 34 35 36", "add 6", "cutin 23 37 38 39 40 41 42", "swap 4", "swap 6"]


D15G_PRE = ['grid 2 1 224 ncl 0 0 2 2 1 1',
            'wv 2 7/8 0',
            'wv 3 0 13/16',
            'wv 6 15/16 15/16',
            'wv 18 19/16 2',
            'wanchor v 1 N1',
            'wanchor v 2 C0',
            'wanchor v 3 C3',
            'wanchor v 6 S0',
            'wanchor v 8 N8',
            'wanchor v 12 C1',
            'wanchor v 15 N15',
            'wanchor v 18 C2',
            'wanchor v 24 N24',
            'wanchor e 1 C0',
            'wanchor e 2 S0',
            'wanchor e 3 C3',
            'wanchor e 5 S0',
            'wanchor e 6 S0',
            'wanchor e 7 C0',
            'wanchor e 8 S0',
            'wanchor e 11 C1',
            'wanchor e 12 S0',
            'wanchor e 14 S0',
            'wanchor e 15 C3',
            'wanchor e 17 S0',
            'wanchor e 18 C2',
            'wanchor e 20 S0',
            'wanchor e 23 C1',
            'wanchor e 24 C2',
            'wanchor f 1 S0',
            'wanchor f 4 S0',
            'wanchor f 7 S0',
            'wanchor f 10 S0',
            'wanchor f 13 S0',
            'wanchor f 16 S0',
            'wanchor f 19 S0',
            'wanchor f 22 S0',
            'add 3',
            'cutout 7 25 26 27',
            'wanchor e 27 C7']


def directed():
    """the D9 witness of DESIGN §8, the other listed findings on their smallest meshes, and the former findings as regression cases"""
    w = ["snap", None, "snap", "wf"]

    def mk(cid, pre, op, sig):
        return Case(cid, pre + [w[0], op] + w[2:], oracle="c15", meta={"sig": sig})
    unit, unit_a = ["grid 2 1 0 ncl 0 0 1 1 1 1"], ["grid 2 1 224 ncl 0 0 1 1 1 1"] + UNIT_ANCH
    return [
        mk("d9-unit-square", unit, "swap 2", "D9"),
        mk("d15a-1x2", ["grid 2 1 224 ncl 0 0 1 2 1 1"] + TWO_ANCH, "collapse 5", "D15a"),
        # former findings D15b / D15c (fixed in /repo 27a7433 / aac3ec9): regression cases, the oracle must accept them
        mk("fixed-d15b-unit-square", unit_a + ["add 3"], "cutout 1 7 8 9", "fixed-D15b"),
        mk("fixed-d15c-unit-square", unit + ["add 3"], "cutout 1 9 8 7", "fixed-D15c"),
        mk("fixed-d15bc-unit-square", unit_a + ["add 3"], "cutout 1 9 8 7", "fixed-D15b+c"),
        mk("fixed-d15c-inner", unit + ["add 6"], "cutin 2 12 11 10 9 8 7", "fixed-D15c"),
        mk("d15d-2x2-cut", ["grid 2 1 0 ncl 0 0 2 2 1 1", "add 6", "cutin 5 25 26 27 28 29 30"], "collapse 26", "D15d"),
        mk("d15e-unit-square", unit_a, "collapse 5", "D15e"),
        mk("d15f-pinch", D15F_HISTORY, "collapse 8", "D15f"),
        # partially anchored meshes: vertex and edge anchors everywhere, no FaceAnchor storage / no face anchor written: the new
        # vertex of an outer cut gets the anchor of the cut edge, both halves of the edge keep it
        mk("part-ve-cutout", ["grid 2 1 96 ncl 0 0 1 1 1 1"] + PART_VE, "cutout 1 7 8 9", "part-anchors"),
        mk("part-ve-cutout-perm", ["grid 2 1 96 ncl 0 0 1 1 1 1"] + PART_VE, "cutout 5 9 7 8", "part-anchors"),
        mk("part-nof-cutout", ["grid 2 1 224 ncl 0 0 1 1 1 1"] + PART_VE, "cutout 1 7 8 9", "part-anchors"),
        mk("part-onef-cutout", ["grid 2 1 224 ncl 0 0 1 1 1 1"] + PART_VE + ["wanchort f 4 S0"], "cutout 1 7 8 9", "part-anchors"),
        mk("part-ve-swap", ["grid 2 1 96 ncl 0 0 1 1 1 1"] + PART_VE[:-1], "swap 2", "D9"),
        mk("part-ve-collapse", ["grid 2 1 96 ncl 0 0 1 2 1 1"] + [x.replace("wanchor ", "wanchort ") for x in TWO_ANCH
                                                              if not x.startswith("wanchor f")], "collapse 5", "part-anchors"),
        # former finding D15g (fixed in /repo 94962f9): the collapse that would flatten a triangle is refused
        Case("fixed-d15g-flat", D15G_PRE + ["snap", "collapse 5", "snap", "wf"], oracle="c15",
             meta={"sig": "fixed-D15g", "expect": (len(D15G_PRE) + 1, "err InvertedOrientation")}),
    ]


# ---------------------------------------------------------------------------------------------

def run(tier, seed):
    rng = random.Random(seed)
    NOTES.clear()
    parts = []
    parts.append(("directed (smallest witnesses of the listed findings; fixed findings as regression cases)", hv.campaign(directed(), oracle_c15, max_report=10)))
    r1 = hv.campaign(every_edge(tier, rng), oracle_c15, max_report=100)
    parts.append(("every dart of every mesh x swap / cut / collapse", r1))
    nh, ops = (120, 30) if tier == "quick" else (1200, 30)
    hs = histories(nh, ops, rng, tier)
    r2 = hv.campaign(hs, oracle_c15, max_report=100)
    r2["stats"]["history_ops"] = sum(c.meta["ops"] for c in hs)
    r2["stats"]["history_max_ops"] = max(c.meta["ops"] for c in hs)
    parts.append(("histories of <= 30 calls (adaptive)", r2))
    parts.append(("outside the guard (correspondence, error => unchanged)",
                  hv.campaign(misuse(3000 if tier == "quick" else 40000, rng, tier), oracle_c15, max_report=50, advisory=True)))
    parts.append(("inside tx blocks", hv.campaign(blocks(800 if tier == "quick" else 10000, rng, tier), None)))
    res = hv.merge_results(parts)
    res["violations"] = dedupe(res["violations"])
    res["stats"]["history_ops"] = r2["stats"]["history_ops"]
    res["stats"]["history_max_ops"] = r2["stats"]["history_max_ops"]
    res.setdefault("notes", []).extend(SPEC["notes"])
    if NOTES:
        res.setdefault("notes", []).append(
            "calls inside the guard answered `retry` (not successes; map unchanged; in atomically_with_err they would wait forever): "
            + ", ".join(f"{k[0]}: {v}" for k, v in sorted(NOTES.items())))
    return res


def signatures(v):
    """finding signatures of an oracle violation, re-derived from the raw transcript of the replay"""
    rp = v.get("replay", {})
    lines, li = rp.get("input_lines", []), rp.get("impl_output", [])
    try:
        bad = analyse(lines, li)
    except Exception:
        return {"unknown"}
    if not bad:
        return {"unknown"}
    sigs = set()
    for _i, _op, _items, s in bad:
        sigs |= s
    return sigs or {"unknown"}


def dedupe(violations):
    seen, out = set(), []
    for v in violations:
        key = (v["kind"], tuple(sorted(signatures(v))) if v["kind"] == "oracle" else v["what"][:80])
        if key in seen and v["kind"] == "oracle" and "unknown" not in key[1]:
            continue
        seen.add(key)
        out.append(v)
    return out


def matches(known, v):
    """A violation is a known finding iff it is an oracle failure on which model and implementation agree, the finding's
    signature is one of the failure signatures re-derived from the transcript, and every other signature of the same
    transcript is itself a listed C15 finding (any further failure mode stays a VIOLATION)."""
    m = known.get("matcher", {})
    if v.get("kind") != "oracle" or m.get("kind") != "oracle":
        return False
    sigs = signatures(v)
    if "unknown" in sigs or m.get("signature") not in sigs:
        return False
    listed = {k["matcher"].get("signature") for k in hv.load_known().get("findings", []) if k["property"] == "C15"}
    return sigs <= listed
