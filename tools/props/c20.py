"""C20 — the viewer's scene extraction mirrors the map.

The implementation side is NOT `hcimpl` but `/verif/harness-render/hcrender` (own cargo workspace: bevy is slow to
build): it builds a `CMap2<f64>` / `CMap3<f64>` through the line protocol and answers `scene` by running the real
start-up system `extract_data_from_map::<f64>` / `extract_data_from_3d_map::<f64>` in a headless `bevy::app::App`
(`MinimalPlugins`, one `update()`), then dumping every entity and resource on one canonical line.  The model side is
`hcmodel` (`Honeycomb/Model/Scene.lean`, hook `topScene`).

Oracle (Python, independent of both): cells are recomputed from the β arrays of the implementation's own `snap` line
by union-find over the orbit generators (id = minimum), and every clause of the property is evaluated on the dumped
scene: one vertex/edge/face entity per cell carrying its id, one dart entity per in-use dart, rows point to the right
coordinates, corner order, table = coordinates, normal keys, normals finite unit vectors.
"""
import math
import os
import random
import re
from fractions import Fraction

import gens
import hv
from hv import Case

RENDER_DIR = os.path.join(hv.VERIF, "harness-render")
RENDER_BIN = os.path.join(hv.BUILD, "render-target", "release", "hcrender")

SPEC = {
    "lean_modules": ["Honeycomb.Props.C20", "Honeycomb.Props.C20b", "Honeycomb.Props.C20c"],
    "required_theorems": [
        "C20_vertex_entities", "C20_index_map_injective", "C20_index_map_onto", "C20_table_row",
        "C20_dart_start", "C20_dart_end", "C20_edge_entity", "C20_face_corners", "C20_dart_entities_of_face",
        "C20_each_dart_once", "C20_no_panic",
        "C20_3d_vertex_entities", "C20_3d_dart_start", "C20_3d_edge_entity", "C20_3d_face_entity",
        "C20_3d_dart_end", "C20_3d_face_corners", "C20_3d_dart_entities_of_face", "C20_3d_second_side_is_mirror",
        "C20_3d_face_darts_are_the_face_orbit", "C20_3d_face_darts_nodup", "C20_3d_self_glued_face_twice",
        "C20_D20a_zero_normal_iff", "C20_D20a_straight_corner", "C20_3d_normal_nonzero", "C20_2d_normal_nonzero_iff",
        "C20_2d_spike_zero", "C20_plane_normal_of_scene",
        "C20_face_normal_keys", "C20_3d_face_normal_keys", "C20_3d_volume_normal_keys",
        "C20_3d_each_dart_once", "C20_3d_no_panic", "faceId3_min", "mem_iterFaces3_iff", "C20_newell_is_vector_area",
        # Props/C20c.lean: stored normals are unit vectors, in the rounding model
        "C20c_normalize_unit", "C20c_norm_within", "C20c_normalize_unit_f32", "C20c_bound_f32",
        "C20c_normal_nonzero_iff_not_straight", "C20c_corner_normal_unit", "C20c_final_normal_unit_partial",
        "exists_sqrtModel",
    ],
    "trusted_base": [
        "Lean 4.33 kernel; axioms propext, Classical.choice, Quot.sound only",
        "hand-written model Honeycomb/Model/Scene.lean (extract2/extract3 after honeycomb-render/src/import_map.rs) on top of "
        "Model/{Ops2,Ops3}.lean, tied to /repo by the hcmodel/hcrender correspondence run",
        "Rust harness /verif/harness-render/hcrender (protocol subset, headless bevy App with MinimalPlugins, scene dump) "
        "and tools/*.py (oracle: union-find cells from the implementation's own snapshot)",
        "bevy 0.14 ECS: Commands are applied at the end of the Startup schedule, queries return every spawned entity "
        "(the dump also prints the total entity count)",
    ],
    "assumptions": [
        "coordinates are exactly representable in f32 (the table is Vec<Vec3>: an f64 map is rounded to f32; generators use "
        "small dyadic numbers, compared exactly)",
        "maps have fewer than 2^32 darts",
        "2-D theorems: WF 3 m, ClosedFaces (every in-use dart has a β1 image), for C20_no_panic also NoLoops (no 1-sided face; "
        "the Rust code indexes vertex_ids[1]) and Embedded; they are stated for `extract2 m = some sc`, which C20_no_panic "
        "provides.  3-D theorems: WF 4 m, ClosedFaces, where named Mirror / Sided / NoSelfGlue / NoLoops / Embedded3; stated "
        "for `extract3 m = some sc`, which C20_3d_no_panic provides",
    ],
    "rule": "correspondence hcmodel vs hcrender on: every WF 2-map with n<=N darts (N=4 quick / 5 thorough) incl. removed, "
            "isolated, open and degenerate faces (model must predict panic or the exact scene); every WF 3-map n<=3 plus 10% of n=4 (quick) / n<=4 (thorough); "
            "glued-faces 3-map family after random links; planar meshes (polygons, pinwheels of convex/non-convex quads, "
            "split grids with holes) with shuffled dart labels and removed darts; protocol-built meshes after edit histories "
            "(2-unsew/re-sew, face removal, damage); 3-D cell pairs (cube/tet/prism/pyramid) sewn and unsewn.  The property "
            "oracle is evaluated on every case that lies in the property's domain (all in-use darts on closed faces of >=3 "
            "sides, every vertex id embedded, 3-D: faces mirrored and 3-linked to a *different* β1-cycle; normals additionally need non-degenerate corners). "
            "distinct_nontrivial = distinct implementation transcripts.",
    "not_proved": [
        "normals, floating-point part.  PROVED in the rounding model (Props/C20c.lean): glam's scalar Vec3::normalize "
        "(dot, sqrt, reciprocal, three products, each rounded) maps EVERY nonzero vector to a vector whose squared norm is "
        "within 10u of 1 (C20c_normalize_unit; |norm - 1| <= 10u, C20c_norm_within), for binary32 10*2^-24 < 1e-6, two orders "
        "below the oracle's 1e-4 (C20c_normalize_unit_f32, C20c_bound_f32), under (a) RoundModel fl u - proved for idealised "
        "binary32 rnd 24 (C19b_roundModel_f32), its identification with the hardware validated by the C19 flop stream, "
        "overflow/underflow excluded (moderate magnitude, Props/C19c) - and (b) SqrtModel: the sqrt routine has relative "
        "error u (true of the correctly rounded IEEE sqrt; an ASSUMPTION, satisfiable: exists_sqrtModel).  The plane normal "
        "of the model is nonzero iff the corner is not straight (C20c_normal_nonzero_iff_not_straight; D20a is exactly the "
        "excluded case) and is then normalised to a unit vector (C20c_corner_normal_unit).  PARTIAL "
        "(C20c_final_normal_unit_partial): the finally stored (a*n1 + b*n2).normalize() is unit provided the COMPUTED sum is "
        "not the zero vector - that rounding cannot cancel the sum of a nearly spiked corner is not proved; nor that the zero "
        "vector maps to NaN, nor the f32 rounding of the cross products and sums themselves, nor glam's SIMD paths.  "
        "Proved exactly over Q "
        "(Props/C20b.lean): the 3-D plane normal vec_in x vec_out is the zero vector iff the two sides at the corner are "
        "linearly dependent (C20_D20a_zero_normal_iff, C20_D20a_straight_corner = finding D20a as a theorem), otherwise the "
        "vector handed to the last normalize is non-zero for all positive weights (C20_3d_normal_nonzero); 2-D: the sum is "
        "zero for some positive weights iff the corner is a spike (C20_2d_normal_nonzero_iff, C20_2d_spike_zero); "
        "C20_plane_normal_of_scene ties the plane normal computed from the table rows to the map's own coordinates.  The "
        "oracle checks finite+unit on the implementation and, in 3-D, NaN <=> exact plane normal zero",
        "VolumeNormals vectors: proved exactly only that the per-face Newell sum is the sum of the cross products of "
        "consecutive corners = twice the vector area (C20_newell_is_vector_area); the sum of the unit face normals at a "
        "vertex and its normalisation are oracle only.  A flat solid (two faces back to back) would cancel to zero — "
        "outside the generated streams",
        "3-D: the corner rows / dart ends / two-sided enumeration / one-entity-per-dart / panic-freedom theorems need "
        "Mirror + Sided (a face is 3-linked as a whole) + NoSelfGlue as hypotheses; Mirror is preserved by every editing "
        "call (C02); Sided and NoSelfGlue are NOT invariants under C02's guards alone (counterexample histories) and ARE preserved under the extra guard G13 of Props/C02b.lean (C02b_history_preserves_all) (three_link / three_unlink walk "
        "whole faces; three_link refuses two darts of one cycle) — the oracle evaluates them on every case "
        "(outside: face partially 3-linked / 3-linked to itself)",
        "the printed order of entities is the harness' (sorted); that bevy applies the spawn commands and the harness dumps "
        "every entity is trusted (the dump prints the total entity count, checked by the oracle)",
    ],
}


# ---------------------------------------------------------------------------------------------
# building hcrender
# ---------------------------------------------------------------------------------------------

def build_hcrender(timeout=3000):
    """cargo build (offline) of /verif/harness-render against /repo's working tree; returns (ok, log, private binary)"""
    os.makedirs(hv.BUILD, exist_ok=True)
    with hv.FileLock(os.path.join(hv.BUILD, "cargo-render.lock")):
        src = os.path.join(hv.REPO, "Cargo.lock")
        dst = os.path.join(RENDER_DIR, "Cargo.lock")
        if os.path.exists(src) and (not os.path.exists(dst) or 'name = "hcrender"' not in open(dst).read()):
            open(dst, "w").write(open(src).read())
        rc, out = hv.sh(["cargo", "build", "--release", "--offline"], cwd=RENDER_DIR, timeout=timeout)
        if rc == 0 and os.path.exists(RENDER_BIN):
            return True, out, hv._private_copy(RENDER_BIN)
    return False, out, None


# ---------------------------------------------------------------------------------------------
# canonicalisation: the vectors after ` || ` and the implementation's own verdict `nok=` are not part of the
# correspondence (the model has no floats); the oracle reads them from the raw line
# ---------------------------------------------------------------------------------------------

def canon(line):
    if line.startswith("scene "):
        line = line.split(" || ")[0]
        line = re.sub(r" \| nok=(true|false)$", "", line)
    return line


# ---------------------------------------------------------------------------------------------
# oracle
# ---------------------------------------------------------------------------------------------

class UF:
    def __init__(self, n):
        self.p = list(range(n))

    def find(self, x):
        while self.p[x] != x:
            self.p[x] = self.p[self.p[x]]
            x = self.p[x]
        return x

    def union(self, a, b):
        if a == 0 or b == 0:
            return
        a, b = self.find(a), self.find(b)
        if a != b:
            if a < b:
                self.p[b] = a
            else:
                self.p[a] = b


def parse_snap(line):
    parts = [p.strip() for p in line.split("|")]
    n = int(parts[0].split("n=")[1])
    rows, u, a0 = {}, None, None
    for p in parts[1:]:
        k, _, v = p.partition(":")
        toks = v.split()
        if k.startswith("b"):
            rows[int(k[1:])] = [int(t) for t in toks]
        elif k == "u":
            u = [int(t) for t in toks]
        elif k == "a0":
            a0 = [None if t == "none" else t for t in toks]
    return n, rows, u, a0


def pt(tok):
    return tuple(Fraction(x) for x in tok.strip("()").split(","))


def parse_scene(raw):
    head, _, tail = raw.partition(" || ")
    sec = {}
    for p in head[len("scene "):].split(" | "):
        p = p.strip()
        if p.startswith("n="):
            sec["n"] = int(p[2:])
        elif p.startswith("nok="):
            sec["nok"] = p[4:] == "true"
        else:
            k, _, v = p.partition(":")
            sec[k] = v.split()
    vec = {}
    for p in tail.split(" | "):
        k, _, v = p.strip().partition(":")
        vec[k] = v.split()
    return sec, vec


def cells(n, b, dim):
    """ids (orbit minima) by union-find over the orbit generators"""
    vu, eu, fu, cu = UF(n), UF(n), UF(n), UF(n)
    for d in range(1, n):
        if dim == 2:
            vu.union(d, b[1][b[2][d]])
            vu.union(d, b[2][b[0][d]])
            eu.union(d, b[2][d])
            fu.union(d, b[1][d])
            fu.union(d, b[0][d])
        else:
            for x in (b[3][b[2][d]], b[1][b[3][d]], b[1][b[2][d]], b[3][b[0][d]], b[2][b[0][d]]):
                vu.union(d, x)
            eu.union(d, b[2][d])
            eu.union(d, b[3][d])
            for x in (b[1][d], b[0][d], b[3][d]):
                fu.union(d, x)
            for x in (b[1][d], b[0][d], b[2][d]):
                cu.union(d, x)
    return vu, eu, fu, cu


def wf_ok(n, b, u, dim):
    for i in range(dim + 1):
        if b[i][0] != 0 or any(x >= n for x in b[i]):
            return False
    for d in range(1, n):
        if b[1][d] and b[0][b[1][d]] != d:
            return False
        if b[0][d] and b[1][b[0][d]] != d:
            return False
        for i in range(2, dim + 1):
            if b[i][d] and (b[i][b[i][d]] != d or b[i][d] == d):
                return False
        if u[d] and any(b[i][d] for i in range(dim + 1)):
            return False
    return True


def sub(a, b):
    return tuple(x - y for x, y in zip(a, b))


def cross(a, b):
    return (a[1] * b[2] - a[2] * b[1], a[2] * b[0] - a[0] * b[2], a[0] * b[1] - a[1] * b[0])


def dot(a, b):
    return sum(x * y for x, y in zip(a, b))


COUNTS = {}


def bump(k):
    COUNTS[k] = COUNTS.get(k, 0) + 1


def oracle_scene(case, li):
    """evaluate C20 on the implementation's scene dump; None = holds (or case outside the property's domain)"""
    raw = case.meta.get("raw", li)
    for ln in raw:
        if ln.startswith("<missing"):
            return ln
    snaps = [k for k, ln in enumerate(raw) if ln.startswith("snap ")]
    scenes = [k for k, ln in enumerate(raw) if ln.startswith("scene ") or ln == "panic"]
    if not snaps:
        return None
    k = snaps[-1]
    if k + 1 >= len(raw):
        return None
    out = raw[k + 1]
    dim = case.meta.get("dim", 2)
    n, b, u, a0 = parse_snap(raw[k])
    if not wf_ok(n, b, u, dim):
        bump("outside: not WF")
        return None
    inuse = [d for d in range(1, n) if not u[d]]
    vu, eu, fu, cu = cells(n, b, dim)
    vid = lambda d: vu.find(d)
    # ---- domain of the property ----
    if not inuse:
        bump("outside: empty map")
        return None
    if any(b[1][d] == 0 for d in inuse):
        bump("outside: open face / free dart")
        return None

    def cyc(d):
        w, x = [d], b[1][d]
        while x != d:
            w.append(x)
            x = b[1][x]
        return w
    if any(len(cyc(d)) < 3 for d in inuse):
        bump("outside: face with < 3 sides")
        return None
    if dim == 3:
        for d in inuse:
            if b[3][d] and b[3][b[1][d]] and b[1][b[3][b[1][d]]] != b[3][d]:
                bump("outside: face not mirrored")
                return None
            if (b[3][d] == 0) != (b[3][b[1][d]] == 0):
                bump("outside: face partially 3-linked")
                return None
            if b[3][d] in cyc(d):
                # β3 pairs two darts of the same β1-cycle (a face folded onto itself): well-formed and "mirrored", but
                # three_link refuses it (NonFreeBase on the second pair), so no history of edits produces it; the code
                # then walks the same cycle twice and emits every dart entity twice (the model agrees)
                bump("outside: face 3-linked to itself")
                return None
    vids = sorted({vid(d) for d in inuse})
    if any(a0[v] is None for v in vids):
        bump("outside: vertex without coordinates")
        if out != "panic":
            return "a vertex id has no coordinates but the extraction did not panic (documented behaviour: panic)"
        return None
    bump(f"in-domain {dim}-D")
    # ---- the property ----
    if out == "panic" or not out.startswith("scene "):
        return f"extraction fails on an embedded closed-face map: {out[:80]}"
    sec, vec = parse_scene(out)
    table = [pt(t) for t in sec["T"]]
    V = [tuple(int(x) for x in t.split(":")) for t in sec["V"]]
    E = [(int(t.split(":")[0]),) + tuple(int(x) for x in t.split(":")[1].split(",")) for t in sec["E"]]
    F = [(int(t.split(":")[0]), [int(x) for x in t.split(":")[1].split(",")]) for t in sec["F"]]
    D = [tuple(int(x) for x in t.split(":")) for t in sec["D"]]
    if sec["n"] != len(V) + len(E) + len(F) + len(D):
        return f"stray entities: {sec['n']} entities, {len(V)}+{len(E)}+{len(F)}+{len(D)} recognised"
    # vertices
    if sorted(i for i, _ in V) != vids:
        return f"vertex entities {sorted(i for i, _ in V)} != vertex ids {vids}"
    if len(table) != len(vids):
        return f"table has {len(table)} rows for {len(vids)} vertices"
    row = dict(V)
    if sorted(row.values()) != list(range(len(vids))):
        return f"vertex rows are not a bijection onto the table: {V}"
    for v, r in V:
        if table[r] != pt(a0[v]):
            return f"table row {r} = {table[r]} but vertex {v} has coordinates {a0[v]}"
    # edges
    eids = sorted({eu.find(d) for d in inuse})
    if sorted(e[0] for e in E) != eids:
        return f"edge entities {sorted(e[0] for e in E)} != edge ids {eids}"
    for e, r0, r1 in E:
        if r0 != row[vid(e)] or r1 != row[vid(b[1][e])]:
            return f"edge {e}: ends ({r0},{r1}) but its vertices have rows ({row[vid(e)]},{row[vid(b[1][e])]})"
    # faces
    fids = sorted({fu.find(d) for d in inuse})
    if sorted(f[0] for f in F) != fids:
        return f"face entities {sorted(f[0] for f in F)} != face ids {fids}"
    for f, rows in F:
        want = [row[vid(d)] for d in cyc(f)]
        if rows != want:
            return f"face {f}: corners {rows}, successor order gives {want}"
    # darts
    if sorted(x[0] for x in D) != inuse:
        extra = sorted(x[0] for x in D)
        return f"dart entities {extra} != in-use darts {inuse}"
    for d, v, e, f, vol, s, t in D:
        wvol = 1 if dim == 2 else cu.find(d)
        if (v, e, f, vol) != (vid(d), eu.find(d), fu.find(d), wvol):
            return f"dart {d}: ids (v,e,f,vol)=({v},{e},{f},{vol}), cells give ({vid(d)},{eu.find(d)},{fu.find(d)},{wvol})"
        if s != row[vid(d)] or t != row[vid(b[1][d])]:
            return f"dart {d}: start/end ({s},{t}), vertices of d and β1 d have rows ({row[vid(d)]},{row[vid(b[1][d])]})"
    # normal keys
    fn_want = sorted({(fu.find(d), row[vid(d)]) for d in inuse})
    fn_got = [tuple(int(x) for x in t.split(",")) for t in sec["FN"]]
    if fn_got != fn_want:
        return f"FaceNormals keys {fn_got} != (face, corner row) pairs {fn_want}"
    if dim == 3:
        vn_want = sorted({(cu.find(d), row[vid(d)]) for d in inuse})
        vn_got = [tuple(int(x) for x in t.split(",")) for t in sec["VN"]]
        if vn_got != vn_want:
            return f"VolumeNormals keys {vn_got} != (volume, vertex row) pairs {vn_want}"
    elif sec["VN"] != ["none"]:
        return "2-D scene has a VolumeNormals resource"
    # ---- normals: finite unit vectors (needs non-degenerate geometry) ----
    P = lambda d: pt(a0[vid(d)])
    straight, degenerate = set(), False
    for d in inuse:
        vin, vout = sub(P(d), P(b[0][d])), sub(P(b[1][d]), P(d))
        c = cross(vin, vout)
        if not any(vin) or not any(vout):
            degenerate = True          # zero-length side
        elif not any(c):
            if dot(vin, vout) < 0:
                degenerate = True      # spike (the face folds back on itself)
            else:
                straight.add((fu.find(d), row[vid(d)]))
    if dim == 3 and not degenerate:
        # zero-area faces / flat volumes make the Newell normal or the vertex sum vanish
        for f in fids:
            w = cyc(f)
            acc = (0, 0, 0)
            for d in w:
                acc = tuple(x + y for x, y in zip(acc, cross(P(d), P(b[1][d]))))
            if not any(acc):
                degenerate = True
    if degenerate:
        bump("normals skipped: degenerate geometry")
        return None
    if dim == 3 and not case.meta.get("geometry"):
        # random coordinates on a 3-map: faces are not planar polygons, solids may be flat (vertex normals cancel)
        bump("normals skipped: 3-D map with random coordinates")
        return None
    bad = []
    for name in ("FNV", "VNV"):
        for t in vec.get(name, []):
            if t == "none":
                continue
            key, _, v = t.partition("=")
            xs = [float(x) for x in v.strip("()").split(",")]
            nrm = math.sqrt(sum(x * x for x in xs))
            if not all(math.isfinite(x) for x in xs) or abs(nrm - 1) >= 1e-4:
                bad.append((name, tuple(int(x) for x in key.split(",")), v))
    if dim == 3:
        # tie of C20_D20a_zero_normal_iff / planeNormalAt: the exact plane normal is zero  =>  the stored normal is NaN
        badkeys = {key for nm, key, _ in bad if nm == "FNV"}
        missed = sorted(k for k in straight if k not in badkeys)
        if missed:
            return f"exact plane normal is the zero vector at corner(s) {missed[:4]} but the stored FaceNormals are finite unit vectors"
    if (not bad) != sec.get("nok", True):
        return f"harness verdict nok={sec.get('nok')} contradicts the printed normals ({len(bad)} bad)"
    if bad:
        if dim == 3 and all(nm == "FNV" and key in straight for nm, key, _ in bad):
            return ("straight-corner-nan: 3-D FaceNormals at straight (collinear) corner(s) "
                    f"{[k for _, k, _ in bad][:4]} are {bad[0][2]} — plane_normal = vec_in x vec_out = 0 is normalised")
        return f"normal-not-unit: {bad[:3]}"
    bump(f"normals checked {dim}-D")
    return None


# ---------------------------------------------------------------------------------------------
# generators
# ---------------------------------------------------------------------------------------------

def tok(x):
    q = Fraction(x)
    return str(q.numerator) if q.denominator == 1 else f"{q.numerator}/{q.denominator}"


def mesh2_case(name, points, cells_, rng, extra=0, shuffle=True, drop_value=False, sig="mesh"):
    """2-map of a polygon soup (cells = CCW point-index lists; opposite directed sides are 2-linked), with shuffled
    dart labels and `extra` removed darts; coordinates are written at EVERY in-use dart id (only the vertex ids count)"""
    nd = sum(len(c) for c in cells_)
    n = nd + extra
    labels = list(range(1, n + 1))
    if shuffle:
        rng.shuffle(labels)
    b0, b1, b2, u = [0] * (n + 1), [0] * (n + 1), [0] * (n + 1), [0] * (n + 1)
    side, origin = {}, {}
    k = 0
    for c in cells_:
        ds = labels[k:k + len(c)]
        k += len(c)
        for i, d in enumerate(ds):
            nx = ds[(i + 1) % len(ds)]
            b1[d], b0[nx] = nx, d
            side[(c[i], c[(i + 1) % len(c)])] = d
            origin[d] = points[c[i]]
    for (p, q), d in side.items():
        if (q, p) in side:
            b2[d] = side[(q, p)]
    for d in labels[nd:]:
        u[d] = 1
    lines = [gens.load_line(2, n, 0, [b0, b1, b2], u)]
    skip = rng.choice(sorted(origin)) if drop_value else None
    for d in sorted(origin):
        if d != skip:
            lines.append(f"wv {d} {tok(origin[d][0])} {tok(origin[d][1])}")
    lines += ["snap", "scene"]
    return Case(name, lines, oracle="scene", meta={"sig": sig, "dim": 2})


def q4(x):
    return Fraction(round(x * 4), 4)


def polygon(rng, k, convex=True):
    """k-gon around the origin, CCW, dyadic coordinates; non-convex: alternating radii (star)"""
    pts = []
    for i in range(k):
        a = 2 * math.pi * (i + 0.1 * rng.random()) / k
        r = 6.0 if convex or i % 2 == 0 else rng.choice([2.0, 2.5, 3.0])
        pts.append((q4(r * math.cos(a)), q4(r * math.sin(a))))
    return pts


def pinwheel(rng, k):
    """k quads (centre, v_2i, v_2i+1, v_2i+2) around a centre; odd points are tips (convex kite) or dents
    (non-convex arrowhead); some sectors may be dropped (boundary at the centre)"""
    pts = [(Fraction(0), Fraction(0))]
    for i in range(2 * k):
        a = 2 * math.pi * i / (2 * k)
        r = 6.0 if i % 2 == 0 else rng.choice([1.5, 2.0, 7.0, 7.5])
        pts.append((q4(r * math.cos(a)), q4(r * math.sin(a))))
    cells_ = []
    for i in range(k):
        if rng.random() < 0.2:
            continue
        cells_.append([0, 1 + 2 * i, 2 + 2 * i, 1 + (2 * i + 2) % (2 * k)])
    if not cells_:
        cells_.append([0, 1, 2, 3])
    return pts, cells_


def split_grid(rng, nx, ny):
    """nx x ny unit squares, each kept / split along a diagonal / dropped (hole, boundary darts)"""
    pts = [(Fraction(i), Fraction(j)) for j in range(ny + 1) for i in range(nx + 1)]
    idx = lambda i, j: j * (nx + 1) + i
    cells_ = []
    for j in range(ny):
        for i in range(nx):
            a, b_, c, d = idx(i, j), idx(i + 1, j), idx(i + 1, j + 1), idx(i, j + 1)
            r = rng.random()
            if r < 0.15:
                continue
            if r < 0.45:
                cells_ += [[a, b_, c], [a, c, d]]
            elif r < 0.7:
                cells_ += [[a, b_, d], [b_, c, d]]
            else:
                cells_.append([a, b_, c, d])
    if not cells_:
        cells_.append([idx(0, 0), idx(1, 0), idx(1, 1), idx(0, 1)])
    return pts, cells_


def meshes2(count, rng):
    cases = []
    for k in range(count):
        kind = k % 5
        if kind == 0:
            sides = rng.randint(3, 9)
            cases.append(mesh2_case(f"poly{k}", polygon(rng, sides, True), [list(range(sides))], rng,
                                    extra=rng.randint(0, 2), sig="polygon"))
        elif kind == 1:
            sides = 2 * rng.randint(3, 6)
            cases.append(mesh2_case(f"star{k}", polygon(rng, sides, False), [list(range(sides))], rng,
                                    extra=rng.randint(0, 2), sig="non-convex polygon"))
        elif kind == 2:
            pts, cs = pinwheel(rng, rng.randint(3, 6))
            cases.append(mesh2_case(f"pin{k}", pts, cs, rng, extra=rng.randint(0, 3), sig="pinwheel"))
        elif kind == 3:
            pts, cs = split_grid(rng, rng.randint(1, 4), rng.randint(1, 3))
            cases.append(mesh2_case(f"grid{k}", pts, cs, rng, extra=rng.randint(0, 3), sig="split grid"))
        else:
            # two triangles sewn along one side
            pts = [(Fraction(0), Fraction(0)), (Fraction(1), Fraction(0)), (Fraction(1), Fraction(1)), (Fraction(0), Fraction(1))]
            cases.append(mesh2_case(f"two{k}", pts, [[0, 1, 2], [0, 2, 3]], rng, extra=rng.randint(0, 1),
                                    shuffle=rng.random() < 0.7, drop_value=rng.random() < 0.15, sig="two triangles"))
    return cases


def histories2(count, rng):
    """meshes built through the protocol (1-links, coordinates, 2-sews) followed by an edit history:
    2-unsew / re-sew of interior sides, removal of a whole face (unsew, unlink, remove its darts), and — in a third of
    the cases — damage that leaves the domain (opened face, fresh free dart): correspondence only there"""
    cases = []
    for k in range(count):
        pts, cs = split_grid(rng, rng.randint(1, 3), rng.randint(1, 3)) if k % 2 else pinwheel(rng, rng.randint(3, 5))
        nd = sum(len(c) for c in cs)
        lines = [f"new 2 {nd} 0"]
        side, faces, d = {}, [], 1
        for c in cs:
            ds = list(range(d, d + len(c)))
            d += len(c)
            faces.append(ds)
            for i, x in enumerate(ds):
                lines.append(f"flink 1 {x} {ds[(i + 1) % len(ds)]}")
                lines.append(f"wv {x} {tok(pts[c[i]][0])} {tok(pts[c[i]][1])}")
                side[(c[i], c[(i + 1) % len(c)])] = x
        pairs = [(x, side[(q, p)]) for (p, q), x in side.items() if p < q and (q, p) in side]
        rng.shuffle(pairs)
        for a, b_ in pairs:
            lines.append(f"fsew 2 {a} {b_}")
        sewn = dict(pairs)
        sewn.update({b_: a for a, b_ in pairs})
        for _ in range(rng.randint(0, 4)):
            if pairs and rng.random() < 0.7:
                a, b_ = rng.choice(pairs)
                lines.append(f"funsew 2 {a}")
                if rng.random() < 0.6:
                    lines.append(f"fsew 2 {b_} {a}")
                else:
                    pairs.remove((a, b_))
                    sewn.pop(a), sewn.pop(b_)
            elif len(faces) > 1:
                f = faces.pop(rng.randrange(len(faces)))
                for x in f:
                    if x in sewn:
                        y = sewn.pop(x)
                        sewn.pop(y)
                        pairs = [p for p in pairs if x not in p]
                        lines.append(f"funsew 2 {x}")
                for x in f:
                    lines.append(f"funlink 1 {x}")
                for x in f:
                    lines.append(f"rm {x}")
        r = rng.random()
        if r < 0.12:
            lines.append(f"funsew 1 {rng.choice(rng.choice(faces))}")
        elif r < 0.22:
            lines.append(rng.choice(["add 1", "ins"]))
        elif r < 0.33:
            lines.append(f"xv {rng.randint(1, nd)}")
        lines += ["snap", "scene"]
        cases.append(Case(f"hist{k}", lines, oracle="scene", meta={"sig": "edit history", "dim": 2}))
    return cases


def exhaustive2(nmax, rng, frac_last=1.0):
    """every WF 2-map with <= nmax darts (removed darts, isolated darts, loops, digons, open faces included): the model
    must predict the panic or the exact scene; the few in-domain maps (triangles, squares) also get the oracle"""
    cases = []
    cid = 0
    for n in range(1, nmax + 1):
        for (b0, b1, b2, u) in gens.wf_maps2(n):
            if n == nmax and frac_last < 1.0 and rng.random() > frac_last:
                continue
            cid += 1
            lines = [gens.load_line(2, n, 0, [b0, b1, b2], u)]
            pv = 1.0 if cid % 4 else 0.7
            for d in range(1, n + 1):
                if rng.random() < pv:
                    lines.append(f"wv {d} {gens.dy(rng, -3, 3, 2)} {gens.dy(rng, -3, 3, 2)}")
            lines += ["snap", "scene"]
            cases.append(Case(f"ex2-{n}-{cid}", lines, oracle="scene", meta={"sig": "exhaustive 2-D", "dim": 2}))
    return cases


def exhaustive3(nmax, rng, frac_last=1.0):
    cases = []
    cid = 0
    for n in range(1, nmax + 1):
        for (b0, b1, b2, b3, u) in gens.wf_maps3(n):
            if n == nmax and frac_last < 1.0 and rng.random() > frac_last:
                continue
            cid += 1
            lines = [gens.load_line(3, n, 0, [b0, b1, b2, b3], u)]
            for d in range(1, n + 1):
                if rng.random() < 0.95:
                    lines.append(f"wv {d} {gens.dy(rng, -3, 3, 2)} {gens.dy(rng, -3, 3, 2)} {gens.dy(rng, -3, 3, 2)}")
            lines += ["snap", "scene"]
            cases.append(Case(f"ex3-{n}-{cid}", lines, oracle="scene", meta={"sig": "exhaustive 3-D", "dim": 3}))
    return cases


def glued3(rng, max_faces, max_sides, frac, pre=4):
    """the glued-faces family of C02/C03 (closed and open polygons) after random 2-/3-links and sews"""
    cases = []
    cid = 0
    for n, rows, faces in gens.faces3_maps(max_faces, max_sides):
        if rng.random() > frac:
            continue
        cid += 1
        darts = list(range(1, n + 1))
        lines = [gens.load_line(3, n, 0, rows, [0] * (n + 1))]
        for d in darts:
            lines.append(f"wv {d} {gens.dy(rng, -3, 3, 2)} {gens.dy(rng, -3, 3, 2)} {gens.dy(rng, -3, 3, 2)}")
        for _ in range(rng.randint(0, pre)):
            lines.append(gens.random_op3(rng, darts, alloc=False, weights=[4, 4, 1, 1], dims=(2, 3)))
        lines += ["snap", "scene"]
        cases.append(Case(f"gl3-{cid}", lines, oracle="scene", meta={"sig": "glued faces 3-D", "dim": 3}))
    return cases


CUBE_STRAIGHT = (gens.CUBE[0] + [(Fraction(1, 2), 0, 0)],
                 [[0, 3, 2, 1, 8], [4, 5, 6, 7], [0, 8, 1, 5, 4], [1, 2, 6, 5], [2, 3, 7, 6], [3, 0, 4, 7]])


def transform(poly, scale, shift):
    pts, faces = poly
    return [tuple(Fraction(c) * scale + shift[i] for i, c in enumerate(p)) for p in pts], faces


def cells3(count, rng):
    """polyhedra built through the protocol (scaled / translated copies): single cells, two cells side by side (not
    sewn), two cells 3-sewn on a coinciding face, 3-unsewn again, or with some sides 2-unsewn afterwards (boundary
    darts inside a cell complex)"""
    cases = []
    pairs = gens.cell_pairs()
    for k in range(count):
        name, A, B = pairs[k % len(pairs)]
        scale = rng.choice([Fraction(1), Fraction(2), Fraction(1, 2), Fraction(3)])
        shift = tuple(Fraction(rng.randint(-4, 4), rng.choice([1, 2])) for _ in range(3))
        A, B = transform(A, scale, shift), transform(B, scale, shift)
        mode = (k // len(pairs)) % 5
        if mode == 0:
            p = gens.Poly3(A if rng.random() < 0.5 else B, 1)
            lines = [f"new 3 {p.ndarts} 0"] + p.lines(True, True, True)
            sig = "single cell"
            n = p.ndarts
        else:
            lines, a, b_, pair = gens.two_cells_lines(rng, A, B, mask=0, pa=0.0, full_default=False)
            n = a.ndarts + b_.ndarts
            sig = "two cells 3-sewn"
            if mode == 2 and pair:
                lines = lines[:-1]
                sig = "two cells apart"
            elif mode == 3 and pair:
                lines.append(f"funsew 3 {pair[0] if rng.random() < 0.5 else pair[1]}")
                sig = "two cells 3-sewn then 3-unsewn"
            elif mode == 4:
                for _ in range(rng.randint(1, 3)):
                    lines.append(f"funsew 2 {rng.randint(1, n)}")
                sig = "two cells 3-sewn, some sides 2-unsewn"
        lines += ["snap", "scene"]
        cases.append(Case(f"cell{k}-{name}", lines, oracle="scene", meta={"sig": sig, "dim": 3, "geometry": True}))
    return cases


def removed3(count, rng):
    """polyhedra whose dart blocks are separated by removed darts (front, between the two cells, last), some of the
    removed slots keeping a stale coordinate: [gap][A][gap][B][gap], every gap dart removed with `rm`; then the cells are
    3-sewn on their coinciding face (or left apart).  A removed dart must not appear in the scene and its neighbour in
    the numbering must not disappear."""
    cases = []
    pairs = gens.cell_pairs()
    k = 0
    while len(cases) < count:
        name, A, B = pairs[k % len(pairs)]
        k += 1
        g = [rng.randint(0, 2) for _ in range(3)]
        if sum(g) == 0:
            g[rng.randrange(3)] = 1
        a = gens.Poly3(A, 1 + g[0])
        b = gens.Poly3(B, 1 + g[0] + a.ndarts + g[1])
        n = g[0] + a.ndarts + g[1] + b.ndarts + g[2]
        gaps = list(range(1, 1 + g[0])) + list(range(1 + g[0] + a.ndarts, 1 + g[0] + a.ndarts + g[1])) + \
            list(range(n - g[2] + 1, n + 1))
        lines = [f"new 3 {n} 0"] + a.lines(True, True, True)
        single = rng.random() < 0.3
        if not single:
            lines += b.lines(True, True, True)
        else:
            gaps += b.darts
        for d in gaps:
            if rng.random() < 0.5:
                lines.append(f"wv {d} {gens.dy(rng, -3, 3, 2)} {gens.dy(rng, -3, 3, 2)} {gens.dy(rng, -3, 3, 2)}")
        rng.shuffle(gaps)
        lines += [f"rm {d}" for d in gaps]
        sig = "removed darts around one cell"
        if not single:
            pr = gens.glue_pairs(a, b)
            sig = "removed darts around two cells apart"
            if pr and rng.random() < 0.7:
                x, y = rng.choice(pr)
                lines.append(f"fsew 3 {x} {y}")
                sig = "removed darts around two cells 3-sewn"
        lines += ["snap", "scene"]
        cases.append(Case(f"rm3-{k}-{name}", lines, oracle="scene", meta={"sig": sig, "dim": 3, "geometry": True}))
    return cases


def straight3(rng):
    """directed: a cube one side of which carries a mid-side vertex (what inserting a vertex on an edge produces):
    two pentagonal faces with a straight corner"""
    cases = []
    p = gens.Poly3(CUBE_STRAIGHT, 1)
    lines = [f"new 3 {p.ndarts} 0"] + p.lines(True, True, True) + ["snap", "scene"]
    cases.append(Case("straight-cube", lines, oracle="scene", meta={"sig": "straight-corner-3d", "dim": 3, "geometry": True}))
    lines = ["new 3 5 0"] + [f"flink 1 {i} {i % 5 + 1}" for i in range(1, 6)] + \
        ["wv 1 0 0 0", "wv 2 1 0 0", "wv 3 2 0 0", "wv 4 2 1 1", "wv 5 0 1 1", "snap", "scene"]
    cases.append(Case("straight-pentagon", lines, oracle="scene", meta={"sig": "straight-corner-3d", "dim": 3, "geometry": True}))
    return cases


# ---------------------------------------------------------------------------------------------
# run
# ---------------------------------------------------------------------------------------------

def campaign20(cases, binary):
    """hv.campaign with `hcrender` as the implementation; the oracle sees the raw implementation lines
    (normal vectors) while the correspondence compares the canonical discrete part"""
    orig_bin, orig_path, orig_pair = hv.HCIMPL, hv.HCIMPL_PATH, hv.run_pair

    def run_pair20(cs, chunk=2000):
        res = orig_pair(cs, chunk)
        out = []
        for c, li, lm in res:
            c.meta["raw"] = li
            out.append((c, [canon(x) for x in li], [canon(x) for x in lm]))
        return out

    hv.HCIMPL, hv.HCIMPL_PATH, hv.run_pair = binary, RENDER_BIN, run_pair20
    try:
        r = hv.campaign(cases, oracle_scene)
    finally:
        hv.HCIMPL, hv.HCIMPL_PATH, hv.run_pair = orig_bin, orig_path, orig_pair
    for c in cases:
        c.meta.pop("raw", None)
    return r


def run(tier, seed):
    rng = random.Random(seed)
    COUNTS.clear()
    ok, log, binary = build_hcrender()
    if not ok:
        errs = [l for l in log.split("\n") if l.startswith("error")]
        return {"stats": {"cases": 0}, "samples": [], "notes": ["hcrender did not build: model-only run impossible"],
                "violations": [{"kind": "harness-build", "found_input": False,
                                "what": "the render harness no longer builds against /repo: " + " | ".join(errs[:5]),
                                "replay": {"theorem_or_correspondence": "cargo build of /verif/harness-render",
                                           "log": log[-3000:]}}]}
    parts = []
    q = tier == "quick"
    r = campaign20(exhaustive2(4 if q else 5, rng), binary)
    r["stats"]["exhaustive"] = True
    parts.append((f"exhaustive WF 2-maps n<={4 if q else 5}", r))
    r = campaign20(exhaustive3(4, rng, 0.1 if q else 1.0), binary)
    r["stats"]["exhaustive"] = True
    parts.append(("exhaustive WF 3-maps n<=3 + 10% of n=4" if q else "exhaustive WF 3-maps n<=4", r))
    parts.append(("glued faces 3-D", campaign20(glued3(rng, 2, 4, 1.0) + (glued3(rng, 3, 3, 1.0) if not q else []), binary)))
    parts.append(("planar meshes 2-D", campaign20(meshes2(1200 if q else 12000, rng), binary)))
    parts.append(("edit histories 2-D", campaign20(histories2(800 if q else 8000, rng), binary)))
    parts.append(("polyhedra 3-D", campaign20(cells3(175 if q else 1750, rng), binary)))
    parts.append(("polyhedra 3-D with removed darts in the numbering", campaign20(removed3(140 if q else 1400, rng), binary)))
    parts.append(("straight corners 3-D (directed)", campaign20(straight3(rng), binary)))
    res = hv.merge_results(parts)
    res["stats"]["oracle_domain"] = dict(sorted(COUNTS.items()))
    res["notes"].append("oracle domain split: " + ", ".join(f"{k}: {v}" for k, v in sorted(COUNTS.items())))
    return res


def matches(known, v):
    """D20a: 3-D FaceNormals are NaN at straight corners — only an oracle failure (model and implementation agree on
    the discrete scene) whose message is exactly of that class"""
    m = known.get("matcher", {})
    if m.get("kind") != "straight-corner-nan":
        return False
    fail = v.get("replay", {}).get("oracle_failure") or ""
    return v.get("kind") == "oracle" and fail.startswith("straight-corner-nan:")
