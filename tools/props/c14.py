"""C14 — inserting vertices on an edge subdivides it and nothing else."""
import random
from fractions import Fraction as Fr

import gens
import hv
import kern2
from hv import Case
from kern2 import Snap, fr_tok

SPEC = {
    "lean_modules": ["Honeycomb.Props.C14", "Honeycomb.Props.C14b", "Honeycomb.Props.C14c", "Honeycomb.Props.C14d", "Honeycomb.Props.C14Gen", "Honeycomb.Props.C14GenN"],
    # Gen/VertexInsertion.lean is re-translated from honeycomb-kernels/src/cell_insertion/vertices.rs and dim2/links/*.rs before every build
    "gen": ["vins", "vinsn"],
    "required_theorems": [
        # Props/C14Gen.lean: the translated single-vertex kernel (validation prefix, both arms, the written value) IS the model's
        "C14_gen_isFreeTx", "C14_gen_link_dispatch", "C14_gen_insertVertexOnEdge", "C14_gen_insertVertex_preserves_WF", "C14_gen_bound_single",
        # Props/C14GenN.lean: the translated MULTI-vertex kernel (validation prefix, the three loops by induction) IS the model's
        "C14_gen_chainFirst_step", "C14_gen_chainFirst", "C14_gen_chainSecond_step", "C14_gen_chainSecond", "C14_gen_placeVertices_step",
        "C14_gen_placeVertices", "C14_gen_insertVerticesOnEdge", "C14_gen_insertVertices_preserves_WF", "C14_gen_wrong_count",
        "C14_insertVertices_preserves_WF", "C14_insertVertex_preserves_WF",
                          "C14_error_leaves_map_unchanged", "C14_new_vertex_position",
                          "C14_insertVertices_beta_structure", "C14_new_darts_distinct_vertices",
                          "C14_new_vertex_position_full", "C14_insertVertex_beta_structure",
                          "C14_old_vertices_unchanged", "C14_old_vertices_unchanged_single",
                          "C14_old_vertices_keep_coordinates", "C14_old_vertices_keep_coordinates_single",
                          "C14_undefined_edge_iff", "C14_undefined_edge_iff_single", "C14_no_second_end_single"],
    "trusted_base": [
        "Lean 4.33 kernel; axioms propext, Classical.choice, Quot.sound only",
        "hand-written model Honeycomb/Model/Kernels/{Geom2,VertexInsertion}.lean (+ Stm, Map, Ops, Ops2) tied to /repo by the "
        "hcmodel/hcimpl correspondence run of this check",
        "Rust harness /verif/harness/hcimpl (k2.rs: protocol commands insv/insvs on CMap2<f64>) and tools/{hv,kern2,gens}.py; "
        "the oracle re-derives the specified result from the `snap` before the call, independently of the model",
        "coordinates are small dyadic rationals, on which f64 arithmetic is exact (rounding is not modelled)",
    ],
    "assumptions": [
        "spare darts are distinct in-use (not removed) darts of the map; removed darts are free in the sense of is_free and are "
        "accepted by the code (exercised in the malformed stream, correspondence only)",
        "C14_undefined_edge_iff(_single): the map is well formed and has its vertex storage (0 < a.size), the edge dart is a "
        "non-null dart of the map",
    ],
    "rule": "exhaustive: every WF 2-map with n<=3 darts (removed darts included) x every in-use dart as edge argument (two-dart, one-dart, "
            "1-free at either end, closed face, dangling) x insert_vertex_on_edge (t in {None,1/2,1/4}, both spare orders, nd2 = 0 on "
            "one-dart edges) and insert_vertices_on_edge (k in 0..3 vertices with 2k appended spare darts in natural / permuted order, "
            "null second half on one-dart edges), all vertices defined; invalid: t in {0,1,3/2,-1/4}, wrong dart counts, null / linked "
            "spare darts, undefined end points; random: (split) grids with random unsews and k in 0..4; malformed (correspondence only): "
            "removed / repeated / out-of-range spare darts, removed or null base dart, a vertex stored at the null dart. Oracle on the "
            "implementation from `snap` before/after: on ok the full beta tables equal the specified subdivision (every image of dart 0 "
            "included), the new vertices read at their vertex ids are v1+(v2-v1)t_i, every other slot unchanged, wf; on error the map is "
            "unchanged; invalid inputs are refused with the documented error kind, valid ones accepted. "
            "distinct_nontrivial = distinct implementation transcripts.",
    "not_proved": [
        "UndefinedEdge is now an exact characterisation (C14_undefined_edge_iff, C14_undefined_edge_iff_single, Props/C14d.lean: "
        "when the earlier checks pass the answer is UndefinedEdge iff the edge has no second end point or one end point has no value "
        "under its vertex id; then nothing is written). insert_vertex_on_edge on a dart with NO second end point (beta1 = beta2 = 0) "
        "is C14_no_second_end_single: the kernel reads the slot of the null dart's vertex id (slot 0); UndefinedEdge, nothing "
        "written, iff the dart's vertex or slot 0 is empty — always, unless a value was force-written at the null dart; with such a "
        "value it never answers UndefinedEdge and an Ok has executed link::<1>(nd1, NULL): beta0(0) = nd1, result NOT well formed "
        "(example exMapZ; outside the guard: needs a vertex stored at the null dart, exercised by the malformed stream). Together the "
        "three theorems leave no dart out",
    ],
}

ERR_OF = {"count": "WrongAmountDarts", "darts": "InvalidDarts", "bound": "VertexBound", "undefined": "UndefinedEdge"}
TS_POOL = [[Fr(1, 4), Fr(1, 2), Fr(3, 4)], [Fr(1, 8), Fr(3, 8), Fr(7, 8)], [Fr(1, 2), Fr(5, 8), Fr(3, 4)]]


# ---------------------------------------------------------------------------------------------
# the specification, evaluated on the snapshot taken before the call
# ---------------------------------------------------------------------------------------------

def parse_op(toks):
    if toks[0] == "insv":
        t = None if toks[4] == "-" else Fr(toks[4])
        return {"kind": "insv", "base": int(toks[1]), "darts": [int(toks[2]), int(toks[3])], "ts": [t]}
    if toks[0] == "insvs":
        k = int(toks[2])
        return {"kind": "insvs", "base": int(toks[1]), "darts": [int(x) for x in toks[3:3 + k]],
                "ts": [Fr(x) for x in toks[3 + k:]]}
    return None


def is_free(s, d):
    return s.b[0][d] == 0 and s.b[1][d] == 0 and s.b[2][d] == 0


def classify(s, op):
    """returns (outside, invalid kinds, lenient, fh, sh): `outside` = outside the property's guard (no verdict)"""
    n, base, darts, ts = s.n, op["base"], op["darts"], op["ts"]
    inv, lenient = set(), False
    if not (0 < base < n) or s.u[base] or s.a0[0] is not None:
        return True, inv, lenient, [], []   # (a point stored at the null dart is outside "embedded 2-map")
    d2 = s.b[2][base]
    if op["kind"] == "insvs":
        if len(darts) != 2 * len(ts):
            return False, {"count"}, lenient, [], []
        k = len(ts)
        fh, sh = darts[:k], darts[k:]
    else:
        fh, sh = darts[:1], darts[1:]
    used = fh + (sh if d2 != 0 else [])
    for d in used:
        if d >= n:
            return True, inv, lenient, fh, sh
        if d == 0 or not is_free(s, d):
            inv.add("darts")
        elif s.u[d]:
            return True, inv, lenient, fh, sh
    if len(set(used)) != len(used) and "darts" not in inv:
        return True, inv, lenient, fh, sh
    if d2 == 0:
        for d in sh:
            if d >= n:
                return True, inv, lenient, fh, sh
            if d != 0 and not is_free(s, d):
                lenient = True   # unused second half: the multi version refuses it, the single version ignores it
    for t in ts:
        if t is not None and (t <= 0 or t >= 1):
            inv.add("bound")
    other = s.b[1][base] or d2
    if other == 0 or kern2.coord(s, base) is None or kern2.coord(s, other) is None:
        inv.add("undefined")
    return False, inv, lenient, fh, sh


def expected_after(s, op, fh, sh):
    """specified beta tables and new vertices [(dart, vertex id, point)]"""
    base = op["base"]
    b = [list(s.b[0]), list(s.b[1]), list(s.b[2])]
    d2 = s.b[2][base]
    other = s.b[1][base] or d2
    v1, v2 = kern2.coord(s, base), kern2.coord(s, other)

    def chain(seq):
        old = b[1][seq[0]]
        for i in range(len(seq) - 1):
            b[1][seq[i]] = seq[i + 1]
            b[0][seq[i + 1]] = seq[i]
        b[1][seq[-1]] = old
        if old:
            b[0][old] = seq[-1]

    s1 = [base] + fh
    chain(s1)
    if d2:
        s2 = [d2] + sh
        chain(s2)
        k = len(fh)
        for i in range(k + 1):
            b[2][s1[i]] = s2[k - i]
            b[2][s2[k - i]] = s1[i]
    newv = []
    for i, d in enumerate(fh):
        t = op["ts"][i]
        t = Fr(1, 2) if t is None else t
        p = (v1[0] + (v2[0] - v1[0]) * t, v1[1] + (v2[1] - v1[1]) * t)
        newv.append((d, kern2.vid(b, d), p))
    return b, newv, s1


def judge(before, res, after, wfline, op):
    """list of (tag, detail) failures of the property on this call"""
    items = []
    outside, inv, lenient, fh, sh = classify(before, op)
    if not (res == "ok"):
        if before.raw != after.raw:
            items.append(("error-changed-map", f"{res!r} but the map changed"))
        if wfline != "wf true true true" and not outside:
            items.append(("wf-lost", wfline))
    if outside:
        return items
    if inv:
        want = {ERR_OF[k] for k in inv} | ({"InvalidDarts"} if lenient else set())
        if res == "ok":
            items.append(("accepted-invalid", f"invalid input ({','.join(sorted(inv))}) accepted"))
        elif not (res.startswith("err ") and res.split()[1] in want):
            items.append(("wrong-error", f"invalid input ({','.join(sorted(inv))}) answered {res!r}"))
        return items
    if res != "ok":
        if lenient and res.startswith("err InvalidDarts"):
            return items
        items.append(("refused-valid", f"valid input answered {res!r}"))
        return items
    # successful call on valid input: compare with the specified result
    eb, newv, s1 = expected_after(before, op, fh, sh)
    if after.n != before.n or after.u != before.u:
        items.append(("flags", "dart count or removal flags changed"))
        return items
    for i in range(3):
        for d in range(before.n):
            if after.b[i][d] != eb[i][d]:
                if d == 0:
                    items.append(("null-image", f"b{i}[0]={after.b[i][0]}"))
                else:
                    items.append(("beta", f"b{i}[{d}]={after.b[i][d]} specified {eb[i][d]}"))
    allowed = set()
    for d, v, p in newv:
        allowed.add(v)
        if after.a0[v] != p:
            if v != d and after.a0[d] == p:
                items.append(("vertex-slot", f"new vertex of dart {d} has id {v} but its point sits in slot {d}"))
                allowed.add(d)
            else:
                items.append(("new-vertex", f"vertex {v} of dart {d} is {after.a0[v]} specified {p}"))
    for x in range(before.n):
        if x not in allowed and after.a0[x] != before.a0[x]:
            items.append(("slot-changed", f"a0[{x}] {before.a0[x]} -> {after.a0[x]}"))
    for k, v in before.others.items():
        if after.others.get(k) != v:
            items.append(("attr-changed", k))
    # end points keep their dart sets
    base = op["base"]
    other = before.b[1][base] or before.b[2][base]
    for x in (base, other):
        if kern2.vertex_orbit(eb, x) != kern2.vertex_orbit(before.b, x):
            items.append(("end-vertex", f"vertex orbit of dart {x} changed"))
    if wfline != "wf true true true":
        items.append(("wf-lost", wfline))
    return items


def analyse(lines, li, op_idx):
    if any(x.startswith("<missing") for x in li) or len(li) < op_idx + 3:
        return [("driver", "driver died")], None, None
    op = parse_op(lines[op_idx].split())
    before, after = Snap(li[op_idx - 1]), Snap(li[op_idx + 1])
    return judge(before, li[op_idx], after, li[op_idx + 2], op), before, after


def oracle_c14(case, li):
    if case.oracle != "c14":
        return None
    items, _, _ = analyse(case.lines, li, case.meta["op_idx"])
    if not items:
        return None
    seen, out = set(), []
    for t, dsc in items:
        if (t, dsc) not in seen:
            seen.add((t, dsc))
            out.append(f"{t}: {dsc}")
    return "; ".join(out)


# ---------------------------------------------------------------------------------------------
# generators
# ---------------------------------------------------------------------------------------------

def distinct_values(rng, darts, pv=1.0):
    pts = set()
    out = []
    for d in darts:
        while True:
            p = (gens.dy(rng), gens.dy(rng))
            if p not in pts:
                pts.add(p)
                break
        if rng.random() < pv:
            out.append(f"wv {d} {p[0]} {p[1]}")
    return out


def mk_case(cid, pre, op, sig, oracle="c14"):
    lines = pre + ["snap", op, "snap", "wf"]
    return Case(cid, lines, oracle=oracle, meta={"sig": sig, "op_idx": len(pre) + 1})


def ts_tokens(ts):
    return " ".join(fr_tok(t) for t in ts)


def exhaustive(nmax, rng):
    cases = []
    cid = 0
    for n in range(1, nmax + 1):
        for (b0, b1, b2, u) in gens.wf_maps2(n):
            in_use = [d for d in range(1, n + 1) if not u[d]]
            load = gens.load_line(2, n, 0, [b0, b1, b2], u)
            vals = distinct_values(rng, range(1, n + 1))
            for base in in_use:
                two = b2[base] != 0
                # --- single insertion
                pre = [load] + vals + ["add 2"]
                a, b = n + 1, n + 2
                variants = [(a, b), (b, a)] + ([(a, 0), (b, 0)] if not two else [])
                for (x, y) in variants:
                    for t in ("-", "1/2", "1/4"):
                        cid += 1
                        cases.append(mk_case(f"ex{n}-{cid}", pre, f"insv {base} {x} {y} {t}", "insv"))
                for t in ("0", "1", "3/2", "-1/4"):
                    cid += 1
                    cases.append(mk_case(f"ex{n}-{cid}", pre, f"insv {base} {a} {b} {t}", "insv-bound"))
                # --- multiple insertion
                for k in range(0, 4):
                    pre = [load] + vals + ([f"add {2 * k}"] if k else [])
                    sp = list(range(n + 1, n + 1 + 2 * k))
                    orders = [sp]
                    if k:
                        orders.append(sp[k:] + sp[:k])          # second half has the smaller ids
                        perm = sp[:]
                        rng.shuffle(perm)
                        orders.append(perm)
                        if not two:
                            orders.append(sp[:k] + [0] * k)     # null second half on a one-dart edge
                    for o in orders:
                        for ts in (TS_POOL[0][:k], rng.choice(TS_POOL[1:])[:k]):
                            cid += 1
                            cases.append(mk_case(f"ex{n}-{cid}", pre,
                                                 f"insvs {base} {len(o)} {' '.join(map(str, o))} {ts_tokens(ts)}".rstrip(),
                                                 f"insvs{k}"))
                            if k == 0:
                                break
    return cases


def invalid(count, rng):
    """inputs the property wants refused: bounds, counts, null / linked spare darts, undefined end points"""
    cases = []
    maps = [m for n in (2, 3) for m in gens.wf_maps2(n, with_unused=False)]
    for c in range(count):
        b0, b1, b2, u = rng.choice(maps)
        n = len(b0) - 1
        base = rng.randint(1, n)
        kind = rng.choice(["bound", "count", "null", "linked", "undefined", "bound-multi"])
        pv = 0.5 if kind == "undefined" else 1.0
        load = gens.load_line(2, n, 0, [b0, b1, b2], u)
        k = rng.randint(1, 3)
        pre = [load] + distinct_values(rng, range(1, n + 1), pv=pv) + [f"add {2 * k}"]
        sp = list(range(n + 1, n + 1 + 2 * k))
        ts = rng.choice(TS_POOL)[:k]
        linked = [d for d in range(1, n + 1) if d != base and (b0[d] or b1[d] or b2[d])]
        if kind == "bound":
            op = f"insv {base} {sp[0]} {sp[1]} {rng.choice(['0', '1', '2', '-1/2', '9/8'])}"
        elif kind == "bound-multi":
            ts = ts[:]
            ts[rng.randrange(k)] = rng.choice([Fr(0), Fr(1), Fr(5, 4), Fr(-1, 8)])
            op = f"insvs {base} {2 * k} {' '.join(map(str, sp))} {ts_tokens(ts)}"
        elif kind == "count":
            m = rng.choice([x for x in range(0, 2 * k + 2) if x != 2 * k])
            dd = (sp + [sp[-1]])[:m]
            op = f"insvs {base} {m} {' '.join(map(str, dd))} {ts_tokens(ts)}".rstrip()
        elif kind == "null":
            if rng.random() < 0.5:
                op = f"insv {base} 0 {sp[0]} -"
            else:
                dd = sp[:]
                dd[rng.randrange(k)] = 0
                op = f"insvs {base} {2 * k} {' '.join(map(str, dd))} {ts_tokens(ts)}"
        elif kind == "linked" and linked:
            x = rng.choice(linked)
            if rng.random() < 0.5:
                op = f"insv {base} {x} {sp[0]} 1/2"
            else:
                dd = sp[:]
                dd[rng.randrange(2 * k)] = x
                op = f"insvs {base} {2 * k} {' '.join(map(str, dd))} {ts_tokens(ts)}"
        else:
            if rng.random() < 0.5:
                op = f"insv {base} {sp[0]} {sp[1]} 1/2"
            else:
                op = f"insvs {base} {2 * k} {' '.join(map(str, sp))} {ts_tokens(ts)}"
        cases.append(mk_case(f"inv{c}", pre, op, "invalid-" + kind))
    return cases


def grid_rows(nx, ny, split):
    """beta tables and origin point per dart of an nx x ny grid of unit squares (or of their two triangles),
    built here (not by the library's builder)"""
    cells = []   # list of polygons as lists of lattice points, counter-clockwise
    for y in range(ny):
        for x in range(nx):
            if split:
                cells.append([(x, y), (x + 1, y), (x, y + 1)])
                cells.append([(x + 1, y), (x + 1, y + 1), (x, y + 1)])
            else:
                cells.append([(x, y), (x + 1, y), (x + 1, y + 1), (x, y + 1)])
    n = sum(len(c) for c in cells)
    b0, b1, b2 = [0] * (n + 1), [0] * (n + 1), [0] * (n + 1)
    org = [None] * (n + 1)
    side = {}
    d = 1
    for c in cells:
        ds = list(range(d, d + len(c)))
        for i, x in enumerate(ds):
            b1[x] = ds[(i + 1) % len(ds)]
            b0[ds[(i + 1) % len(ds)]] = x
            org[x] = c[i]
            side[(c[i], c[(i + 1) % len(c)])] = x
        d += len(c)
    for (p, q), x in side.items():
        y = side.get((q, p))
        if y:
            b2[x] = y
    return n, [b0, b1, b2], org


def grids(count, rng):
    """(split) grids built with explicit links, random unsews (1-free / 2-free darts), one insertion"""
    cases = []
    for c in range(count):
        nx, ny, split = rng.randint(1, 3), rng.randint(1, 2), rng.random() < 0.5
        n, rows, org = grid_rows(nx, ny, split)
        pre = [gens.load_line(2, n, 0, rows, [0] * (n + 1))]
        ids = {}
        for d in range(1, n + 1):
            ids.setdefault(kern2.vid(rows, d), org[d])
        for v, p in sorted(ids.items()):
            pre.append(f"wv {v} {p[0]} {p[1]}")
        for _ in range(rng.choice([0, 0, 1, 2, 3])):
            pre.append(f"funsew {rng.choice([1, 1, 2])} {rng.randint(1, n)}")
        k = rng.randint(0, 4)
        base = rng.randint(1, n)
        if rng.random() < 0.3:
            pre.append("add 2")
            sp = [n + 1, n + 2]
            if rng.random() < 0.3:
                sp.reverse()
            op = f"insv {base} {sp[0]} {sp[1]} {rng.choice(['-', '1/2', '1/4', '7/8'])}"
        else:
            if k:
                pre.append(f"add {2 * k}")
            sp = list(range(n + 1, n + 1 + 2 * k))
            r = rng.random()
            if r < 0.2:
                rng.shuffle(sp)
            elif r < 0.35:
                sp = sp[k:] + sp[:k]
            ts = sorted(rng.sample([Fr(i, 16) for i in range(1, 16)], k))
            op = f"insvs {base} {2 * k} {' '.join(map(str, sp))} {ts_tokens(ts)}".rstrip()
        cases.append(mk_case(f"g{c}", pre, op, "grid"))
    return cases


def malformed(count, rng):
    """outside the guard of the property: correspondence only"""
    cases = []
    maps = [m for n in (2, 3) for m in gens.wf_maps2(n)]
    for c in range(count):
        b0, b1, b2, u = rng.choice(maps)
        n = len(b0) - 1
        mask = rng.choice([0, 7])
        pre = [gens.load_line(2, n, mask, [b0, b1, b2], u)] + gens.value_lines(rng, n, mask, pv=0.8, pa=0.5)
        if rng.random() < 0.3:
            pre.append(f"wv 0 {gens.dy(rng)} {gens.dy(rng)}")
        k = rng.randint(0, 3)
        pre.append(f"add {2 * k + 1}")
        top = n + 2 * k + 2
        pick = lambda: rng.choice([rng.randint(0, top), rng.randint(n + 1, top - 1)])  # noqa: E731
        base = rng.randint(0, n + 1)
        if rng.random() < 0.4:
            op = f"insv {base} {pick()} {pick()} {rng.choice(['-', '1/2', '0', '3/4'])}"
        else:
            m = rng.choice([2 * k, 2 * k, 2 * k, 2 * k + 1])
            ds = [pick() for _ in range(m)]
            ts = [rng.choice([Fr(1, 4), Fr(1, 2), Fr(3, 4), Fr(1), Fr(0)]) for _ in range(k)]
            op = f"insvs {base} {m} {' '.join(map(str, ds))} {ts_tokens(ts)}".rstrip()
        cases.append(mk_case(f"mal{c}", pre, op, "malformed", oracle="c14"))
    return cases


def blocks(count, rng):
    """the kernels inside `tx … endtx` with other calls before them that do not touch the spare darts
    (the D3 class — spare darts edited in the same transaction — belongs to C08): correspondence + WF"""
    cases = []
    maps = [m for n in (2, 3) for m in gens.wf_maps2(n, with_unused=False)]
    for c in range(count):
        b0, b1, b2, u = rng.choice(maps)
        n = len(b0) - 1
        pre = [gens.load_line(2, n, 0, [b0, b1, b2], u)] + distinct_values(rng, range(1, n + 1))
        k = rng.randint(1, 2)
        pre.append(f"add {2 * k + 2}")
        sp = list(range(n + 1, n + 3 + 2 * k))
        lines = pre + ["tx"]
        for _ in range(rng.randint(0, 2)):
            o = gens.random_op2(rng, n, list(range(1, n + 1)), force_p=0.0)
            while o.split()[0] in ("rm", "ins", "add"):
                o = gens.random_op2(rng, n, list(range(1, n + 1)), force_p=0.0)
            lines.append(o)
        base = rng.randint(1, n)
        lines.append(f"insvs {base} {2 * k} {' '.join(map(str, sp[:2 * k]))} {ts_tokens(TS_POOL[0][:k])}")
        lines.append(f"insv {rng.randint(1, n)} {sp[-2]} {sp[-1]} -")
        lines += ["endtx", "snap", "wf"]
        cases.append(Case(f"blk{c}", lines, oracle=None, meta={"sig": "tx-block"}))
    return cases


VALIDATION_ERRORS = ("InvalidDarts", "UndefinedEdge", "VertexBound", "WrongAmountDarts")


def swallowed(count, rng):
    """the inputs of `invalid` inside `txi … endtx`: the caller swallows the refusal and commits.  A VALIDATION error must have
    been returned before any write, so the committed map equals the map before the block"""
    cases = []
    for c in invalid(count, rng):
        i = c.meta["op_idx"]
        pre, op = c.lines[:i - 1], c.lines[i]
        lines = pre + ["snap", "txi", op, "endtx", "snap", "wf"]
        cases.append(Case("sw" + c.cid, lines, oracle="c14sw", meta={"sig": "swallowed-" + c.meta["sig"], "i": len(pre)}))
    return cases


def oracle_swallowed(case, li):
    if any(x.startswith("<missing") for x in li):
        return "driver died"
    i = case.meta["i"]
    s0, tx, s1, wf = li[i], li[i + 3], li[i + 4], li[i + 5]
    if tx.startswith("tx ok err ") and tx.split()[3] in VALIDATION_ERRORS and s0 != s1:
        return f"the call was refused with the validation error {tx[6:]!r} but had already written: the committed map differs from the map before the block"
    if wf != "wf true true true" and tx.startswith("tx ok err "):
        return f"well-formedness lost after a swallowed refusal {tx[6:]!r}: {wf}"
    return None


# ---------------------------------------------------------------------------------------------

def run(tier, seed):
    rng = random.Random(seed)
    parts = []
    parts.append(("refusals swallowed by the caller's transaction (txi): validation errors come before any write",
                  hv.campaign(swallowed(3000 if tier == "quick" else 40000, rng), oracle_swallowed, max_report=50)))
    if tier == "quick":
        r1 = hv.campaign(exhaustive(3, rng), oracle_c14, max_report=200)
        r1["stats"]["exhaustive"] = True
        parts.append(("exhaustive n<=3, every edge, k<=3", r1))
        parts.append(("invalid inputs", hv.campaign(invalid(4000, rng), oracle_c14, max_report=50)))
        parts.append(("grids and split grids with random unsews", hv.campaign(grids(4000, rng), oracle_c14, max_report=50)))
        parts.append(("malformed (outside the guard)", hv.campaign(malformed(4000, rng), oracle_c14, max_report=50, advisory=True)))
        parts.append(("inside tx blocks", hv.campaign(blocks(2000, rng), None)))
    else:
        r1 = hv.campaign(exhaustive(3, rng), oracle_c14, max_report=200)
        r1["stats"]["exhaustive"] = True
        parts.append(("exhaustive n<=3, every edge, k<=3", r1))
        parts.append(("invalid inputs", hv.campaign(invalid(60000, rng), oracle_c14, max_report=50)))
        parts.append(("grids and split grids with random unsews", hv.campaign(grids(60000, rng), oracle_c14, max_report=50)))
        parts.append(("malformed (outside the guard)", hv.campaign(malformed(60000, rng), oracle_c14, max_report=50, advisory=True)))
        parts.append(("inside tx blocks", hv.campaign(blocks(30000, rng), None)))
    res = hv.merge_results(parts)
    res["violations"] = dedupe(res["violations"])
    return res


def signatures(v):
    """finding signatures of an oracle violation, re-derived from the raw transcript of the replay"""
    rp = v.get("replay", {})
    lines, li = rp.get("input_lines", []), rp.get("impl_output", [])
    try:
        op_idx = max(i for i, ln in enumerate(lines) if ln.split()[0] in ("insv", "insvs"))
        items, before, after = analyse(lines, li, op_idx)
    except Exception:
        return {"unknown"}
    if not items or before is None:
        return {"unknown"}
    op = parse_op(lines[op_idx].split())
    outside, inv, lenient, fh, sh = classify(before, op)
    sigs = set()
    tags = {t for t, _ in items}
    base = op["base"]
    if "null-image" in tags or "wf-lost" in tags:
        # D8: insert_vertices_on_edge, two-dart edge, base dart 1-free, call Ok; the ONLY beta difference from
        # the specified result is beta0(0) = last dart of the first side, and well-formedness is lost by it
        last = ([base] + fh)[-1]
        ok = (op["kind"] == "insvs" and li[op_idx] == "ok" and not outside and not inv
              and before.b[2][base] != 0 and before.b[1][base] == 0
              and after.b[0][0] == last and after.b[1][0] == 0 and after.b[2][0] == 0
              and {"null-image", "wf-lost"} <= tags and "beta" not in tags
              and li[op_idx + 2] == "wf false true true")
        sigs.add("null-image-base-1-free" if ok else "unknown")
    if "vertex-slot" in tags:
        # insert_vertices_on_edge writes the point under the dart id new_d, not under the vertex id: visible exactly
        # when the second-half partner of a first-half dart has the smaller id
        k = len(fh)
        ok = (op["kind"] == "insvs" and li[op_idx] == "ok" and before.b[2][base] != 0
              and any(sh[k - 1 - i] < fh[i] for i in range(k)) and "new-vertex" not in tags and "slot-changed" not in tags)
        sigs.add("vertex-written-at-dart-id" if ok else "unknown")
    if tags - {"null-image", "wf-lost", "vertex-slot"}:
        sigs.add("unknown")
    return sigs


def dedupe(violations):
    """keep one violation per (kind, signature set) so that the report stays readable"""
    seen, out = set(), []
    for v in violations:
        key = (v["kind"], tuple(sorted(signatures(v))) if v["kind"] == "oracle" else v["what"][:80])
        if key in seen and v["kind"] == "oracle" and "unknown" not in key[1]:
            continue
        seen.add(key)
        out.append(v)
    return out


def matches(known, v):
    """No finding of C14 is open: D8 (/repo e966dbe) and D11 (/repo 54572f5) are repaired, so every oracle failure is a
    VIOLATION.  `signatures` is kept only to group identical failures in the report."""
    return False
