"""C12 — grid builders produce the advertised regular mesh for every size.

Tie: exhaustive box of sizes x the three descriptor forms x split/plain x several geometries; full
`snap` (+ `wf`, `iterv`, `iterf`/`itervol`, two orbits) compared between hcmodel and hcimpl.
Oracle: the property itself, evaluated here in Python on the implementation's `snap` line.
"""
import concurrent.futures as cf
import itertools
import random
from fractions import Fraction as Fr

import hv
from hv import Case

SPEC = {
    "lean_modules": ["Honeycomb.Props.C12", "Honeycomb.Props.C12b", "Honeycomb.Props.C12c", "Honeycomb.Props.C12d", "Honeycomb.Props.C12Gen"],
    "gen": ["grid", "griddesc"],
    "required_theorems": [
        # Props/C12Gen.lean: the descriptor logic of builder/grid.rs (arms, formulas, checks, messages) as translated IS the model's parse2 / parse3
        "gdBad_eq", "C12_gen_arms", "C12_gen_checks", "C12_gen_parse2", "C12_gen_parse3", "C12_gen_parse2_forms_agree", "C12_gen_parse3_forms_agree", "C12_gen_parse2_refusals",
        "C12_grid2_WF", "C12_grid2_beta2", "C12_grid2_darts", "C12_grid2_faces", "C12_grid2_corners",
        "C12_grid2_vertices", "C12_grid2_area",
        "C12_split2_WF", "C12_split2_faces", "C12_split2_darts", "C12_split2_corners", "C12_split2_vertices",
        "C12_split2_area",
        "C12_hex3_WF", "C12_hex3_cells", "C12_hex3_darts",
        "C12_parse2_error_iff", "C12_parse3_error_iff", "C12_parse2_forms_agree", "C12_parse3_forms_agree",
        "C12_build2_forms_agree", "C12_build3_forms_agree",
        "C12_build2_ok", "C12_build2_total", "C12_build2_split_total",
        "C12_build2_zero_count_empty", "C12_build2_zero_count_forms", "C12_build3_zero_count_empty",
        "C12_hex3_vertices", "C12_hex3_corners", "C12_hex3_slots", "C12_hex3_volumes",
        "C12_grid2_counts", "C12_split2_counts", "C12_hex3_counts",
        "C12_build2_split_ok", "C12_build2_split_total_wf", "C12_build3_ok", "C12_build3_total",
        "C12_ceil_count_of_bounds", "C12_ceil_count_rounding", "C12_ceil_count_rounding_all", "C12_ceil_count_exact",
        "C12_ceil_count_f64", "C12_ceil_count_f64_exact", "C12_ceil_count_f64_multiple", "C12_ceil_count_f64_one_short",
        "C12_hex3_faces", "C12_hex3_edges", "C12_hex3_counts_all", "C12_hex3_euler", "C12_build3_split_unimplemented",
    ],
    "trusted_base": [
        "Lean 4.33 kernel; axioms propext, Classical.choice, Quot.sound only",
        "tools/gen_lean.py (regex-level translator of the beta tables, hex offset arms, 2-D placement blocks and zero-count guards of "
        "grid.rs into Honeycomb/Gen/GridTables.lean; regenerated on every run, fails on unrecognised shapes)",
        "hand-written model Honeycomb/Model/Grid.lean (dart -> table row decoding, placement loops, parse_2d/parse_3d) "
        "tied to /repo by the hcmodel/hcimpl correspondence run over the exhaustive size box",
        "Rust harness /verif/harness/hcimpl (grid.rs, s2.rs, s3.rs) and tools/*.py (this oracle)",
    ],
    "assumptions": [
        "coordinates are exact: theorems over Rat; the tie uses small dyadic numbers so that every f64 operation of the "
        "builder is exact (rounding is not modelled; the `ceil` form on non-representable quotients is outside)",
        "fewer than 2^32 darts (no u32 wrap-around is modelled); NaN/infinite descriptor values are outside the protocol",
    ],
    "rule": "exhaustive box of cell counts (quick: [0..6]^2 and [0..3]^3, thorough: [0..24]^2 and [0..6]^3) x forms "
            "{n_cells+len_per_cell, n_cells+lens, len_per_cell+lens} x split/plain (2-D) x geometries (unit, shifted "
            "non-square dyadic cells); plus ceil cases (lens not a multiple), malformed descriptors (missing fields, "
            "non-positive lengths at every position) and zero counts. distinct_nontrivial = distinct implementation "
            "transcripts.",
    "not_proved": [],   # filled below
}

SPEC["not_proved"] = [
    "floating point: the coordinate statements are over Rat; the tie uses dyadic values for which every f64 operation "
    "of the builders is exact. The count of the form len_per_cell + lens IS now proved for binary64 (Props/C12c.lean, on "
    "the rounding model rnd 53 of Lemmas/Rounding.lean: round-to-nearest-even, unbounded exponent, tied to the hardware "
    "by the C19 flop stream): C12_ceil_count_f64 - count = ceil(L/l) or ceil(L/l)-1, exact iff rnd(L/l) > ceil(L/l)-1, in "
    "particular when L/l is representable or L = n*l exactly (C12_ceil_count_f64_exact/_multiple); "
    "C12_ceil_count_f64_one_short exhibits floats (l = 1+2^-52, L = 3+2^-50) where the real builder builds 3 cells "
    "while ceil(L/l) = 4 (reproduced on the implementation; not an exact multiple, so outside the property's clause). "
    "Not modelled: overflow / subnormal quotients, NaN and infinite descriptor values",
    "tetrahedral split grid (3-D split_cells): not in the model because it is not in the code - it is "
    "unimplemented!() in /repo (C12_build3_split_unimplemented proves the mirrored panic); there is no mesh to state "
    "counts about. (The 3-D hex edge / face counts that used to be listed here are proved: C12_hex3_counts_all.)",
    "u32/usize wrap-around for grids with 2^32 darts or more is not modelled",
]


# ---------------------------------------------------------------------------------------------
# formatting
# ---------------------------------------------------------------------------------------------

def rs(q):
    q = Fr(q)
    return str(q.numerator) if q.denominator == 1 else f"{q.numerator}/{q.denominator}"


def grid_line(dim, split, mask, form, origin, n=None, lpc=None, lens=None):
    parts = [f"grid {dim} {split} {mask} {form}"] + [rs(x) for x in origin]
    if n is not None:
        parts += [str(x) for x in n]
    if lpc is not None:
        parts += [rs(x) for x in lpc]
    if lens is not None:
        parts += [rs(x) for x in lens]
    return " ".join(parts)


def obs_lines(dim, expect="mesh"):
    if expect == "zero":
        return ["snap"]       # nothing that could panic on an empty map
    if expect != "mesh":
        return []
    return ["snap", "wf", "iterv", "iterf"] + (["itervol"] if dim == 3 else []) + ["orbit v 1", "orbit f 1"]


# ---------------------------------------------------------------------------------------------
# snapshot parsing
# ---------------------------------------------------------------------------------------------

def parse_pt(tok):
    if tok == "none":
        return None
    return tuple(Fr(x) for x in tok[1:-1].split(","))


def parse_snap(line):
    parts = [p.strip() for p in line.split("|")]
    n = int(parts[0].split("n=")[1])
    d = {"n": n, "b": {}, "a": {}}
    for p in parts[1:]:
        key, _, rest = p.partition(":")
        toks = rest.split()
        if key.startswith("b"):
            d["b"][int(key[1:])] = [int(x) for x in toks]
        elif key == "u":
            d["u"] = [int(x) for x in toks]
        elif key == "a0":
            d["a0"] = [parse_pt(t) for t in toks]
        else:
            d["a"][key] = toks
    return d


class UF:
    def __init__(self, n):
        self.p = list(range(n))

    def find(self, x):
        while self.p[x] != x:
            self.p[x] = self.p[self.p[x]]
            x = self.p[x]
        return x

    def union(self, a, b):
        a, b = self.find(a), self.find(b)
        if a != b:
            if a < b:
                self.p[b] = a
            else:
                self.p[a] = b


def wf_check(s, nb):
    """the structural invariants of C01/C02 on a snapshot"""
    n = s["n"]
    b = s["b"]
    out = []
    for i in range(nb):
        if len(b[i]) != n:
            return [f"beta row {i} has length {len(b[i])} != {n}"]
        if b[i][0] != 0:
            out.append(f"beta{i}(0) = {b[i][0]}")
        if any(not (0 <= x < n) for x in b[i]):
            return [f"beta{i} has an image out of range"]
    for d in range(1, n):
        if b[1][d] != 0 and b[0][b[1][d]] != d:
            out.append(f"beta0(beta1({d})) != {d}")
        if b[0][d] != 0 and b[1][b[0][d]] != d:
            out.append(f"beta1(beta0({d})) != {d}")
        for i in range(2, nb):
            e = b[i][d]
            if e != 0 and (b[i][e] != d or e == d):
                out.append(f"beta{i} is not a fixed-point-free involution at {d}")
        if s["u"][d]:
            out.append(f"dart {d} is marked unused")
    return out[:4]


# ---------------------------------------------------------------------------------------------
# the property oracle, 2-D
# ---------------------------------------------------------------------------------------------

def check_grid2(s, ox, oy, nx, ny, lx, ly, split):
    """returns a list of failure strings (empty = the snapshot is the advertised mesh)"""
    k = 6 if split else 4
    n = s["n"]
    if n != k * nx * ny + 1:
        return [f"{n - 1} darts, expected {k * nx * ny}"]
    f = wf_check(s, 3)
    if f:
        return ["not well-formed: " + ", ".join(f)]
    b0, b1, b2 = s["b"][0], s["b"][1], s["b"][2]
    a0 = s["a0"]
    out = []
    if any(b1[d] == 0 for d in range(1, n)):
        return ["a dart is 1-free (open face)"]
    # vertex orbits
    uf = UF(n)
    for d in range(1, n):
        if b2[d]:
            uf.union(d, b1[b2[d]])
        if b0[d] and b2[b0[d]]:
            uf.union(d, b2[b0[d]])
    vids = sorted({uf.find(d) for d in range(1, n)})
    if len(vids) != (nx + 1) * (ny + 1):
        out.append(f"{len(vids)} vertices, expected {(nx + 1) * (ny + 1)}")
    pos = {}
    for v in vids:
        if a0[v] is None:
            out.append(f"vertex {v} has no coordinates")
            return out
        pos[v] = a0[v]
    lattice = {(ox + i * lx, oy + j * ly, Fr(0)) for i in range(nx + 1) for j in range(ny + 1)}
    got = list(pos.values())
    if set(got) != lattice or len(set(got)) != len(got):
        out.append("vertex coordinates are not exactly the lattice points origin + (i*lx, j*ly), each once")
        return out
    P = [None] * n
    for d in range(1, n):
        P[d] = pos[uf.find(d)]
    # faces
    seen = [False] * n
    cells = {}
    nfaces = 0
    sides = 3 if split else 4
    area = lx * ly / (2 if split else 1)
    for d in range(1, n):
        if seen[d]:
            continue
        cyc = []
        e = d
        while not seen[e]:
            seen[e] = True
            cyc.append(e)
            e = b1[e]
        nfaces += 1
        if len(cyc) != sides:
            out.append(f"face of dart {d} has {len(cyc)} sides")
            continue
        pts = [P[e] for e in cyc]
        a2 = sum(pts[i][0] * pts[(i + 1) % sides][1] - pts[(i + 1) % sides][0] * pts[i][1] for i in range(sides))
        if a2 != 2 * area:
            out.append(f"face of dart {d} has signed area {a2 / 2}, expected {area} (counter-clockwise)")
        i = (min(p[0] for p in pts) - ox) / lx
        j = (min(p[1] for p in pts) - oy) / ly
        corners = {(ox + (i + a) * lx, oy + (j + c) * ly, Fr(0)) for a in (0, 1) for c in (0, 1)}
        if len(set(pts)) != sides or not set(pts) <= corners:
            out.append(f"face of dart {d} is not spanned by the corners of one cell")
        cells.setdefault((i, j), []).append(frozenset(pts))
    if nfaces != (2 if split else 1) * nx * ny:
        out.append(f"{nfaces} faces, expected {(2 if split else 1) * nx * ny}")
    per = 2 if split else 1
    if sorted(cells) != sorted((Fr(i), Fr(j)) for i in range(nx) for j in range(ny)) or \
            any(len(v) != per or len(set(v)) != per for v in cells.values()):
        out.append("faces are not in bijection with the cells" + (" (two distinct triangles each)" if split else ""))
    # gluing / boundary
    x0, x1, y0, y1 = ox, ox + nx * lx, oy, oy + ny * ly
    for d in range(1, n):
        p, q = P[d], P[b1[d]]
        e = b2[d]
        mid = ((p[0] + q[0]) / 2, (p[1] + q[1]) / 2)
        interior = x0 < mid[0] < x1 and y0 < mid[1] < y1
        if e:
            if not (P[e] == q and P[b1[e]] == p):
                out.append(f"dart {d} is glued to {e} but they do not run the same side in opposite directions")
            if not interior:
                out.append(f"dart {d} on the outer boundary is glued")
        elif interior:
            out.append(f"interior side of dart {d} is not glued")
        if len(out) > 6:
            break
    return out[:6]


# ---------------------------------------------------------------------------------------------
# the property oracle, 3-D
# ---------------------------------------------------------------------------------------------

def check_grid3(s, o, cnt, ln):
    nx, ny, nz = cnt
    n = s["n"]
    if n != 24 * nx * ny * nz + 1:
        return [f"{n - 1} darts, expected {24 * nx * ny * nz}"]
    f = wf_check(s, 4)
    if f:
        return ["not well-formed: " + ", ".join(f)]
    b0, b1, b2, b3 = (s["b"][i] for i in range(4))
    a0 = s["a0"]
    out = []
    if any(b1[d] == 0 or b2[d] == 0 for d in range(1, n)):
        return ["a dart is 1-free or 2-free (open volume)"]
    # mirror condition of C02
    for d in range(1, n):
        if b3[d] and b3[b1[d]] and b1[b3[b1[d]]] != b3[d]:
            out.append(f"3-gluing is not mirrored at dart {d}")
            break
    vol = UF(n)
    for d in range(1, n):
        vol.union(d, b1[d])
        vol.union(d, b2[d])
    vols = {}
    for d in range(1, n):
        vols.setdefault(vol.find(d), []).append(d)
    if len(vols) != nx * ny * nz:
        out.append(f"{len(vols)} volumes, expected {nx * ny * nz}")
    uf = UF(n)
    for d in range(1, n):
        for e in (b1[b3[d]] if b3[d] else 0, b3[b2[d]], b1[b2[d]],
                  b3[b0[d]] if b0[d] else 0, b2[b0[d]] if b0[d] else 0):
            if e:
                uf.union(d, e)
    vids = sorted({uf.find(d) for d in range(1, n)})
    nv = (nx + 1) * (ny + 1) * (nz + 1)
    if len(vids) != nv:
        out.append(f"{len(vids)} vertices, expected {nv}")
    pos = {}
    for v in vids:
        if a0[v] is None:
            out.append(f"vertex {v} has no coordinates")
            return out
        pos[v] = a0[v]
    lattice = {(o[0] + i * ln[0], o[1] + j * ln[1], o[2] + k * ln[2])
               for i in range(nx + 1) for j in range(ny + 1) for k in range(nz + 1)}
    got = list(pos.values())
    if set(got) != lattice or len(set(got)) != len(got):
        out.append("vertex coordinates are not exactly the lattice points, each once")
        return out
    P = [None] * n
    for d in range(1, n):
        P[d] = pos[uf.find(d)]
    lo = o
    hi = (o[0] + nx * ln[0], o[1] + ny * ln[1], o[2] + nz * ln[2])
    cells = set()
    for v, ds in vols.items():
        if len(ds) != 24:
            out.append(f"volume of dart {v} has {len(ds)} darts")
            continue
        pts = {P[d] for d in ds}
        idx = tuple((min(p[a] for p in pts) - o[a]) / ln[a] for a in range(3))
        corners = {tuple(o[a] + (idx[a] + e[a]) * ln[a] for a in range(3)) for e in itertools.product((0, 1), repeat=3)}
        if pts != corners:
            out.append(f"volume of dart {v} is not spanned by the 8 corners of one cell")
        cells.add(idx)
    if cells != {(Fr(i), Fr(j), Fr(k)) for i in range(nx) for j in range(ny) for k in range(nz)} or len(cells) != len(vols):
        out.append("volumes are not in bijection with the cells")
    seen = [False] * n
    for d in range(1, n):
        # 2-gluing inside the volume: same edge, opposite direction
        e = b2[d]
        if not (P[e] == P[b1[d]] and P[b1[e]] == P[d]):
            out.append(f"beta2 of dart {d} does not run the same edge in the opposite direction")
        if not seen[d]:
            cyc = []
            e = d
            while not seen[e]:
                seen[e] = True
                cyc.append(e)
                e = b1[e]
            pts = [P[e] for e in cyc]
            const = [a for a in range(3) if len({p[a] for p in pts}) == 1]
            if len(cyc) != 4 or len(set(pts)) != 4 or len(const) != 1:
                out.append(f"face of dart {d} is not a quadrilateral side of a cell")
            else:
                a = const[0]
                interior = lo[a] < pts[0][a] < hi[a]
                glued = [b3[e] != 0 for e in cyc]
                if any(glued) != all(glued):
                    out.append(f"face of dart {d} is partially 3-glued")
                elif all(glued) != interior:
                    out.append(f"face of dart {d}: interior={interior} but 3-glued={all(glued)}")
        e = b3[d]
        if e:
            if not (P[e] == P[b1[d]] and P[b1[e]] == P[d]):
                out.append(f"beta3 of dart {d} does not run the same edge of the shared face in the opposite direction")
            if vol.find(e) == vol.find(d):
                out.append(f"beta3 of dart {d} stays in the same volume")
        if len(out) > 6:
            break
    return out[:6]


# ---------------------------------------------------------------------------------------------
# cases
# ---------------------------------------------------------------------------------------------
# a case = a list of blocks; block = dict(line=…, expect=…, …) followed by its observation lines

GEOMS2 = [
    ((Fr(0), Fr(0)), (Fr(1), Fr(1))),
    ((Fr(-3, 2), Fr(1, 4)), (Fr(1, 2), Fr(3, 2))),
    ((Fr(5), Fr(-2)), (Fr(3), Fr(1, 4))),
]
GEOMS3 = [
    ((Fr(0), Fr(0), Fr(0)), (Fr(1), Fr(1), Fr(1))),
    ((Fr(-1, 2), Fr(3), Fr(1, 4)), (Fr(3, 2), Fr(1, 2), Fr(2))),
]


def block(line, dim, expect, **kw):
    d = {"line": line, "dim": dim, "expect": expect}
    d.update(kw)
    return d


def case_of(cid, blocks, sig):
    # a defined session first: observations after a refused descriptor then read the same state on
    # both sides (the drivers' start-up states differ: no session vs. an empty 2-map)
    lines = ["new 2 0 0"]
    for b in blocks:
        lines.append(b["line"])
        lines += obs_lines(b["dim"], b["expect"])
    return Case(cid, lines, oracle="c12", meta={"sig": sig, "blocks": blocks})


def size_case(dim, cnt, split, geom, mask, cid):
    o, lp = geom
    lens = tuple(c * l for c, l in zip(cnt, lp))
    zero = any(c == 0 for c in cnt)
    exp = "zero" if zero else "mesh"
    common = dict(cnt=cnt, split=split, o=o, lp=lp)
    blocks = [
        block(grid_line(dim, split, mask, "ncl", o, n=cnt, lpc=lp), dim, exp, form="ncl", **common),
    ]
    if zero:
        # total lengths must still be positive for the count to be what is tested
        pos_lens = tuple(l if l > 0 else Fr(1) for l in lens)
        blocks.append(block(grid_line(dim, split, mask, "nl", o, n=cnt, lens=pos_lens), dim, exp, form="nl", **common))
    else:
        blocks.append(block(grid_line(dim, split, mask, "nl", o, n=cnt, lens=lens), dim, exp, form="nl", **common))
        blocks.append(block(grid_line(dim, split, mask, "lpl", o, lpc=lp, lens=lens), dim, exp, form="lpl", **common))
    sig = f"grid{dim}-" + ("zero-count" if zero else "mesh")
    return case_of(cid, blocks, sig)


def ceil_cases(dim, rng, count):
    """len_per_cell + lens with lens not a multiple: n = ceil(lens / len_per_cell)"""
    cases = []
    lps = [Fr(1), Fr(1, 2), Fr(2), Fr(1, 4)]
    for k in range(count):
        lp = tuple(rng.choice(lps) for _ in range(dim))
        cnt = tuple(rng.randint(1, 4 if dim == 2 else 3) for _ in range(dim))
        # lens in ((n-1)*lp, n*lp]
        lens = tuple((c - 1) * l + l * rng.choice([Fr(1, 4), Fr(1, 2), Fr(3, 4), Fr(1)]) for c, l in zip(cnt, lp))
        o = tuple(Fr(rng.randint(-8, 8), 4) for _ in range(dim))
        split = rng.randint(0, 1) if dim == 2 else 0
        b = block(grid_line(dim, split, 0, "lpl", o, lpc=lp, lens=lens), dim, "mesh", form="lpl", cnt=cnt, split=split, o=o, lp=lp)
        cases.append(case_of(f"ceil{dim}-{k}", [b], f"grid{dim}-ceil"))
    return cases


def malformed_cases(dim):
    """missing fields; non-positive lengths at every position of every form; all three fields"""
    cases = []
    o = tuple(Fr(0) for _ in range(dim))
    cnt = tuple(range(1, dim + 1))
    lp = tuple(Fr(1, 2) for _ in range(dim))
    lens = tuple(c * l for c, l in zip(cnt, lp))
    k = 0
    for form, kw in (("n", dict(n=cnt)), ("cl", dict(lpc=lp)), ("l", dict(lens=lens)), ("none", {})):
        for split in ((0, 1) if dim == 2 else (0,)):
            k += 1
            cases.append(case_of(f"miss{dim}-{k}", [block(grid_line(dim, split, 0, form, o, **kw), dim, "err-missing")], f"grid{dim}-missing"))
    for bad in (Fr(0), Fr(-1), Fr(-1, 4)):
        for pos in range(dim):
            def sub(t):
                return tuple(bad if i == pos else x for i, x in enumerate(t))
            variants = [
                ("ncl", dict(n=cnt, lpc=sub(lp))),
                ("nl", dict(n=cnt, lens=sub(lens))),
                ("lpl", dict(lpc=sub(lp), lens=lens)),
                ("lpl", dict(lpc=lp, lens=sub(lens))),
                ("all", dict(n=cnt, lpc=sub(lp), lens=lens)),
            ]
            for form, kw in variants:
                k += 1
                cases.append(case_of(f"bad{dim}-{k}", [block(grid_line(dim, 0, 0, form, o, **kw), dim, "err-invalid")], f"grid{dim}-invalid"))
    # several bad values at once: still an error
    k += 1
    cases.append(case_of(f"bad{dim}-{k}", [block(grid_line(dim, 0, 0, "lpl", o, lpc=tuple(-x for x in lp), lens=tuple(-x for x in lens)), dim, "err-invalid")], f"grid{dim}-invalid"))
    # all three fields: the total lengths are ignored
    b1 = block(grid_line(dim, 0, 0, "all", o, n=cnt, lpc=lp, lens=tuple(7 * x for x in lens)), dim, "mesh", form="all", cnt=cnt, split=0, o=o, lp=lp)
    b2 = block(grid_line(dim, 0, 0, "ncl", o, n=cnt, lpc=lp), dim, "mesh", form="ncl", cnt=cnt, split=0, o=o, lp=lp)
    cases.append(case_of(f"all{dim}", [b1, b2], f"grid{dim}-mesh"))
    # zero / negative total length where the count would be zero: must be an error
    cases.append(case_of(f"zerolen{dim}", [block(grid_line(dim, 0, 0, "lpl", o, lpc=lp, lens=tuple(Fr(0) for _ in lp)), dim, "err-invalid")], f"grid{dim}-invalid"))
    if dim == 3:
        # split 3-D grids are `unimplemented!()`: correspondence only
        cases.append(Case("tet3", ["new 2 0 0", grid_line(3, 1, 0, "ncl", o, n=cnt, lpc=lp), grid_line(3, 1, 0, "ncl", o, n=cnt, lpc=tuple(-x for x in lp))],
                          oracle=None, meta={"sig": "grid3-split-unimplemented"}))
    return cases


def box_cases(tier, rng):
    cases = []
    m2 = 6 if tier == "quick" else 24
    m3 = 3 if tier == "quick" else 6
    cid = 0
    for nx in range(m2 + 1):
        for ny in range(m2 + 1):
            for split in (0, 1):
                geoms = GEOMS2 if tier == "quick" or max(nx, ny) <= 8 else [GEOMS2[(nx + ny + split) % 3]]
                for g, geom in enumerate(geoms):
                    if (nx == 0 or ny == 0) and g > 0:
                        continue
                    cid += 1
                    mask = 7 if (nx + 2 * ny + g) % 5 == 0 else 0
                    cases.append(size_case(2, (nx, ny), split, geom, mask, f"g2-{nx}x{ny}-s{split}-g{g}"))
    for nx in range(m3 + 1):
        for ny in range(m3 + 1):
            for nz in range(m3 + 1):
                geoms = GEOMS3 if max(nx, ny, nz) <= 3 else [GEOMS3[(nx + ny + nz) % 2]]
                for g, geom in enumerate(geoms):
                    if 0 in (nx, ny, nz) and g > 0:
                        continue
                    mask = 15 if (nx + ny + nz + g) % 4 == 0 else 0
                    cases.append(size_case(3, (nx, ny, nz), 0, geom, mask, f"g3-{nx}x{ny}x{nz}-g{g}"))
    return cases


# ---------------------------------------------------------------------------------------------
# oracle over a case
# ---------------------------------------------------------------------------------------------

def oracle(case, li):
    if case.oracle != "c12":
        return None
    if any(ln.startswith("<missing") for ln in li):
        return "driver-died: " + li[0]
    fails = []
    at = 1   # after `new 2 0 0`
    snaps = []
    for b in case.meta["blocks"]:
        dim = b["dim"]
        res = li[at] if at < len(li) else "<end>"
        nobs = len(obs_lines(dim, b["expect"]))
        obs = li[at + 1: at + 1 + nobs]
        at += 1 + nobs
        tag = f"{b['line']!r}"
        exp = b["expect"]
        if exp == "err-missing":
            if res != "err MissingGridParameters":
                fails.append(f"missing-parameters-not-reported: {tag} -> {res}")
            continue
        if exp == "err-invalid":
            if not res.startswith("err InvalidGridParameters"):
                fails.append(f"non-positive-length-not-reported: {tag} -> {res}")
            continue
        if exp == "zero":
            if res == "panic":
                fails.append(f"zero-count-panic: dim={dim} n_cells={list(b['cnt'])} form={b['form']} split={b['split']} {tag} -> panic")
            elif res.startswith("err "):
                pass
            elif res == "ok":
                s = parse_snap(obs[0])
                if s["n"] != 1:
                    fails.append(f"zero-count-nonempty: {tag} -> map with {s['n'] - 1} darts")
            else:
                fails.append(f"zero-count-outcome: {tag} -> {res}")
            continue
        # exp == "mesh"
        if res != "ok":
            fails.append(f"valid-descriptor-refused: {tag} -> {res}")
            continue
        s = parse_snap(obs[0])
        if dim == 2:
            nx, ny = b["cnt"]
            f = check_grid2(s, b["o"][0], b["o"][1], nx, ny, b["lp"][0], b["lp"][1], b["split"])
            nf = (2 if b["split"] else 1) * nx * ny
            nv = (nx + 1) * (ny + 1)
            if obs[1] != "wf true true true":
                f.append(f"harness wf: {obs[1]}")
            if len(obs[2].split()) - 1 != nv:
                f.append(f"iter_vertices yields {len(obs[2].split()) - 1} ids, expected {nv}")
            if len(obs[3].split()) - 1 != nf:
                f.append(f"iter_faces yields {len(obs[3].split()) - 1} ids, expected {nf}")
        else:
            f = check_grid3(s, b["o"], b["cnt"], b["lp"])
            nx, ny, nz = b["cnt"]
            if obs[1] != "wf true true true":
                f.append(f"harness wf: {obs[1]}")
            if len(obs[2].split()) - 1 != (nx + 1) * (ny + 1) * (nz + 1):
                f.append(f"iter_vertices yields {len(obs[2].split()) - 1} ids")
            if len(obs[4].split()) - 1 != nx * ny * nz:
                f.append(f"iter_volumes yields {len(obs[4].split()) - 1} ids, expected {nx * ny * nz}")
        for x in f:
            fails.append(f"mesh: {tag}: {x}")
        snaps.append((b.get("form"), obs[0]))
    if len({s for _, s in snaps}) > 1:
        fails.append("forms-differ: the descriptor forms " + "/".join(str(f) for f, _ in snaps) + " give different maps")
    return "; ".join(fails[:8]) if fails else None


# ---------------------------------------------------------------------------------------------
# run
# ---------------------------------------------------------------------------------------------

def par_campaign(cases, orc, parts=8):
    """hv.campaign on slices in parallel (the big grids dominate; one driver pair per slice)"""
    if len(cases) < 4 * parts:
        return hv.campaign(cases, orc)
    # interleave so that every slice gets small and large grids
    slices = [cases[i::parts] for i in range(parts)]
    with cf.ThreadPoolExecutor(parts) as ex:
        rs_ = list(ex.map(lambda c: hv.campaign(c, orc), slices))
    merged = hv.merge_results([(f"slice{i}", r) for i, r in enumerate(rs_)])
    merged["stats"].pop("streams", None)
    return merged


def run(tier, seed):
    rng = random.Random(seed)
    parts = []
    box = box_cases(tier, rng)
    r1 = par_campaign(box, oracle)
    r1["stats"]["exhaustive"] = True
    parts.append((f"size box ({tier})", r1))
    cc = ceil_cases(2, rng, 60 if tier == "quick" else 600) + ceil_cases(3, rng, 30 if tier == "quick" else 200)
    parts.append(("ceil form", par_campaign(cc, oracle)))
    parts.append(("malformed descriptors", hv.campaign(malformed_cases(2) + malformed_cases(3), oracle)))
    return hv.merge_results(parts)


# ---------------------------------------------------------------------------------------------
# known findings
# ---------------------------------------------------------------------------------------------

def matches(known, v):
    """No failure mode of C12 is a listed finding (D6, the 2-D zero-count panic, was repaired in /repo
    9dd602d): a panic on a zero count is a VIOLATION again."""
    return False
