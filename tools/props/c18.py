"""C18 — dart allocation hands out fresh, blank, addressable darts."""
import random

import gens
import hv
from hv import Case

SPEC = {
    "lean_modules": ["Honeycomb.Props.C18", "Honeycomb.Props.C18Gen", "Honeycomb.Props.C18b"],
    # Gen/Alloc.lean is re-translated from dim2/basic_ops.rs, dim3/basic_ops.rs and attributes/manager.rs before every build
    "gen": ["alloc"],
    "required_theorems": [
        # Props/C18Gen.lean: the translated allocation functions ARE the model's
        "C18_gen_addFreeDarts2", "C18_gen_addFreeDart2", "C18_gen_addFreeDarts3", "C18_gen_addFreeDart3", "C18_gen_buckets",
        "C18_gen_insertFreeDart", "C18_gen_removeFreeDartTx", "C18_gen_removeFreeDart", "C18_gen_isFree", "C18_gen_attr_loops",
        "C18_add_fresh", "C18_insert_fresh", "C18_remove_refuses_iff", "C18_remove_twice_in_one_transaction", "C18_orbit3_excludes_removed", "C18_D10_reused_slot_keeps_stale_value", "C18_orbit_excludes_removed"],
    "trusted_base": [
        "Lean 4.33 kernel; axioms propext, Classical.choice, Quot.sound only",
        "hand-written model (Model/Ops.lean: addFreeDarts, insertFreeDart, removeFreeDart) tied to /repo by the differential run AND by "
        "translation: tools/gen_lean.py `alloc` regenerates Gen/Alloc.lean (components extended by add_free_dart(s), buckets extended by "
        "extend_storages, bucket of every bind policy, insert / remove shapes) and Props/C18Gen.lean proves the tables' meaning equal to the model",
        "Rust harness hcimpl, tools/*.py (the oracle recomputes in-use sets from the snapshots)",
    ],
    "assumptions": ["fewer than 2^32 darts", "Vec growth is modelled as array append"],
    "rule": "histories mixing add_free_dart(s), insert_free_dart, remove_free_dart, links/sews and vertex/attribute writes on maps built "
            "with 0..5 attribute kinds (every mask; in 2-D one of them, OTerm, is bound to a CUSTOM orbit, i.e. lives in the manager's `others` bucket); "
            "transactional removals composed several to a transaction (the same dart twice included); after every allocation the whole map is snapshotted and EVERY identifier below the "
            "dart count is read and written in EVERY registered storage; oracle on the implementation: returned ids non-null, not in use "
            "before, below the new dart count, counters as documented, new dart free and valueless, no panic on any storage access, "
            "removed darts absent from iterators and orbits of in-use darts, removal refused iff linked or already removed. "
            "distinct_nontrivial = distinct implementation transcripts.",
    "not_proved": [
        "'a newly obtained dart has no coordinates or attribute value' is FALSE on the current code for reused slots (finding D10): proved "
        "negation C18_D10_reused_slot_keeps_stale_value + partial theorem C18_insert_blank_partial",
        "'removed darts are not reported by any orbit of a remaining dart' is proved for 2-maps (C18_orbit_excludes_removed, from C03 + "
        "C01_unused_is_nobodys_image) and for 3-maps (Props/C18b.lean: C18_orbit3_excludes_removed, from the 3-D orbit specification of C03b)",
    ],
}


def parse_snap(line):
    """snap n=.. | b0: .. | .. | u: .. | a0: .. -> dict"""
    parts = [p.strip() for p in line.split("|")]
    d = {"n": int(parts[0].split("=")[1]), "b": [], "a": {}}
    for p in parts[1:]:
        k, _, rest = p.partition(":")
        toks = rest.split()
        if k.startswith("b"):
            d["b"].append([int(x) for x in toks])
        elif k == "u":
            d["u"] = [int(x) for x in toks]
        elif k.startswith("a"):
            d["a"][int(k[1:])] = toks
    return d


def oracle_c18(case, li):
    if any(x.startswith("<missing") for x in li):
        return "driver died"
    lines = case.lines
    if len(li) != len(lines):
        return f"output has {len(li)} lines for {len(lines)} input lines"
    last = None
    for inp, out in zip(lines, li):
        if inp == "snap" and not out.startswith("snap "):
            return f"reading the whole map (snap) answered {out!r}: some identifier below the dart count is not addressable"
    for i, (inp, out) in enumerate(zip(lines, li)):
        t = inp.split()
        if t[0] == "snap":
            last = parse_snap(out)
        elif t[0] in ("ins", "add") and last is not None and i + 2 < len(lines) and lines[i + 1] == "snap":
            if not out.startswith("ok "):
                return f"allocation {inp!r} answered {out!r}"
            first = int(out.split()[1])
            k = 1 if t[0] == "ins" else int(t[1])
            after = parse_snap(li[i + 1])
            nd = li[i + 2].split()  # ndarts: ok n unused
            in_use_before = {d for d in range(1, last["n"]) if last["u"][d] == 0}
            unused_before = sum(last["u"])
            for d in range(first, first + k):
                if d == 0:
                    return f"{inp}: returned the null dart"
                if d in in_use_before:
                    return f"{inp}: returned dart {d} which was in use"
                if d >= after["n"]:
                    return f"{inp}: returned dart {d} >= n_darts {after['n']}"
                if after["u"][d] != 0:
                    return f"{inp}: returned dart {d} is still flagged removed"
                if any(row[d] != 0 for row in after["b"]):
                    return f"{inp}: returned dart {d} is not free"
                for st, vals in after["a"].items():
                    if vals[d] != "none":
                        reused = d < last["n"]
                        return (f"{inp}: new dart {d} holds value {vals[d]} in storage {st}"
                                + (" (stale value in reused slot)" if reused else " (fresh slot)"))
            if t[0] == "add" or first >= last["n"]:
                want_n, want_u = last["n"] + k, unused_before
            else:
                want_n, want_u = last["n"], unused_before - 1
            if nd[:1] == ["ok"] and (int(nd[1]) != want_n or int(nd[2]) != want_u):
                return f"{inp}: counters n_darts/n_unused = {nd[1:]} but documented evolution gives {want_n} {want_u}"
            if after["n"] != want_n:
                return f"{inp}: n_darts {after['n']} expected {want_n}"
        elif t[0] == "endtx" and last is not None and out.startswith("tx ok"):
            # a block of transactional removals: every answer says whether the dart was already removed (earlier, or earlier in this
            # very transaction); afterwards exactly those darts are flagged in addition
            j = i - 1
            ds = []
            while j >= 0 and lines[j].startswith("rmtx "):
                ds.insert(0, int(lines[j].split()[1]))
                j -= 1
            if ds and lines[j] == "tx" and j >= 1 and lines[j - 1] == "snap":
                res = [x.strip() for x in out[len("tx ok"):].split(";")]
                gone = {d for d in range(last["n"]) if last["u"][d] == 1}
                for d, rr in zip(ds, res):
                    if d < last["n"]:
                        want = "true" if d in gone else "false"
                        if rr != want:
                            return f"tx rmtx {ds}: removal of dart {d} answered {rr}, but already-removed = {want} at that point of the transaction"
                        gone.add(d)
                if i + 1 < len(lines) and lines[i + 1] == "snap":
                    after = parse_snap(li[i + 1])
                    got = {d for d in range(after["n"]) if after["u"][d] == 1}
                    if got != gone:
                        return f"tx rmtx {ds}: removed set afterwards {sorted(got)} expected {sorted(gone)}"
        elif t[0] == "rm" and last is not None and lines[i - 1] == "snap":
            d = int(t[1])
            if d < last["n"]:
                linked = any(row[d] != 0 for row in last["b"])
                removed = last["u"][d] == 1
                if (out == "panic") != (linked or removed):
                    return f"rm {d}: answered {out!r} but linked={linked} removed={removed}"
        elif t[0] in ("ra", "wa", "rv", "wv", "xa", "xv") and case.meta.get("probe") and not out.startswith("ok"):
            return f"storage access {inp!r} below the dart count answered {out!r}"
        elif t[0] in ("iterv", "itere", "iterf", "itervol", "orbit") and last is not None and out.startswith("ok"):
            ids = [int(x) for x in out.split()[1:]]
            bad = [d for d in ids if d < last["n"] and last["u"][d] == 1]
            if t[0] == "orbit":
                start = int(t[2])
                if start < last["n"] and last["u"][start] == 0 and bad:
                    return f"{inp}: orbit of in-use dart reports removed dart(s) {bad}"
            elif bad:
                return f"{inp}: iterator reports removed dart(s) {bad}"
    return None


def histories(count, rng, dim=2):
    cases = []
    for c in range(count):
        # 2-D: bit 3 (storage 4) is `OTerm`, bound to OrbitPolicy::Custom -- the manager's `others` bucket
        mask = rng.choice([0, 1, 2, 4, 16, 3, 5, 7, 19, 23, 8, 9, 12, 27, 31]) if dim == 2 else rng.choice([0, 1, 8, 9, 15, 31])
        n = rng.randint(1, 6)
        lines = [f"new {dim} {n} {mask}"]
        cur_n = n + 1
        alive = list(range(1, n + 1))
        maybe_removed = []
        touched = set()      # darts that were ever an argument of a link/sew: possibly not free any more
        regs = [s for s in range(1, 6) if (mask >> (s - 1)) & 1]
        for step in range(rng.randint(4, 14)):
            r = rng.random()
            if r < 0.25 and alive:
                d = rng.choice(alive)
                if rng.random() < 0.5:
                    lines.append(f"wv {d} {gens.dy(rng)} {gens.dy(rng)}" + (f" {gens.dy(rng)}" if dim == 3 else ""))
                elif regs:
                    lines.append(f"wa {rng.choice(regs)} {d} {rng.randint(1, 999)}")
            elif r < 0.40 and len(alive) >= 2:
                l, rr = rng.sample(alive, 2)
                touched |= {l, rr}
                ops = [f"flink 1 {l} {rr}", f"flink 2 {l} {rr}", f"funlink 1 {l}", f"funlink 2 {l}", f"fsew 1 {l} {rr}"]
                if dim == 3:
                    # darts that are only 3-linked (0-, 1-, 2-free) must be refused by remove_free_dart as well
                    ops += [f"flink 3 {l} {rr}", f"flink 3 {l} {rr}", f"funlink 3 {l}", f"funlink 1 {l}"]
                lines.append(rng.choice(ops))
            elif r < 0.47 and [d for d in alive + maybe_removed if d not in touched]:
                # transactional removals composed in ONE transaction (the same dart twice included): each answers whether the dart
                # was ALREADY removed, as seen by the transaction (documented contract of remove_free_dart_transac; the caller is
                # responsible for freeness, so only darts that were never an argument of a link are picked)
                cand = [d for d in alive + maybe_removed if d not in touched]
                ds = [rng.choice(cand) for _ in range(rng.randint(1, 3))]
                if rng.random() < 0.5:
                    ds.append(ds[0])
                lines += ["snap", "tx"] + [f"rmtx {d}" for d in ds] + ["endtx", "snap"]
                for d in ds:
                    if d in alive:
                        alive.remove(d)
                        maybe_removed.append(d)
            elif r < 0.62 and (alive or maybe_removed):
                d = rng.choice(alive + maybe_removed)
                lines += ["snap", f"rm {d}"]
                if d in alive:
                    alive.remove(d)
                    maybe_removed.append(d)
            else:
                op = "ins" if rng.random() < 0.6 else f"add {rng.randint(1, 3)}"
                lines += ["snap", op, "snap", "ndarts"]
                if op.startswith("add"):
                    k = int(op.split()[1])
                    alive += list(range(cur_n, cur_n + k))
                    cur_n += k
                else:
                    cur_n += 1  # upper bound: a reuse keeps n, probes below use the real count from ndarts only up to n known
                    cur_n -= 1
                # probe every id we know exists in every storage
                known_n = cur_n
                for d in range(0, known_n):
                    lines.append(f"rv {d}")
                    for s in regs:
                        lines.append(f"ra {s} {d}")
                if alive:
                    d = rng.choice(alive)
                    for s in regs:
                        lines.append(f"wa {s} {d} {rng.randint(1, 999)}")
                    lines.append(f"wv {d} 1 1" + (" 1" if dim == 3 else ""))
                lines += ["snap", "iterv", "itere", "iterf"] + [f"orbit {p} {d}" for p in ("v", "e", "f") for d in alive[:4]]
        cases.append(Case(f"h{dim}-{c}", lines, oracle="c18", meta={"sig": "alloc-history", "probe": True}))
    return cases


def top_probe(count, rng, dim=2):
    """write/read the HIGHEST ids after appends (Vec growth of every storage)"""
    cases = []
    for c in range(count):
        mask = rng.choice([1, 3, 7, 19, 23, 8, 9, 31]) if dim == 2 else rng.choice([1, 9, 15, 31])
        regs = [s for s in range(1, 6) if (mask >> (s - 1)) & 1]
        n = rng.randint(0, 3)
        lines = [f"new {dim} {n} {mask}"]
        cur = n + 1
        for _ in range(rng.randint(2, 5)):
            if rng.random() < 0.6:
                lines += ["snap", "ins", "snap", "ndarts"]
                cur += 1
            else:
                k = rng.randint(1, 3)
                lines += ["snap", f"add {k}", "snap", "ndarts"]
                cur += k
            for d in range(max(0, cur - 3), cur):
                for s in regs:
                    lines += [f"wa {s} {d} {d + 1}", f"ra {s} {d}"]
                lines += [f"wv {d} 2 3" + (" 4" if dim == 3 else ""), f"rv {d}"]
        cases.append(Case(f"t{dim}-{c}", lines, oracle="c18", meta={"sig": "top-probe", "probe": True}))
    return cases


def run(tier, seed):
    rng = random.Random(seed)
    q = tier == "quick"
    parts = [("allocation histories 2-D", hv.campaign(histories(1500 if q else 30000, rng, 2), oracle_c18)),
             ("highest-id probes 2-D", hv.campaign(top_probe(500 if q else 8000, rng, 2), oracle_c18))]
    if HAVE_3D():
        parts.append(("allocation histories 3-D", hv.campaign(histories(800 if q else 15000, rng, 3), oracle_c18)))
        parts.append(("highest-id probes 3-D", hv.campaign(top_probe(500 if q else 8000, rng, 3), oracle_c18)))
    return hv.merge_results(parts)


def HAVE_3D():
    import os
    return os.path.exists(os.path.join(hv.HARNESS, "hcimpl", "src", "s3.rs")) and os.path.exists(os.path.join(hv.LEAN, "Honeycomb", "Model", "Session3.lean"))


def matches(known, v):
    if known["id"] == "D10":
        return v["kind"] == "oracle" and "stale value in reused slot" in v["what"]
    return False
