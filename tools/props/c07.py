"""C07 — concurrent transactions on one map are serializable and never crash.

Proof side: Honeycomb/Props/C07.lean (protocol model Model/StmProto.lean, granularity "commit is one step").
Tie side (this file): a deterministic schedule explorer (`/verif/harness-sched`, binary `hcsched`) runs the REAL honeycomb
crates on a vendored copy of fast-stm 0.5.0 whose only additions are cooperative yield points (lines tagged `// VERIF`);
every distinct outcome of every explored schedule is compared with the one-at-a-time executions of the committed
transactions (hcimpl), with the Lean model (hcmodel) on the same sequential script, and checked for well-formedness.

`python3 tools/props/c07.py --selftest` breaks commit validation in a scratch copy of the vendored crate and confirms that
the explorer then reports a lost update.
"""
import glob
import itertools
import json
import os
import random
import shutil
import subprocess
import sys

if __name__ == "__main__":
    sys.path.insert(0, os.path.dirname(os.path.dirname(os.path.abspath(__file__))))

import gens
import hv
from hv import Case

SCHED = os.path.join(hv.VERIF, "harness-sched")
VENDOR = os.path.join(SCHED, "vendor", "fast-stm")
SCHED_TARGET = os.path.join(hv.BUILD, "sched-target")
HCSCHED = os.path.join(SCHED_TARGET, "release", "hcsched")
MARK = "// VERIF"

SPEC = {
    "lean_modules": ["Honeycomb.Props.C07", "Honeycomb.Props.C07B", "Honeycomb.Props.C07Live"],
    "required_theorems": ["C07_serializable", "C07_only_valid_commits_publish", "T3_validated_commit",
                          "C07_serializable_B", "C07_locks_exclusive_B", "C07_no_deadlock_B", "C07_serializable_sorted",
                          "C07_commit_step_is_effective"],
    "trusted_base": [
        "Lean 4.33 kernel; axioms propext, Classical.choice, Quot.sound only",
        "protocol models of fast-stm: Honeycomb/Model/StmProto.lean (per-variable versions, logged first reads, commit = one atomic "
        "validate-then-publish step, restart on failed validation, abort returns without publishing) and Model/StmProtoB.lean (commit "
        "= per-variable lock acquisition with validation under the lock, blocking, then one publish step) — hand-written after "
        "fast-stm 0.5.0 src/transaction/mod.rs",
        "vendored fast-stm 0.5.0 = registry copy + lines tagged `// VERIF` (checked byte-for-byte on every run) + src/verif.rs (hook, "
        "no-op when no scheduler is installed)",
        "schedule explorer hcsched (baton scheduler, DFS/PCT/random strategies), hcimpl, hcmodel, tools/*.py",
    ],
    "assumptions": [
        "only one thread runs at a time and threads switch only at the yield points (first read of a variable from shared memory, start of "
        "commit, non-transactional read, blocking retry; for the scenarios marked lockgran also before every lock acquisition of "
        "Transaction::commit, before its write-back and before its publish phase): interleavings inside commit are explored at lock "
        "granularity for the scenarios marked lockgran (the committing thread is preempted while it really holds parking_lot locks, "
        "taken with try-lock loops that hand the baton over instead of blocking); for the other scenarios commit is one step",
        "a worker that holds the baton for `watchdog` CPU seconds (5; 3 for the torn-walk family) without reaching a yield point or "
        "finishing is declared `hang` for that schedule (a loop on values of its own log cannot be interleaved any further); the "
        "explorer process is then restarted on the remaining scenarios; an explorer process exceeding its schedule-proportional budget "
        "is killed and reported (explorer-timeout)",
        "memory ordering of parking_lot / Arc and parking_lot's fairness / queueing policy are still not exercised (sequentially consistent "
        "baton passing; a failed try-lock waits until some commit released its locks, nobody is ever queued on a lock)",
        "the per-variable stores of the publish phase and the wake-ups after it are one step (every written variable is exclusively "
        "locked meanwhile)",
        "lock-granularity exploration needs a map that is reset, not rebuilt, between schedules (the lock order is the address order): "
        "scenarios with remove_free_dart_transac / collapse_edge are explored with commit as one step only",
        "wait_for_change wake-ups: a blocked retry is resumed by the scheduler after another commit; the real parking/unparking is not explored",
        "Arc pointer identity = same write (a logged Arc keeps its allocation alive)",
        "the quantifier 'every interleaving' is covered exhaustively only up to the preemption bound printed in the statistics (all "
        "schedules with <= P preemptions of every scenario; full DFS where marked exhaustive), by PCT/random sampling beyond",
    ],
    "rule": "scenario = small initial map + 2..4 threads x 1..2 units of work (a transaction block of 1..3 protocol ops: sews, unsews, "
            "links, attribute/vertex reads and writes, id/orbit queries, the kernels insv/insvs/fan/earclip/cutout/cutin/swap/collapse; or a "
            "public call running its own transaction: set_beta/set_betas); families: read-modify-write, link pairs, queries vs edits, "
            "sews around one vertex, 3-D sews, 3-sew vs 1-link of the face, vertex insertion vs edits of its spare darts, set_betas vs "
            "row readers, remeshing kernels vs sews/unsews/kernels on neighbouring triangles (a kernel's retry() really blocks or "
            "restarts under the scheduler), id/orbit walks against a writer that re-routes the walked cell in one transaction (torn_walk_scenarios: torn snapshots must end in "
            "a failed validation, never in an endless walk), a kernel call that hangs by itself on a valid map (hang_scenarios, finding D15h: a blocked "
            "transaction that answers `retry` when run alone on the initial map is a violation, one that answers `retry` only after other "
            "commits was handed an invalid argument and is counted as deadlocks_reproduced_sequentially), random blocks; every schedule "
            "with <= P preemptions "
            "(P = 2 quick, 3 thorough; deepened to full DFS for tiny scenarios) plus seeded random and PCT(d=3) schedules for the bigger "
            "ones is executed on the real crates; per distinct outcome (commit order, results, final snapshot): no panic/hang/deadlock; "
            "results and snapshot = sequential hcimpl run of the committed transactions in commit order (else in some other order); "
            "hcmodel agrees on that sequential script; wf true true true. cases = sequential scripts compared; "
            "'sched' in the statistics = what the explorer covered. Scenarios named *-lg (the lock-order, read-modify-write, link, fan, "
            "force families and a sample of random blocks) run with lockgran=1: decision points inside commit() before each lock, before "
            "the write-back and before the publish; commit order = order of the 'all locks held' points; statistics under "
            "sched.lock_granularity (schedules with a preemption inside commit, most locks held by a preempted committer, failed try-locks).",
    "not_proved": [
        "lock granularity (Model/StmProtoB.lean, theorem C07_serializable_B) IS proved for the model in which commit() takes the locks "
        "one variable at a time, validates each variable under its lock, blocks on incompatible locks, and finally publishes in one "
        "step, for EVERY order of lock acquisition that loses no variable; absence of deadlock IS proved (Props/C07Live.lean, "
        "C07_no_deadlock_B) for the instance of the model that locks in a fixed global order (variables sorted along an injective rank = "
        "the BTreeMap<address> walk of the real commit): in every reachable state with an unfinished thread some unfinished thread is not "
        "waiting for a lock; the same two programs deadlock under per-thread log order (decide example) — the explorer exhibits both on "
        "the real code (--selftest-lockorder: reversed walk for odd threads deadlocks on lock-wxy-wyx, the real address order never "
        "does in any lockgran scenario). NOT proved: termination of "
        "the retry loop under a fair scheduler (livelock), parking_lot's queueing policy (a reader queued behind a waiting writer), the "
        "per-variable stores of the final publish step (one step in the model: every written variable is exclusively locked meanwhile), "
        "memory ordering, wait_for_change",
        "the premise that operations touch shared memory only through Transaction::read/write is a fact about the code, not a theorem: "
        "the explorer reports every non-transactional read it sees ('atomic_reads' in the statistics) and keeps the scenarios that "
        "exhibited D4 (three_sew/three_unsew walked the faces with orbit(); repaired in f79acf8) and D3 (insert_vertex(es)_on_edge "
        "tested spare darts with is_free; repaired in cc2bcd4) as regression targets",
        "an aborting transaction (Err) is not validated by fast-stm: its error may stem from a torn snapshot (allowed by the property; "
        "counted as 'unexplained_errors' in the statistics)",
    ],
}


# ---------------------------------------------------------------------------------------------
# build + tie of the vendored crate
# ---------------------------------------------------------------------------------------------

def registry_dir():
    c = sorted(glob.glob(os.path.expanduser("~/.cargo/registry/src/*/fast-stm-0.5.0")))
    return c[0] if c else None


def vendor_tie(vendor=VENDOR):
    """strip every line containing `// VERIF` (and src/verif.rs); the rest must equal the registry copy byte for byte.
    returns (ok, message, n_marked_lines)"""
    reg = registry_dir()
    if not reg:
        return False, "registry copy of fast-stm 0.5.0 not found", 0
    marked = 0

    def files(root):
        out = {}
        for d, _, fs in os.walk(root):
            for f in fs:
                p = os.path.join(d, f)
                out[os.path.relpath(p, root)] = p
        return out

    fv, fr = files(vendor), files(reg)
    extra = sorted(set(fv) - set(fr) - {os.path.join("src", "verif.rs")})
    # what must be present in the vendored copy is what the crate is BUILT from (sources and manifest); a stray file some other
    # tool dropped into the registry directory (e.g. a coverage profile written by an instrumented build script) is not part
    # of fast-stm and says nothing about the vendored copy
    missing = sorted(f for f in set(fr) - set(fv) if f.endswith((".rs", ".toml")) or os.path.basename(f).startswith("Cargo"))
    if extra or missing:
        return False, f"file sets differ: extra={extra} missing={missing}", 0
    if os.path.join("src", "verif.rs") not in fv:
        return False, "src/verif.rs missing", 0
    for rel, p in sorted(fr.items()):
        want = open(p, "rb").read()
        have_lines = open(fv[rel], "rb").read().split(b"\n")
        kept = [l for l in have_lines if MARK.encode() not in l]
        marked += len(have_lines) - len(kept)
        if b"\n".join(kept) != want:
            return False, f"{rel}: differs from the registry copy after removing the `{MARK}` lines", marked
    return True, "", marked


def build_sched(root=SCHED, timeout=3000):
    """cargo build of the explorer against /repo's current tree; returns (ok, log, path of a private copy of the binary)"""
    os.makedirs(hv.BUILD, exist_ok=True)
    with hv.FileLock(os.path.join(hv.BUILD, "cargo-sched.lock")):
        # hcsched compiles hcimpl's interpreter sources: give it hcimpl's dependencies (+ the patched fast-stm)
        try:
            man = open(os.path.join(hv.HARNESS, "hcimpl", "Cargo.toml")).read()
            deps = man.split("[dependencies]", 1)[1].split("\n[", 1)[0].strip().split("\n")
            deps = [d for d in deps if d.strip() and not d.strip().startswith("fast-stm")]
            want = ("[package]\nname = \"hcsched\"\nversion = \"0.1.0\"\nedition = \"2024\"\n\n"
                    "# generated by tools/props/c07.py: the dependencies of /verif/harness/hcimpl + the (patched) fast-stm\n"
                    "[dependencies]\n" + "\n".join(deps) + "\nfast-stm = \"0.5.0\"\n")
            mp = os.path.join(root, "hcsched", "Cargo.toml")
            if open(mp).read() != want:
                open(mp, "w").write(want)
        except Exception as e:  # keep the manifest as it is
            hv.log(f"[C07] could not sync hcsched's dependencies: {e}")
        lock = os.path.join(root, "Cargo.lock")
        src = os.path.join(hv.REPO, "Cargo.lock")
        if os.path.exists(src) and (not os.path.exists(lock) or 'name = "hcsched"' not in open(lock).read()):
            shutil.copy(src, lock)
        rc, out = hv.sh(["cargo", "build", "--release", "--offline"], cwd=root, timeout=timeout)
        if rc != 0:
            return False, out, None
        return True, out, hv._private_copy(HCSCHED)


# ---------------------------------------------------------------------------------------------
# scenarios
# ---------------------------------------------------------------------------------------------

CALL_OPS = ("setb", "setbs", "flink", "funlink", "fsew", "funsew")


def is_call(tx):
    """a unit of work that is not a `tx … endtx` block but a public call running its own transaction(s)"""
    return len(tx) == 1 and tx[0].split()[0] in CALL_OPS


def unit_lines(tx):
    return list(tx) if is_call(tx) else ["tx"] + list(tx) + ["endtx"]


def committed_result(r):
    return r.startswith("tx ok") or r == "ok" or r.startswith("ok ")


def commit_order(o):
    """observed commit order without repetitions (a public call may run several transactions: first commit counts)"""
    out = []
    for x in o["commit_order"]:
        if tuple(x) not in out:
            out.append(tuple(x))
    return out


class Scenario:
    def __init__(self, name, init, threads, params=None, tags=()):
        self.name = name
        self.init = init                    # protocol lines
        self.threads = threads              # [[unit, ...], ...], unit = [op, ...] (a block) or [call line]
        self.params = dict(params or {})
        self.tags = set(tags)

    def text(self, extra=None):
        p = dict(self.params)
        p.update(extra or {})
        out = ["scenario " + self.name + "".join(f" {k}={v}" for k, v in sorted(p.items()))] + list(self.init)
        for th in self.threads:
            out.append("thread")
            for tx in th:
                out += unit_lines(tx)
        out.append("end")
        return out

    def dim(self):
        return int(self.init[0].split()[1])


def rows2(n, faces, pairs=(), open_chains=()):
    """beta rows of a 2-map: closed faces (dart lists), open chains, beta2 pairs"""
    b0, b1, b2 = [0] * (n + 1), [0] * (n + 1), [0] * (n + 1)
    for f in faces:
        for i, d in enumerate(f):
            e = f[(i + 1) % len(f)]
            b1[d], b0[e] = e, d
    for f in open_chains:
        for d, e in zip(f, f[1:]):
            b1[d], b0[e] = e, d
    for a, b in pairs:
        b2[a], b2[b] = b, a
    return [b0, b1, b2]


def tok(x):
    return gens._tok(x)


def fan_scenarios():
    """three triangles around the vertex O: the two sews (or unsews) edit the same vertex orbit"""
    O, P = (0, 0), [(1, 0), (0, 1), (-1, 0), (0, -1)]
    origin = {1: O, 2: P[0], 3: P[1], 4: O, 5: P[1], 6: P[2], 7: O, 8: P[2], 9: P[3]}
    faces = [[1, 2, 3], [4, 5, 6], [7, 8, 9]]
    out = []
    for mask in (0, 1, 7):
        vals = [f"wv {d} {tok(p[0])} {tok(p[1])}" for d, p in origin.items()]
        att = [f"wa {st} {d} {100 * st + d}" for st in (1, 2, 3) if (mask >> (st - 1)) & 1 for d in origin]
        init = [gens.load_line(2, 9, mask, rows2(9, faces), [0] * 10)] + vals + att
        out.append(Scenario(f"fan-sew-m{mask}", init, [[["sew 2 3 4"]], [["sew 2 6 7"]]], tags={"fan"}))
        out.append(Scenario(f"fan-sew-obs-m{mask}", init, [[["sew 2 3 4"], ["vid 7", "rv 1"]], [["sew 2 6 7"], ["orbit v 1"]]], tags={"fan"}))
        # the sewn fan (built by the sews themselves, so that every value sits where the implementation puts it)
        sewn = init + ["sew 2 3 4", "sew 2 6 7"]
        out.append(Scenario(f"fan-unsew-m{mask}", sewn, [[["unsew 2 3"]], [["unsew 2 6"]]], tags={"fan"}))
        out.append(Scenario(f"fan-unsew-resew-m{mask}", sewn, [[["unsew 2 3"], ["sew 2 3 4"]], [["unsew 2 6"]]], tags={"fan"}))
    # 1-sews closing two chains that share end vertices through beta2
    return out


def rmw_scenarios():
    """read-modify-write of the same vertex / attribute slot (lost-update pattern)"""
    out = []
    init = [gens.load_line(2, 4, 1, rows2(4, []), [0] * 5), "wv 1 0 0", "wa 1 1 10"]
    t = lambda x: ["rv 1", f"wv 1 {x} {x}"]
    a = lambda x: ["ra 1 1", f"wa 1 1 {x}"]
    out.append(Scenario("rmw-vertex-2", init, [[t(1)], [t(2)]], {"full_cap": 50000}, tags={"rmw"}))
    out.append(Scenario("rmw-vertex-3", init, [[t(1)], [t(2)], [t(3)]], {"full_cap": 50000}, tags={"rmw"}))
    out.append(Scenario("rmw-attr-2", init, [[a(11)], [a(12)]], {"full_cap": 50000}, tags={"rmw"}))
    out.append(Scenario("rmw-vertex-2x2", init, [[t(1), t(3)], [t(2), t(4)]], {"full_cap": 50000}, tags={"rmw"}))
    out.append(Scenario("rmw-mixed", init, [[["rv 1", "wa 1 1 11"], t(5)], [["ra 1 1", "wv 1 2 2"]]], {"full_cap": 50000}, tags={"rmw"}))
    # write skew shape: each reads the other's slot
    init2 = [gens.load_line(2, 4, 0, rows2(4, []), [0] * 5), "wv 1 0 0", "wv 2 0 0"]
    out.append(Scenario("write-skew", init2, [[["rv 1", "wv 2 1 1"]], [["rv 2", "wv 1 2 2"]]], {"full_cap": 50000}, tags={"rmw"}))
    return out


def link_scenarios():
    """link/unlink pairs on the same darts"""
    out = []
    free = [gens.load_line(2, 4, 0, rows2(4, []), [0] * 5)] + [f"wv {d} {d} 0" for d in (1, 2, 3, 4)]
    out.append(Scenario("link2-same-base", free, [[["link 2 1 2"]], [["link 2 1 3"]]], {"full_cap": 50000}, tags={"link"}))
    out.append(Scenario("link1-chain", free, [[["link 1 1 2"]], [["link 1 2 3"]], [["link 1 3 1"]]], {"full_cap": 20000}, tags={"link"}))
    out.append(Scenario("link1-same-image", free, [[["link 1 1 3"]], [["link 1 2 3"]]], {"full_cap": 50000}, tags={"link"}))
    linked = [gens.load_line(2, 4, 0, rows2(4, [], pairs=[(1, 2)], open_chains=[[3, 4]]), [0] * 5)]
    out.append(Scenario("unlink-relink", linked, [[["unlink 2 1"], ["link 2 1 3"]], [["unlink 2 2"], ["link 2 2 4"]]], {"full_cap": 50000}, tags={"link"}))
    out.append(Scenario("unlink1-vs-link2", linked, [[["unlink 1 3", "link 1 4 3"]], [["link 2 3 4"]], [["unlink 2 1"]]], {"full_cap": 20000}, tags={"link"}))
    # remove_free_dart_transac has the precondition "the dart is free" (it performs no check): nobody else links dart 4
    out.append(Scenario("rmtx-vs-isun", free, [[["rmtx 4"]], [["isun 4", "link 1 1 2"], ["isun 4"]]], {"full_cap": 50000}, tags={"link"}))
    # the removal flag is a transactional variable like any other: two transactions releasing the SAME dart (exactly one may be
    # told "was in use"), and a block that reads the flag and then writes, against a release + vertex removal of that dart
    # (seeded changes C07-10, C07-11: the flag read / tested outside the transaction log)
    out.append(Scenario("rmtx-vs-rmtx", free, [[["rmtx 4"]], [["rmtx 4"]]], {"full_cap": 50000}, tags={"link"}))
    out.append(Scenario("rmtx-vs-rmtx-3", free, [[["rmtx 4"], ["rmtx 3"]], [["rmtx 3"], ["rmtx 4"]], [["rmtx 4", "rmtx 3"]]], {"full_cap": 50000}, tags={"link"}))
    out.append(Scenario("isun-guard-vs-release", free, [[["isun 4", "wv 4 9 9"]], [["rmtx 4", "xv 4"]]], {"full_cap": 50000}, tags={"link"}))
    out.append(Scenario("isun-guard-vs-release-2", free, [[["isun 4", "wv 4 9 9"], ["isun 3", "wv 3 8 8"]], [["rmtx 3", "xv 3"], ["rmtx 4", "xv 4"]]],
                        {"full_cap": 50000}, tags={"link"}))
    return out


def query_scenarios():
    """id / orbit queries concurrent with edits of the orbit they walk"""
    out = []
    sq = [gens.load_line(2, 8, 0, rows2(8, [[1, 2, 3, 4], [5, 6, 7, 8]]), [0] * 9)]
    pts = {1: (0, 0), 2: (1, 0), 3: (1, 1), 4: (0, 1), 5: (1, 0), 6: (2, 0), 7: (2, 1), 8: (1, 1)}
    sq += [f"wv {d} {p[0]} {p[1]}" for d, p in pts.items()]
    # 2 (1,0)->(1,1) with 8 (1,1)->(1,0)
    out.append(Scenario("query-vs-sew", sq, [[["sew 2 2 8"]], [["vid 3", "vid 8", "orbit v 5", "eid 8"]]], tags={"query"}))
    out.append(Scenario("query-vs-link-unlink", sq, [[["link 2 2 8"], ["unlink 2 2"]], [["orbit e 2", "fid 8", "orbit v 3"], ["beta 2 8", "vid 5"]]], tags={"query"}))
    out.append(Scenario("query-vs-face-split", sq, [[["unlink 1 2", "link 1 2 1"]], [["orbit f 1", "fid 3"]], [["fid 4", "orbit fl 3"]]],
                        {"full_cap": 20000}, tags={"query"}))
    return out


def random_scenarios(rng, count, nthreads=(2,), mask=7, params=None, prefix="rnd", dim=2):
    """user blocks composing 1..3 random ops (the generator of C08; 3-D: plus 3-links/3-sews) on random small WF maps.
    The first op of every transaction is one that succeeds on the initial map (asked to hcimpl), so that most
    transactions commit in some order and threads sharing darts really conflict."""
    import props.c08 as c08
    maps = {n: list(gens.wf_maps2(n, with_unused=False)) for n in (3, 4)}
    faces3 = [m for m in gens.faces3_maps(2, 3)]
    protos = []
    for c in range(count):
        if dim == 2:
            n = rng.choice((3, 4, 4))
            b0, b1, b2, u = rng.choice(maps[n])
            init = [gens.load_line(2, n, mask, [b0, b1, b2], u)] + gens.value_lines(rng, n, mask, pv=0.95, pa=0.6)
        else:
            n, rows, _ = rng.choice(faces3)
            init = [gens.load_line(3, n, mask, rows, [0] * (n + 1))] + gens.value_lines(rng, n, mask, dim=3, pv=0.95, pa=0.7)
            init += [gens.random_op3(rng, list(range(1, n + 1)), force_p=0.0, alloc=False, weights=[4, 4, 1, 1]) for _ in range(rng.randint(0, 2))]
        darts = list(range(1, n + 1))

        def op():
            if dim == 3 and rng.random() < 0.5:
                return gens.random_op3(rng, darts, force_p=0.0, alloc=False)
            return c08.tx_op(rng, n, darts)

        cands = sorted({op() for _ in range(40)})
        protos.append((init, n, darts, cands, op))
    # which candidate ops succeed on the initial map?
    text = []
    for c, (init, n, darts, cands, _) in enumerate(protos):
        for k, o in enumerate(cands):
            text += [f"# case {c}.{k}"] + init + [o]
    rc, outl = hv.run_bin(hv.HCIMPL, "\n".join(text) + "\n")
    good = {}
    for cid, ls in hv.split_outputs(outl):
        c, k = cid.split(".")
        if ls and (ls[-1] == "ok" or ls[-1].startswith("ok ")):
            good.setdefault(int(c), []).append(protos[int(c)][3][int(k)])
    out = []
    for c, (init, n, darts, cands, op) in enumerate(protos):
        ok_ops = good.get(c) or cands
        edits = [o for o in ok_ops if o.split()[0] in ("link", "unlink", "sew", "unsew", "wv", "wa")] or ok_ops
        nt = rng.choice(nthreads)
        threads = []
        for _ in range(nt):
            ntx = rng.choice((1, 1, 2))
            txs = []
            for _ in range(ntx):
                first = rng.choice(edits if rng.random() < 0.8 else ok_ops)
                txs.append([first] + [rng.choice(ok_ops) if rng.random() < 0.5 else op() for _ in range(rng.randint(0, 2))])
            threads.append(txs)
        out.append(Scenario(f"{prefix}{c}", init, threads, params, tags={"random" if dim == 2 else "random3"}))
    return out


# --- 3-D ---------------------------------------------------------------------------------------

def rows3(n, faces=(), open_chains=(), pairs2=(), pairs3=()):
    b = rows2(n, faces, pairs2, open_chains)
    b3 = [0] * (n + 1)
    for a, c in pairs3:
        b3[a], b3[c] = c, a
    return b + [b3]


P3 = [(0, 0, 0), (1, 0, 0), (0, 1, 0)]


def tri_pair_init(mask, extra_face=False, n=None):
    """left triangle 1->2->3 (origins p0,p1,p2), mirrored right triangle 4->5->6 (origins p1,p0,p2): `sew 3 1 4` is valid.
    extra_face: a third triangle 7,8,9 whose dart 7 (p1->p0) can be 2-sewn to dart 1."""
    n = n or (9 if extra_face else 6)
    faces = [[1, 2, 3], [4, 5, 6]] + ([[7, 8, 9]] if extra_face else [])
    origin = {1: P3[0], 2: P3[1], 3: P3[2], 4: P3[1], 5: P3[0], 6: P3[2]}
    if extra_face:
        origin.update({7: P3[1], 8: P3[0], 9: (0, 0, 1)})
    init = [gens.load_line(3, n, mask, rows3(n, faces), [0] * (n + 1))]
    init += ["wv %d %s %s %s" % ((d,) + tuple(tok(c) for c in p)) for d, p in origin.items()]
    init += [f"wa {st} {d} {100 * st + d}" for st in range(1, 6) if (mask >> (st - 1)) & 1 for d in origin]
    return init


def three_d_scenarios():
    out = []
    for mask in (0, 31):
        init = tri_pair_init(mask, extra_face=True)
        # 3-sew of two faces while another thread 2-sews a third face onto an edge of the left one (shared vertices/edge)
        out.append(Scenario(f"sew3-vs-sew2-m{mask}", init, [[["sew 3 1 4"]], [["sew 2 1 7"]]], tags={"3d"}))
        out.append(Scenario(f"sew3-vs-rmw-m{mask}", init, [[["sew 3 1 4"]], [["rv 1", "wv 1 1/2 1/2 0"], ["rv 4"]]], tags={"3d"}))
    init = tri_pair_init(0, extra_face=True)
    out.append(Scenario("sew3-unsew3-vs-queries", init, [[["sew 3 1 4"], ["unsew 3 1"]], [["vid 5", "orbit v 1", "beta 3 2"], ["fid 4"]]], tags={"3d"}))
    out.append(Scenario("link3-vs-link3", tri_pair_init(0), [[["link 3 1 4"]], [["link 3 2 6"]]], tags={"3d"}))
    return out


def d4_scenarios():
    """DESIGN §8 D4 under concurrency: three_sew / three_unsew walk the two faces with the NON-transactional orbit();
    another thread 1-links / 1-unlinks darts of those faces."""
    out = []
    for mask in (0, 31):
        # open chains 1->2 and 5->4; darts 3 and 6 isolated; the linker prepends 3 before 1 and appends 6 after 4
        pts = {1: (0, 0, 0), 2: (1, 0, 0), 3: (0, 1, 0), 4: (1, 0, 0), 5: (0, 0, 0), 6: (0, 1, 0)}
        init = [gens.load_line(3, 6, mask, rows3(6, open_chains=[[1, 2], [5, 4]]), [0] * 7)]
        init += ["wv %d %d %d %d" % ((d,) + p) for d, p in pts.items()]
        init += [f"wa {st} {d} {100 * st + d}" for st in range(1, 6) if (mask >> (st - 1)) & 1 for d in pts]
        out.append(Scenario(f"d4-sew3-vs-link1-m{mask}", init, [[["sew 3 1 4"]], [["link 1 3 1", "link 1 4 6"]]], tags={"d4"}))
        out.append(Scenario(f"d4-sew3-vs-link1-append-m{mask}", init, [[["sew 3 1 4"]], [["link 1 2 3", "link 1 6 5"]]], tags={"d4"}))
        # 3-sewn chains 3->1->2 / 5->4->6 (built by the ops themselves); the other thread cuts 3 and 6 off, or 2 and 5,
        # while the first one 3-unsews
        init2 = init + ["link 1 3 1", "link 1 4 6", "sew 3 1 4"]
        out.append(Scenario(f"d4-unsew3-vs-unlink1-m{mask}", init2, [[["unsew 3 1"]], [["unlink 1 3"]]], tags={"d4"}))
        out.append(Scenario(f"d4-unsew3-vs-unlink1-tail-m{mask}", init2, [[["unsew 3 1"]], [["unlink 1 1"]]], tags={"d4"}))
    return out


def d3_scenarios():
    """DESIGN §8 D3 under concurrency: insert_vertex_on_edge tests its spare darts with the NON-transactional is_free;
    another thread links / unlinks a spare dart."""
    out = []
    base = ["wv 1 0 0", "wv 2 1 0", "wv 5 3 3", "wv 6 4 4"]
    # edge 1 -> 2 (one dart), spare darts 3, 4; darts 5, 6 for the other thread
    init = [gens.load_line(2, 6, 0, rows2(6, [], open_chains=[[1, 2]]), [0] * 7)] + base
    out.append(Scenario("d3-insv-vs-link2-spare", init, [[["insv 1 3 0 -"]], [["link 2 3 5"]]], tags={"d3"}))
    out.append(Scenario("d3-insv-vs-link1-spare", init, [[["insv 1 3 0 -"]], [["link 1 5 3"]]], tags={"d3"}))
    # the spare dart 6 gets 2-linked to 4 (beta1(4) = 5): its vertex id becomes 5
    init3 = [gens.load_line(2, 6, 0, rows2(6, [], open_chains=[[1, 2], [4, 5]]), [0] * 7), "wv 1 0 0", "wv 2 1 0", "wv 4 3 3", "wv 5 4 4"]
    out.append(Scenario("d3-insv-vs-link2-spare-vertex", init3, [[["insv 1 6 0 -"]], [["link 2 6 4"]]], tags={"d3"}))
    out.append(Scenario("d3-insvs-vs-link2-spare-vertex", init3, [[["insvs 1 2 6 0 1/2"]], [["link 2 6 4"]]], tags={"d3"}))
    init2 = [gens.load_line(2, 6, 0, rows2(6, [], open_chains=[[1, 2]], pairs=[(3, 5)]), [0] * 7)] + base
    out.append(Scenario("d3-insv-vs-unlink2-spare", init2, [[["insv 1 3 0 -"]], [["unlink 2 3"]]], tags={"d3"}))
    # two insertions competing for the same spare dart
    out.append(Scenario("d3-insv-vs-insv", init + ["link 1 5 6"], [[["insv 1 3 0 -"]], [["insv 5 3 0 1/4"]]], tags={"d3"}))
    return out


def setbs_scenarios():
    """`set_betas` / `set_beta` are public calls that run their own transaction: a concurrent read-only transaction reading
    several images of the dart must see a row that some call wrote (or the initial one), never a mix.  The calls are raw
    (no well-formedness guarantee): the final map is only compared with the sequential one."""
    out = []
    free = [gens.load_line(2, 4, 0, rows2(4, []), [0] * 5)]
    row = ["beta 0 1", "beta 1 1", "beta 2 1"]
    fc = {"full_cap": 100000}
    out.append(Scenario("setbs-row3", free, [[["setbs 1 2 3 4"]], [row]], fc, tags={"setbs", "raw"}))
    out.append(Scenario("setbs-row3-twice", free, [[["setbs 1 2 3 4"], ["setbs 1 3 4 2"]], [row]], fc, tags={"setbs", "raw"}))
    out.append(Scenario("setbs-row2", free, [[["setbs 1 2 3 0"], ["setbs 1 0 0 4"]], [["beta 1 1", "beta 0 1"], ["beta 2 1", "beta 1 1"]]],
                        fc, tags={"setbs", "raw"}))
    out.append(Scenario("setbs-two-writers", free, [[["setbs 1 2 2 2"]], [["setbs 1 3 3 3"]], [row]], {"full_cap": 30000}, tags={"setbs", "raw"}))
    out.append(Scenario("setbs-several-darts", free, [[["setbs 1 0 2 0"], ["setbs 2 1 0 0"]], [["beta 1 1", "beta 0 2", "beta 2 1"]],
                                                      [["beta 0 2", "beta 1 2", "beta 1 1"]]], {"full_cap": 30000}, tags={"setbs", "raw"}))
    # a linked row replaced at once, read through the id / orbit queries (they walk several images of the dart)
    tri = [gens.load_line(2, 6, 0, rows2(6, [[1, 2, 3]], pairs=[(1, 4)]), [0] * 7)]
    out.append(Scenario("setbs-vs-orbit", tri, [[["setbs 1 0 0 0"], ["setbs 1 3 2 4"]], [["orbit f 2", "beta 2 1", "beta 1 1", "beta 0 1"]]],
                        fc, tags={"setbs", "raw"}))
    out.append(Scenario("setb-vs-row", free, [[["setb 1 1 2"], ["setb 0 1 3"]], [row], [["link 2 1 4"]]], {"full_cap": 30000}, tags={"setbs", "raw"}))
    # 3-D
    free3 = [gens.load_line(3, 4, 0, rows3(4), [0] * 5)]
    out.append(Scenario("setbs3-row4", free3, [[["setbs 1 2 3 4 2"], ["setbs 1 0 0 0 0"]], [["beta 0 1", "beta 1 1", "beta 2 1", "beta 3 1"]]],
                        fc, tags={"setbs", "raw"}))
    return out


def force_scenarios():
    """the `force_` variants are public calls running their own transaction: a 1-sew and a 2-sew of the SAME dart issued by two
    threads (every serial order merges the vertex at the head of the dart with the vertex of the dart it is 2-sewn to), force
    calls against transaction blocks, and the 3-D counterparts (1-sew vs 2-sew / 3-sew of the same dart)."""
    out = []
    pts = {1: (0, 0), 2: (1, 0), 3: (1, 1), 4: (0, 1), 5: (2, 2)}
    for mask in (0, 7):
        init = [gens.load_line(2, 5, mask, rows2(5, [], open_chains=[[3, 4]]), [0] * 6)]
        init += [f"wv {d} {p[0]} {p[1]}" for d, p in pts.items()]
        init += [f"wa {st} {d} {100 * st + d}" for st in (1, 2, 3) if (mask >> (st - 1)) & 1 for d in pts]
        out.append(Scenario(f"fsew1-vs-fsew2-m{mask}", init, [[["fsew 1 1 2"]], [["fsew 2 1 3"]]], {"full_cap": 50000}, tags={"force"}))
        out.append(Scenario(f"fsew1-vs-sew2-m{mask}", init, [[["fsew 1 1 2"]], [["sew 2 1 3"]]], {"full_cap": 50000}, tags={"force"}))
        out.append(Scenario(f"sew1-vs-fsew2-m{mask}", init, [[["sew 1 1 2"]], [["fsew 2 1 3"]]], {"full_cap": 50000}, tags={"force"}))
        out.append(Scenario(f"fsew1-vs-fsew2-obs-m{mask}", init, [[["fsew 1 1 2"], ["vid 2", "rv 2"]], [["fsew 2 1 3"], ["funsew 2 1"]]],
                            {"full_cap": 50000}, tags={"force"}))
        glued = init + ["fsew 1 1 2", "fsew 2 1 3"]
        out.append(Scenario(f"funsew1-vs-funsew2-m{mask}", glued, [[["funsew 1 1"]], [["funsew 2 1"]]], {"full_cap": 50000}, tags={"force"}))
    pts3 = {1: (0, 0, 0), 2: (1, 0, 0), 3: (1, 1, 0), 4: (0, 1, 0), 5: (2, 2, 0), 6: (0, 0, 1)}
    for mask in (0, 31):
        init = [gens.load_line(3, 6, mask, rows3(6, open_chains=[[3, 4]]), [0] * 7)]
        init += ["wv %d %d %d %d" % ((d,) + p) for d, p in pts3.items()]
        init += [f"wa {st} {d} {100 * st + d}" for st in range(1, 6) if (mask >> (st - 1)) & 1 for d in pts3]
        out.append(Scenario(f"sew1-vs-sew2-3d-m{mask}", init, [[["sew 1 1 2"]], [["sew 2 1 3"]]], {"full_cap": 50000}, tags={"force", "3d"}))
        out.append(Scenario(f"sew1-vs-sew3-3d-m{mask}", init, [[["sew 1 1 2"]], [["sew 3 1 5"]]], {"full_cap": 50000}, tags={"force", "3d"}))
        out.append(Scenario(f"fsew1-vs-fsew2-3d-m{mask}", init, [[["fsew 1 1 2"]], [["fsew 2 1 3"]]], {"full_cap": 50000}, tags={"force", "3d"}))
        out.append(Scenario(f"unsew1-vs-unsew2-3d-m{mask}", init + ["fsew 1 1 2", "fsew 2 1 3"], [[["unsew 1 1"]], [["unsew 2 1"]]],
                            {"full_cap": 50000}, tags={"force", "3d"}))
    return out


# --- remeshing kernels -------------------------------------------------------------------------

def normalize_init(lines, mask=0):
    """any single-threaded protocol script (grid builders, `add`, sews …) -> `load` + `wv` lines of the map it builds
    (what hcsched understands); 2-D, vertices only"""
    rc, out = hv.run_bin(hv.HCIMPL, "\n".join(lines + ["snap"]) + "\n")
    snap = [x for x in out if x.startswith("snap ")][-1]
    sn = gens.parse_snap(snap)
    n = sn["n"] - 1
    init = [gens.load_line(2, n, mask, [sn["b0"], sn["b1"], sn["b2"]], sn["u"])]
    for d, v in enumerate(sn["a0"]):
        if v != "none":
            x, y, _ = v.strip("()").split(",")
            init.append(f"wv {d} {x} {y}")
    return init


def two_triangles(sewn, spare):
    """triangles 1,2,3 = (0,0),(1,0),(0,1) and 4,5,6 = (0,1),(1,0),(1,1) (dart 2 faces dart 4), separate or 2-sewn, + spare darts"""
    pts = {1: (0, 0), 2: (1, 0), 3: (0, 1), 4: (0, 1), 5: (1, 0), 6: (1, 1)}
    init = [gens.load_line(2, 6 + spare, 0, rows2(6 + spare, [[1, 2, 3], [4, 5, 6]]), [0] * (7 + spare))]
    init += [f"wv {d} {p[0]} {p[1]}" for d, p in pts.items()]
    return init + (["sew 2 2 4"] if sewn else [])


def remesh_scenarios():
    """remeshing kernels (cut_outer_edge, cut_inner_edge, swap_edge, collapse_edge; vertex insertion, triangulation)
    concurrent with sews / unsews / other kernels on neighbouring cells of small triangle meshes.
    cut-vs-sew-*: the sew renames an end point of the cut edge (its coordinates move to another id): a cut that computed
    the old id before the sew committed finds no coordinates there — the kernel's `retry()` arm (torn snapshot)."""
    out = []
    sep = two_triangles(False, 3)
    out.append(Scenario("cut-vs-sew-origin", sep, [[["cutout 5 7 8 9"]], [["sew 2 2 4"]]], tags={"remesh"}))
    out.append(Scenario("cut-vs-sew-origin-vid", sep, [[["vid 5", "cutout 5 7 8 9"]], [["sew 2 2 4"]]], tags={"remesh"}))
    out.append(Scenario("cut-vs-sew-end", sep, [[["vid 4", "cutout 6 7 8 9"]], [["sew 2 2 4"]]], tags={"remesh"}))
    out.append(Scenario("cut-vs-sew-left", sep, [[["cutout 1 7 8 9"], ["rv 2"]], [["sew 2 2 4"]]], tags={"remesh"}))
    sewn = normalize_init(two_triangles(True, 12))
    out.append(Scenario("cut-vs-unsew", sewn, [[["cutout 5 7 8 9"]], [["unsew 2 2"]]], tags={"remesh"}))
    out.append(Scenario("cutout-vs-cutout", sewn, [[["cutout 1 7 8 9"]], [["cutout 5 10 11 12"]]], tags={"remesh"}))
    out.append(Scenario("cutin-vs-cutout", sewn, [[["cutin 2 7 8 9 10 11 12"]], [["cutout 5 13 14 15"]]], tags={"remesh"}))
    out.append(Scenario("cutin-vs-unsew", sewn, [[["cutin 2 7 8 9 10 11 12"]], [["unsew 2 4"], ["sew 2 2 4"]]], tags={"remesh"}))
    out.append(Scenario("swap-vs-cutout", sewn, [[["swap 2"]], [["cutout 1 7 8 9"]]], tags={"remesh"}))
    out.append(Scenario("swap-vs-swap-back", sewn, [[["swap 2"], ["swap 2"]], [["vid 3", "rv 3", "orbit f 1"]]], tags={"remesh"}))
    out.append(Scenario("insv-vs-cutout", sewn, [[["insv 2 7 8 -"]], [["cutout 5 9 10 11"]]], tags={"remesh"}))
    out.append(Scenario("insv-vs-swap", sewn, [[["insv 1 7 0 1/4"]], [["swap 2"]]], tags={"remesh"}))
    # 2 x 1 split grid: triangles (1,2,3) (4,5,6) | (7,8,9) (10,11,12), inner edges 2|4, 5|9, 8|10; spare darts 13..27
    g = normalize_init(["grid 2 1 0 ncl 0 0 2 1 1 1", "add 15"])
    # (on these meshes only the boundary edges 6 and 7 can be collapsed)
    out.append(Scenario("grid-collapse-vs-cutout", g, [[["collapse 6"]], [["cutout 11 13 14 15"]]], tags={"remesh"}))
    out.append(Scenario("grid-collapse-vs-cutout-near", g, [[["collapse 7"]], [["cutout 1 13 14 15"], ["rv 2"]]], tags={"remesh"}))
    out.append(Scenario("grid-collapse-vs-swap", g, [[["collapse 7"]], [["swap 2"]]], tags={"remesh"}))
    out.append(Scenario("grid-collapse-vs-unsew", g, [[["collapse 6"]], [["unsew 2 8"], ["vid 9", "rv 5"]]], tags={"remesh"}))
    out.append(Scenario("grid-collapse-vs-collapse", g, [[["collapse 6"]], [["collapse 7"]]], tags={"remesh"}))
    out.append(Scenario("grid-swap-vs-swap", g, [[["swap 2"]], [["swap 8"]], [["swap 5"]]], {"preempt": 1, "cap": 20000, "random": 300, "pct": 300}, tags={"remesh"}))
    out.append(Scenario("grid-cutin-vs-cutin", g, [[["cutin 2 13 14 15 16 17 18"]], [["cutin 8 19 20 21 22 23 24"]]], tags={"remesh"}))
    out.append(Scenario("grid-cutin-vs-swap", g, [[["cutin 5 13 14 15 16 17 18"]], [["swap 2"]]], tags={"remesh"}))
    out.append(Scenario("grid-cutout-vs-unsew-sew", g, [[["cutout 1 13 14 15"], ["cutout 6 16 17 18"]], [["unsew 2 5"], ["sew 2 5 9"]]], tags={"remesh"}))
    # quadrangles (2 x 1 plain grid: faces 1..4 | 5..8): triangulation kernels next to an unsew / a vertex insertion
    q = normalize_init(["grid 2 0 0 ncl 0 0 2 1 1 1", "add 8"])
    out.append(Scenario("fan-vs-unsew", q, [[["fan 1 2 9 10"]], [["unsew 2 2"]]], tags={"remesh"}))
    out.append(Scenario("earclip-vs-fan", q, [[["earclip ccw 1 2 9 10"]], [["fan 5 2 11 12"]]], tags={"remesh"}))
    out.append(Scenario("fan-vs-insv", q, [[["fan 1 2 9 10"]], [["insv 2 11 12 -"]]], tags={"remesh"}))
    return out


def remesh_random(rng, count, params=None, nthreads=(2,)):
    """random mixes on the 2 x 1 split grid: every thread gets its own spare darts; ops that succeed on the initial map"""
    g = normalize_init(["grid 2 1 0 ncl 0 0 2 1 1 1", "add 24"])
    inner, outer = [2, 4, 5, 9, 8, 10], [1, 3, 6, 7, 11, 12]

    def pool(sp):
        ops = [f"cutout {e} {sp[0]} {sp[1]} {sp[2]}" for e in outer]
        ops += [f"cutin {e} " + " ".join(map(str, sp[:6])) for e in inner]
        ops += [f"swap {e}" for e in inner] + [f"collapse {e}" for e in inner + outer]
        ops += [f"unsew 2 {e}" for e in inner] + [f"insv {e} {sp[6]} {sp[7]} -" for e in inner] + [f"insv {e} {sp[6]} 0 1/4" for e in outer]
        ops += [f"wv {d} {gens.dy(rng)} {gens.dy(rng)}" for d in (1, 2, 3, 6)]
        return ops

    spares = [list(range(13 + 8 * t, 21 + 8 * t)) for t in range(3)]
    text = []
    pools = [pool(sp) for sp in spares]
    for t, ops in enumerate(pools):
        for k, o in enumerate(ops):
            text += [f"# case {t}.{k}"] + g + [o]
    rc, outl = hv.run_bin(hv.HCIMPL, "\n".join(text) + "\n")
    good = {0: [], 1: [], 2: []}
    for cid, ls in hv.split_outputs(outl):
        t, k = map(int, cid.split("."))
        if ls and (ls[-1] == "ok" or ls[-1].startswith("ok ")):
            good[t].append(pools[t][k])
    obs = ["vid 5", "rv 2", "orbit v 9", "fid 4", "orbit f 7", "eid 9"]
    out = []
    for c in range(count):
        threads = []
        for t in range(rng.choice(nthreads)):
            txs = []
            for _ in range(rng.choice((1, 1, 2))):
                tx = [rng.choice(good[t])]
                if rng.random() < 0.4:
                    tx.insert(rng.randint(0, 1), rng.choice(obs))
                txs.append(tx)
            threads.append(txs)
        out.append(Scenario(f"rmsh{c}", g, threads, params, tags={"remesh-random"}))
    return out


def torn_walk_scenarios():
    """id / orbit queries whose walk re-reads images, against a writer that re-routes the cell being walked in ONE transaction.
    fast-stm gives no opacity: the reader's attempt may have logged an image of the old shape (every first read is a yield
    point) and read the rest after the writer's commit; relative to what it logged the new shape is rho-shaped (a cycle that
    does not contain the start dart).  The walks must terminate on such a torn view (the real ones keep a visited set) so
    that the attempt reaches its doomed commit, fails validation and retries: every outcome is retry-or-serializable.  A walk
    that only stops at the start dart or at NULL spins forever inside the closure (found by the explorer's watchdog)."""
    out = []
    p = {"preempt": 2, "cap": 20000, "full_cap": 20000, "watchdog": 3}

    def fam(name, dim, init, writer, queries):
        for q in queries:
            qn = q.replace(" ", "")
            out.append(Scenario(f"torn-{name}-{qn}", init, [[[q]], [writer]], dict(p), tags={"torn"}))
        # the start image logged first by a plain read, two walks in the same attempt
        q0 = queries[0]
        d = q0.split()[-1]
        out.append(Scenario(f"torn-{name}-beta-then-walks", init, [[[f"beta 1 {d}", q0, queries[-1]]], [writer]], dict(p), tags={"torn"}))

    for dim in (2, 3):
        sfx = "" if dim == 2 else "-3d"
        rows = (lambda n, **kw: rows2(n, **kw)) if dim == 2 else (lambda n, **kw: rows3(n, **kw))
        face_q = ["fid 4", "orbit f 4", "orbit fl 4"] + (["volid 4", "orbit vol 4"] if dim == 3 else [])
        # the seed's demo: open face 4->1->2->3; the writer detaches 4 and closes 1->2->3->1
        init = [gens.load_line(dim, 5, 0, rows(5, faces=[], open_chains=[[4, 1, 2, 3]]), [0] * 6)]
        fam("open-chain" + sfx, dim, init, ["unlink 1 4", "link 1 3 1"], face_q)
        # square 1->2->3->4->1; the writer cuts 4 out and closes the triangle 1->2->3->1
        init = [gens.load_line(dim, 5, 0, rows(5, faces=[[1, 2, 3, 4]]), [0] * 6)]
        fam("square" + sfx, dim, init, ["unlink 1 4", "unlink 1 3", "link 1 3 1"], face_q)
        # hexagon; the writer cuts the chain 5->6 out and closes 1->2->3->4->1 (a longer cycle behind the logged image of 6)
        init = [gens.load_line(dim, 6, 0, rows(6, faces=[[1, 2, 3, 4, 5, 6]]), [0] * 7)]
        fam("hexagon" + sfx, dim, init, ["unlink 1 6", "unlink 1 4", "link 1 4 1"], [q.replace(" 4", " 6") for q in face_q])
        # backward: 1 is the END of the open chain 2->3->4->1; the writer detaches it and closes 2->3->4->2 (cycle for beta0)
        init = [gens.load_line(dim, 5, 0, rows(5, faces=[], open_chains=[[2, 3, 4, 1]]), [0] * 6)]
        fam("backward" + sfx, dim, init, ["unlink 1 4", "link 1 4 2"], [q.replace(" 4", " 1") for q in face_q])
    # vertex walk (2-D): darts 1, 2, 3 turn around one vertex (next = beta1 o beta2); the writer detaches 3 and closes 1 <-> 2
    b = rows2(6, faces=[], pairs=[(1, 4), (2, 5), (3, 6)])
    for a, c in ((4, 2), (5, 3), (6, 1)):
        b[1][a], b[0][c] = c, a
    init = [gens.load_line(2, 6, 0, b, [0] * 7)]
    fam("vertex", 2, init, ["unlink 1 5", "unlink 1 6", "link 1 5 1"], ["vid 3", "orbit v 3", "orbit vl 3", "eid 3"])
    return out


def hang_scenarios():
    """a kernel that waits forever BY ITSELF on a valid map (finding D15h): collapse_edge on some edges of an anchored split grid
    computes NULL_VERTEX_ID as the new vertex and calls is_orbit_orientation_consistent(NULL), which reads the undefined vertex 0
    and returns StmError::Retry; inside atomically_with_err the call waits for a change that nobody has a reason to make."""
    import props.c15 as c15
    unit = normalize_init(["grid 2 1 224 ncl 0 0 1 1 1 1"], mask=224) + c15.UNIT_ANCH
    two = normalize_init(["grid 2 1 224 ncl 0 0 1 2 1 1"], mask=224) + c15.TWO_ANCH
    p = {"preempt": 2, "cap": 2000}
    return [
        Scenario("hang-collapse-alone", unit, [[["collapse 4"]]], p, tags={"hang"}),
        Scenario("hang-collapse-vs-vertex-rw", unit, [[["collapse 4"]], [["rv 1", "wv 1 0 0"]]], p, tags={"hang"}),
        Scenario("hang-collapse-1x2-vs-vertex-rw", two, [[["collapse 7"]], [["rv 12", "wv 12 1 2"], ["rv 1"]]], p, tags={"hang"}),
    ]


def lockorder_scenarios():
    """commit() takes the locks of its variables one at a time: transactions that write the same variables in different
    program orders (mirror of the Lean examples wxy / wyx of Props/C07Live.lean), a three-variable cycle, and writers
    against a reader of both variables.  Only meaningful with lockgran=1."""
    out = []
    init = [gens.load_line(2, 4, 1, rows2(4, []), [0] * 5), "wv 1 0 0", "wv 2 0 0", "wv 3 0 0", "wa 1 1 10", "wa 1 2 20"]
    w = lambda a, b, x: [f"wv {a} {x} {x}", f"wv {b} {x} {x}"]
    fc = {"full_cap": 100000}
    out.append(Scenario("lock-wxy-wyx", init, [[w(1, 2, 1)], [w(2, 1, 2)]], fc, tags={"lockorder"}))
    out.append(Scenario("lock-wxy-wyx-attr", init, [[["wa 1 1 11", "wv 2 1 1"]], [["wv 2 2 2", "wa 1 1 12"]]], fc, tags={"lockorder"}))
    out.append(Scenario("lock-cycle3", init, [[w(1, 2, 1)], [w(2, 3, 2)], [w(3, 1, 3)]], {"full_cap": 30000}, tags={"lockorder"}))
    out.append(Scenario("lock-writers-vs-reader", init, [[w(1, 2, 1)], [w(2, 1, 2)], [["rv 1", "rv 2"]]], {"full_cap": 30000}, tags={"lockorder"}))
    out.append(Scenario("lock-wxy-wyx-twice", init, [[w(1, 2, 1), w(2, 1, 3)], [w(2, 1, 2), w(1, 2, 4)]], fc, tags={"lockorder"}))
    return out


def lockgran_scenarios(seed, quick):
    """the subset explored at LOCK granularity (`lockgran=1`: decision points before every lock acquisition of commit(), before
    its write-back and before its publish phase; a committing thread is preempted while it holds parking_lot locks)"""
    rng = random.Random(seed + 7)
    tiny = {"preempt": 2 if quick else 3, "cap": 40000 if quick else 200000, "full_cap": 40000 if quick else 200000}
    mid = {"preempt": 2 if quick else 3, "cap": 40000 if quick else 200000}
    out = []
    for s in lockorder_scenarios() + rmw_scenarios() + link_scenarios():
        if any(op.split()[0] == "rmtx" for th in s.threads for tx in th for op in tx):
            continue    # the lock order is the ADDRESS order: needs a map that hcsched can reset instead of rebuilding
        s.params = dict(tiny)
        out.append(s)
    for s in fan_scenarios() + force_scenarios():
        s.params = dict(mid)
        out.append(s)
    out += random_scenarios(rng, 16 if quick else 120, params=dict(mid), prefix="rnd")
    out += random_scenarios(rng, 4 if quick else 30, nthreads=(3,), params={"preempt": 1 if quick else 2, "cap": 5000 if quick else 50000,
                                                                          "random": 200 if quick else 2000, "pct": 200 if quick else 2000},
                            prefix="rnd-mt")
    for s in out:
        s.name += "-lg"
        s.tags = set(s.tags) | {"lockgran"}
        s.params["lockgran"] = 1
    return out


DEEP = {"fan-sew-obs-m0", "fan-unsew-resew-m1", "sew3-unsew3-vs-queries", "query-vs-link-unlink", "d4-sew3-vs-link1-m0",
        "d3-insv-vs-insv"}


def scenarios(tier, seed):
    """quick: every schedule with <= 3 preemptions of the hand-written 2-thread scenarios (all schedules of the tiny ones),
    <= 2 preemptions of the random 2-thread ones; 3-4 threads: <= 1 preemption + 300 random + 300 PCT schedules.
    thorough: 4 preemptions for the DEEP ones, 3 for the random ones (6x as many), 3-4 threads: <= 2 preemptions + 3000 + 3000,
    and every hand-written scenario again with 5000 random + 5000 PCT schedules."""
    rng = random.Random(seed)
    quick = tier == "quick"
    P = 2 if quick else 3
    base = {"preempt": P, "cap": 60000 if quick else 1000000}
    # hand-written 2-thread scenarios: 3 preemptions in both tiers; the DEEP ones 4 in the thorough tier
    mid = {"preempt": 3, "cap": 300000 if quick else 1000000}
    deep = {"preempt": 3 if quick else 4, "cap": 300000 if quick else 1500000}
    hand = rmw_scenarios() + link_scenarios() + query_scenarios() + fan_scenarios() + three_d_scenarios() + d4_scenarios() + d3_scenarios() \
        + setbs_scenarios() + force_scenarios() + remesh_scenarios() + hang_scenarios() + torn_walk_scenarios()
    for s in hand:
        if s.name in DEEP:
            s.params.update(deep)
        elif s.tags & {"fan", "3d", "d4", "d3", "query", "force"} and len(s.threads) == 2:
            s.params.update(mid)
    scs = hand
    rp = {} if quick else {"cap": 200000}
    scs += random_scenarios(rng, 100 if quick else 600, params=rp)
    scs += random_scenarios(rng, 30 if quick else 200, params=rp, mask=31, prefix="rnd3d", dim=3)
    big = {"preempt": 1, "cap": 5000, "random": 300, "pct": 300} if quick else {"preempt": 2, "cap": 50000, "random": 3000, "pct": 3000}
    scs += random_scenarios(rng, 12 if quick else 100, nthreads=(3, 4), params=big, prefix="rnd-mt")
    scs += random_scenarios(rng, 4 if quick else 40, nthreads=(3,), params=big, mask=31, prefix="rnd3d-mt", dim=3)
    scs += remesh_random(rng, 24 if quick else 100, params={} if quick else {"cap": 100000})
    scs += lockgran_scenarios(seed, quick)
    if not quick:
        # the hand-written scenarios again with long random / PCT tails
        for s in rmw_scenarios() + link_scenarios() + query_scenarios() + fan_scenarios() + three_d_scenarios() + d4_scenarios() + d3_scenarios() \
                + setbs_scenarios() + force_scenarios() + remesh_scenarios():
            s.name += "-tail"
            s.params = {"dfs": 0, "random": 5000, "pct": 5000}
            scs.append(s)
    for k, s in enumerate(scs):
        for a, b in base.items():
            s.params.setdefault(a, b)
        s.params.setdefault("seed", seed % 1000003 + k)
        if not quick and "full_cap" in s.params:
            s.params["full_cap"] = 10 * int(s.params["full_cap"])
    names = [s.name for s in scs]
    assert len(set(names)) == len(names)
    return scs


# ---------------------------------------------------------------------------------------------
# running the explorer
# ---------------------------------------------------------------------------------------------

def batch_timeout(part):
    """wall-clock budget of one hcsched process: proportional to the number of schedules it may execute (2 ms each, ten times
    the usual cost) + the watchdog of every scenario"""
    t = 0.0
    for s in part:
        p = s.params
        n = sum(int(p.get(k, 0)) for k in ("cap", "full_cap", "random", "pct"))
        t += 60 + 0.002 * n + 10 * int(p.get("watchdog", 5))
    return t


def run_sched(binary, scs, jobs=4, timeout=None, batch=3):
    """returns {scenario name: {"outcomes": [...], "summary": {...} | None, "errors": [...]}}.
    Every hcsched process keeps (threads of the scenario + 1) cores busy: few processes, small batches pulled dynamically.
    hcsched leaves with exit code 3 after its watchdog reported a `hang` outcome (a spinning worker cannot be cancelled): the
    scenario is done (with that outcome) and the explorer is restarted on the rest of the batch.  A process that exceeds its
    budget is killed and reported (`explorer-timeout`), never waited for."""
    import concurrent.futures as cf
    parts = [scs[i:i + batch] for i in range(0, len(scs), batch)]
    res = {s.name: {"outcomes": [], "summary": None, "errors": []} for s in scs}

    def absorb(out):
        hung = None
        for line in out.split("\n"):
            if not line.strip():
                continue
            try:
                j = json.loads(line)
            except Exception:
                continue
            r = res.get(j.get("scenario"))
            if r is None:
                continue
            if j["type"] == "outcome":
                r["outcomes"].append(j)
            elif j["type"] == "summary":
                r["summary"] = j
            elif j["type"] == "error":
                r["errors"].append(j["what"])
            elif j["type"] == "watchdog-exit":
                hung = j["scenario"]
        return hung

    def work(part):
        todo = list(part)
        while todo:
            text = "\n".join("\n".join(s.text()) for s in todo) + "\n"
            budget = timeout or batch_timeout(todo)
            try:
                p = subprocess.run([binary], input=text, stdout=subprocess.PIPE, stderr=subprocess.DEVNULL, text=True, timeout=budget)
                rc, out = p.returncode, p.stdout
            except subprocess.TimeoutExpired as e:
                out = e.stdout or ""
                out = out.decode(errors="replace") if isinstance(out, bytes) else out
                absorb(out)
                names = [s.name for s in todo if res[s.name]["summary"] is None]
                for s in todo:
                    if res[s.name]["summary"] is None:
                        res[s.name]["errors"].append(f"explorer-timeout: the hcsched process did not finish within {budget:.0f} s and was killed; "
                                                     f"unfinished scenarios of its batch: {names}")
                return
            hung = absorb(out)
            if rc == 3 and hung is not None:
                # done with a `hang` outcome; go on with the scenarios after it
                k = [s.name for s in todo].index(hung)
                todo = todo[k + 1:]
                continue
            for s in todo:
                r = res[s.name]
                if r["summary"] is None and not r["errors"] and not r["outcomes"]:
                    r["errors"].append(f"hcsched stopped before finishing this scenario (exit code {rc})")
            return

    with cf.ThreadPoolExecutor(jobs) as ex:
        list(ex.map(work, parts))
    return res


# ---------------------------------------------------------------------------------------------
# oracles
# ---------------------------------------------------------------------------------------------

STATS = {}


def seq_script(sc, order):
    lines = list(sc.init)
    for t, k in order:
        lines += unit_lines(sc.threads[t][k])
    return lines + ["snap", "wf"]


def parse_seq(sc, order, out):
    """-> (results per transaction in `order`, snap, wf) from a driver transcript of seq_script"""
    pos = len(sc.init)
    res = []
    for t, k in order:
        pos += len(unit_lines(sc.threads[t][k])) - 1
        res.append(out[pos] if pos < len(out) else "<missing>")
        pos += 1
    snap = out[pos] if pos < len(out) else "<missing>"
    wf = out[pos + 1] if pos + 1 < len(out) else "<missing>"
    return res, snap, wf


def run_impl(lines):
    rc, out = hv.run_bin(hv.HCIMPL, "\n".join(lines) + "\n", timeout=600)
    return [x for x in out if x != ""]


def serial_orders(sc, committed, limit=400):
    """orders of the committed transactions: program order of every thread first (interleavings), then everything else"""
    seen = set()
    n = 0
    for perm in itertools.permutations(committed):
        ok = all(not (a[0] == b[0] and a[1] > b[1]) for i, a in enumerate(perm) for b in perm[i + 1:])
        if ok:
            seen.add(perm)
            yield list(perm)
            n += 1
            if n >= limit:
                return
    for perm in itertools.permutations(committed):
        if perm not in seen:
            yield list(perm)
            n += 1
            if n >= limit:
                return


def explain_errors(sc, o, order):
    """error-returning transactions change nothing; is each reported error the answer of SOME position of the serial order?"""
    unexplained = []
    for t, txs in enumerate(o["results"]):
        for k, r in enumerate(txs):
            if committed_result(r) or r in ("tx panic", "panic"):
                continue
            lo = max([i + 1 for i, (a, b) in enumerate(order) if a == t and b < k], default=0)
            hi = min([i for i, (a, b) in enumerate(order) if a == t and b > k], default=len(order))
            found = False
            for p in range(lo, hi + 1):
                cand = order[:p] + [(t, k)] + order[p:]
                res, _, _ = parse_seq(sc, cand, run_impl(seq_script(sc, cand)))
                if res[p] == r:
                    found = True
                    break
            if not found:
                unexplained.append((t, k, r))
    return unexplained


def alone_answer(init, unit):
    """answer of hcimpl to one unit of work run alone on the initial map"""
    out = run_impl(list(init) + unit_lines(unit))
    return out[-1] if out else "<missing>"


def explain_deadlock(sc, o, order, flat):
    """A kernel's retry() waits until some variable it read changes.  The wait is not a concurrency defect when the same
    transaction also answers `retry` in the one-at-a-time execution (it was handed arguments that are invalid in that
    state, e.g. an edge removed by a committed collapse): every finished transaction must agree with the sequential run
    in commit order, and every unfinished thread's next transaction must answer `retry` after it.  None = explained."""
    blocked = [(t, len(txs)) for t, txs in enumerate(o["results"]) if len(txs) < len(sc.threads[t])]
    if not blocked:
        return "no unfinished transaction found"
    # a transaction that answers `retry` when it runs ALONE on the initial map waits forever by itself on a valid input:
    # that is not an invalid argument created by the other threads but a violation of "all threads terminate"
    for t, k in blocked:
        if alone_answer(sc.init, sc.threads[t][k]) in ("tx retry", "retry"):
            return (f"hang-alone: thread {t} transaction {k} {sc.threads[t][k]} waits forever in a blocking retry although it answers "
                    f"`retry` when it is run alone, first, on the initial map (no other transaction is needed to make it hang)")
    if sorted(tk for tk, r in flat.items() if committed_result(r)) != sorted(order) or any(r in ("tx panic", "panic") for r in flat.values()):
        return "results and commit order disagree"
    res, _, _ = parse_seq(sc, order, run_impl(seq_script(sc, order)))
    if res != [flat[tk] for tk in order]:
        return f"the finished transactions do not agree with the sequential run in commit order {order}: {res}"
    for t, k in blocked:
        cand = order + [(t, k)]
        res, _, _ = parse_seq(sc, cand, run_impl(seq_script(sc, cand)))
        if res[-1] not in ("tx retry", "retry"):
            return f"thread {t} transaction {k} blocks although it answers {res[-1]!r} when run after the committed transactions {order}"
    return None


def oracle(case, li):
    """li = hcimpl transcript of the sequential script in the observed commit order"""
    sc, o = case.meta["scenario"], case.meta["outcome"]
    order = commit_order(o)
    if len(order) != len(o["commit_order"]):
        STATS["calls_with_several_commits"] = STATS.get("calls_with_several_commits", 0) + 1
    if any(x.startswith("<missing") for x in li):
        return "driver died on the sequential script"
    flat = {(t, k): r for t, txs in enumerate(o["results"]) for k, r in enumerate(txs)}
    if o["status"] == "deadlock":
        why = explain_deadlock(sc, o, order, flat)
        if why is None:
            STATS["deadlocks_reproduced_sequentially"] = STATS.get("deadlocks_reproduced_sequentially", 0) + 1
            return None
        if why.startswith("hang-alone"):
            STATS["hangs_alone"] = STATS.get("hangs_alone", 0) + 1
            return why
        return "deadlock: every unfinished thread waits for a lock or in a blocking retry; " + why
    if o["status"] == "hang" and o.get("watchdog"):
        t, k = o.get("hang_thread"), o.get("hang_unit")
        return (f"hang: thread {t} unit {k} {o.get('hang_ops')} held the baton for {o.get('watchdog_s')} s of CPU time without reaching a "
                f"yield point or finishing: it spins inside its closure (every read now comes from its own log), instead of failing "
                f"validation and retrying")
    if o["status"] != "ok":
        return f"{o['status']}: the schedule ends in {o['status']}"
    if any(r in ("tx panic", "panic") for r in flat.values()):
        return "panic: a transaction panicked: " + ", ".join(f"thread {t} tx {k}" for (t, k), r in flat.items() if r in ("tx panic", "panic"))
    okset = sorted(tk for tk, r in flat.items() if committed_result(r))
    if okset != sorted(order):
        return f"bookkeeping: transactions answering `tx ok` {okset} are not the committed ones {sorted(order)}"
    want = ([flat[tk] for tk in order], o["snap"], o["wf"])
    got = parse_seq(sc, order, li)
    how = None
    if got == want:
        how = "commit-order"
    else:
        for cand in serial_orders(sc, order):
            if cand == order:
                continue
            g = parse_seq(sc, cand, run_impl(seq_script(sc, cand)))
            if g == ([flat[tk] for tk in cand], o["snap"], o["wf"]):
                how = "other-order"
                case.meta["serial_order"] = cand
                break
    if how is None:
        diff = []
        for tk, a, b in zip(order, want[0], got[0]):
            if a != b:
                diff.append(f"thread {tk[0]} tx {tk[1]}: concurrent {a!r} / sequential {b!r}")
        if want[1] != got[1]:
            diff.append(f"final map: concurrent {want[1]!r} / sequential {got[1]!r}")
        return ("not-serializable: no one-at-a-time order of the committed transactions " + str(order) +
                " gives these results and this final map; against the commit order: " + "; ".join(diff))
    STATS[how] = STATS.get(how, 0) + 1
    if o["wf"] != "wf true true true" and "raw" not in sc.tags:
        return f"not-wf: final map is not well formed: {o['wf']}"
    if any(not committed_result(r) for r in flat.values()):
        un = explain_errors(sc, o, case.meta.get("serial_order", order))
        STATS["error_results"] = STATS.get("error_results", 0) + sum(1 for r in flat.values() if not committed_result(r))
        if un:
            STATS["unexplained_errors"] = STATS.get("unexplained_errors", 0) + len(un)
            STATS.setdefault("unexplained_error_examples", [])
            if len(STATS["unexplained_error_examples"]) < 5:
                STATS["unexplained_error_examples"].append(
                    {"scenario": sc.name, "commit_order": o["commit_order"], "errors": [list(x) for x in un], "witness": o["witness"]})
    return None


# ---------------------------------------------------------------------------------------------
# signatures of the two defect classes the explorer found on the tree before cc2bcd4 / f79acf8 (re-derived from the raw
# replay payload; used to report a regression once per class)
# ---------------------------------------------------------------------------------------------

def _threads_of(lines):
    threads, init, cur = [], [], None
    for ln in lines[1:]:
        if ln == "thread":
            threads.append([])
        elif ln == "tx":
            cur = []
        elif ln == "endtx":
            threads[-1].append(cur)
            cur = None
        elif ln == "end":
            break
        elif cur is not None:
            cur.append(ln)
        elif not threads:
            init.append(ln)
        else:
            threads[-1].append([ln])
    return init, threads


def _not_serializable(v):
    return v.get("kind") == "oracle" and str(v.get("replay", {}).get("oracle_failure", "")).startswith("not-serializable")


def d4_signature(v):
    """D4 under concurrency: a 3-map; the outcome is not serializable; every result is `tx ok`; the final map has the beta rows
    and removal flags of the sequential run in commit order and differs from it only in attribute / vertex rows (the links are
    made by the transactional walk of three_link, the merges/splits by the stale non-transactional orbit); a transaction with
    `sew 3`/`unsew 3` commits after a transaction of ANOTHER thread that 1-links/1-unlinks a dart of one of the two faces."""
    if not _not_serializable(v):
        return False
    rp = v["replay"]
    try:
        init, threads = _threads_of(rp["scenario_lines"])
        if init[0].split()[1] != "3":
            return False
        o = rp["outcome"]
        order = [tuple(x) for x in o["commit_order"]]
        if any(not r.startswith("tx ok") for txs in o["results"] for r in txs) or o["wf"] != "wf true true true":
            return False
        conc, seq = gens.parse_snap(o["snap"]), gens.parse_snap(rp["sequential_snap"])
        if any(conc[k] != seq[k] for k in ("n", "b0", "b1", "b2", "b3", "u")) or conc == seq:
            return False
        s0 = gens.parse_snap(rp["initial_snap"])
        n = s0["n"]
        # faces = components of the graph of beta1 / beta3 edges of the initial and final maps and of every 1-/3-link op
        adj = {d: set() for d in range(n)}

        def edge(a, b):
            if 0 < a < n and 0 < b < n:
                adj[a].add(b)
                adj[b].add(a)

        for s in (s0, conc):
            for d in range(1, n):
                edge(d, s["b1"][d])
                edge(d, s["b3"][d])
        ops = [(t, k, op.split()) for t, th in enumerate(threads) for k, tx in enumerate(th) for op in tx]
        for _, _, tk in ops:
            if tk[0] in ("link", "sew") and tk[1] in ("1", "3"):
                edge(int(tk[2]), int(tk[3]))

        def comp(x):
            seen, todo = {x}, [x]
            while todo:
                for y in adj.get(todo.pop(), ()):
                    if y not in seen:
                        seen.add(y)
                        todo.append(y)
            return seen

        for t, k, tk in ops:
            if tk[0] in ("sew", "unsew") and tk[1] == "3" and (t, k) in order:
                face = comp(int(tk[2])) | (comp(int(tk[3])) if tk[0] == "sew" else set())
                for t2, k2, tk2 in ops:
                    if t2 != t and tk2[0] in ("link", "unlink", "sew", "unsew") and tk2[1] == "1" and (t2, k2) in order \
                            and order.index((t2, k2)) < order.index((t, k)) and any(int(x) in face for x in tk2[2:]):
                        return True
        return False
    except Exception:
        return False


def d3_signature(v):
    """D3 under concurrency: a 2-map; not serializable; a committed `insv`/`insvs` transaction follows, in commit order, a
    committed transaction of ANOTHER thread that links/unlinks/sews/unsews (or inserts) one of its spare darts."""
    if not _not_serializable(v):
        return False
    rp = v["replay"]
    try:
        init, threads = _threads_of(rp["scenario_lines"])
        if init[0].split()[1] != "2":
            return False
        o = rp["outcome"]
        order = [tuple(x) for x in o["commit_order"]]
        ops = [(t, k, op.split()) for t, th in enumerate(threads) for k, tx in enumerate(th) for op in tx]
        for t, k, tk in ops:
            if tk[0] not in ("insv", "insvs") or (t, k) not in order:
                continue
            spares = {int(tk[2]), int(tk[3])} if tk[0] == "insv" else {int(x) for x in tk[3:3 + int(tk[2])]}
            spares.discard(0)
            for t2, k2, tk2 in ops:
                if t2 == t or (t2, k2) not in order or order.index((t2, k2)) > order.index((t, k)):
                    continue
                if tk2[0] in ("link", "unlink", "sew", "unsew"):
                    touched = {int(x) for x in tk2[2:]}
                elif tk2[0] == "insv":
                    touched = {int(tk2[2]), int(tk2[3])}
                elif tk2[0] == "insvs":
                    touched = {int(x) for x in tk2[3:3 + int(tk2[2])]}
                else:
                    continue
                if touched & spares:
                    return True
        return False
    except Exception:
        return False


def d15h_signature(v):
    """D15h: the schedule ends with every unfinished thread in a blocking retry; exactly one transaction is unfinished; it is the
    single kernel call `collapse <edge>`; re-run alone on the initial map of the scenario it answers `retry` (recomputed here
    with hcimpl from the raw replay payload).  Any other hang / deadlock is not matched."""
    if v.get("kind") != "oracle":
        return False
    rp = v.get("replay", {})
    if not str(rp.get("oracle_failure", "")).startswith("hang-alone"):
        return False
    try:
        o = rp["outcome"]
        if o["status"] not in ("deadlock", "hang"):
            return False
        init, threads = _threads_of(rp["scenario_lines"])
        blocked = [(t, len(txs)) for t, txs in enumerate(o["results"]) if len(txs) < len(threads[t])]
        if len(blocked) != 1:
            return False
        t, k = blocked[0]
        unit = threads[t][k]
        if len(unit) != 1 or unit[0].split()[0] != "collapse" or len(unit[0].split()) != 2:
            return False
        return alone_answer(init, unit) in ("tx retry", "retry")
    except Exception:
        return False


def matches(known, v):
    """D15h (collapse_edge hangs by itself on some valid anchored meshes).  The two non-transactional-read defects the explorer
    found earlier are repaired in /repo (cc2bcd4: transactional is_free in the vertex insertion kernels, f79acf8: orbit_transac in
    three_sew/three_unsew): the scenarios that exhibited them (d3_scenarios, d4_scenarios) stay in every tier as regression
    targets; d3_signature / d4_signature only group the violations of a regression."""
    if known.get("matcher", {}).get("signature") == "collapse-edge-blocking-retry-alone-on-initial-map":
        return d15h_signature(v)
    return False


# ---------------------------------------------------------------------------------------------
# the check
# ---------------------------------------------------------------------------------------------

def initial_snaps(scs):
    text = []
    for s in scs:
        text += [f"# case {s.name}"] + list(s.init) + ["snap"]
    rc, out = hv.run_bin(hv.HCIMPL, "\n".join(text) + "\n")
    return {cid: (ls[-1] if ls else "") for cid, ls in hv.split_outputs(out)}


def check_scenarios(binary, scs, jobs=4):
    """explore + oracles; returns a result dict in the shape of hv.campaign"""
    STATS.clear()
    res = run_sched(binary, scs, jobs=jobs)
    cases, violations = [], []
    by_name = {s.name: s for s in scs}
    agg = {"scenarios": len(scs), "schedules": 0, "by_mode": {}, "distinct_outcomes": 0, "retries": 0, "runs_with_retry": 0,
           "atomic_reads": 0, "first_reads": 0, "stm_blocks": 0, "diverged_replays": 0, "max_preemptions": 0, "exhaustive_scenarios": 0,
           "truncated_scenarios": 0, "scenarios_with_retries": 0, "scenarios_with_2plus_commit_orders": 0,
           "max_distinct_commit_orders": 0, "max_steps_per_run": 0, "by_family": {},
           "lock_granularity": {"scenarios": 0, "schedules": 0, "schedules_with_preemption_inside_commit": 0,
                                "max_locks_held_at_preemption": 0, "lock_waits": 0, "lock_acquisitions": 0,
                                "exhaustive_scenarios": 0, "distinct_outcomes": 0}}
    for s in scs:
        r = res[s.name]
        for e in r["errors"]:
            violations.append({"kind": "explorer-timeout" if e.startswith("explorer-timeout") else "explorer",
                               "what": f"hcsched failed on scenario {s.name}: {e}", "found_input": False,
                               "replay": {"theorem_or_correspondence": "schedule exploration of " + s.name, "scenario_lines": s.text()}})
        sm = r["summary"]
        if sm:
            for k in ("schedules", "retries", "runs_with_retry", "atomic_reads", "first_reads", "stm_blocks", "diverged_replays"):
                agg[k] += sm.get(k, 0)
            for k, n in sm["by_mode"].items():
                agg["by_mode"][k] = agg["by_mode"].get(k, 0) + n
            agg["distinct_outcomes"] += sm["distinct_outcomes"]
            agg["max_preemptions"] = max(agg["max_preemptions"], sm["max_preemptions"])
            agg["max_steps_per_run"] = max(agg["max_steps_per_run"], sm["max_steps"])
            agg["exhaustive_scenarios"] += bool(sm["exhaustive"])
            agg["truncated_scenarios"] += bool(sm["truncated"])
            agg["scenarios_with_retries"] += sm["retries"] > 0
            agg["scenarios_with_2plus_commit_orders"] += sm["distinct_commit_orders"] >= 2
            agg["max_distinct_commit_orders"] = max(agg["max_distinct_commit_orders"], sm["distinct_commit_orders"])
            fam = sorted(s.tags - {"raw", "lockgran"})[0] if s.tags - {"raw", "lockgran"} else "other"
            if "lockgran" in s.tags:
                fam += "@lock"
                lg = agg["lock_granularity"]
                lg["scenarios"] += 1
                lg["schedules"] += sm["schedules"]
                lg["schedules_with_preemption_inside_commit"] += sm.get("runs_with_commit_preemption", 0)
                lg["max_locks_held_at_preemption"] = max(lg["max_locks_held_at_preemption"], sm.get("max_locks_held_at_preemption", 0))
                lg["lock_waits"] += sm.get("lock_waits", 0)
                lg["lock_acquisitions"] += sm.get("lock_acquires", 0)
                lg["exhaustive_scenarios"] += bool(sm["exhaustive"])
                lg["distinct_outcomes"] += sm["distinct_outcomes"]
            f = agg["by_family"].setdefault(fam, {"scenarios": 0, "schedules": 0, "outcomes": 0, "retries": 0})
            f["scenarios"] += 1
            f["schedules"] += sm["schedules"]
            f["outcomes"] += sm["distinct_outcomes"]
            f["retries"] += sm["retries"]
        for k, o in enumerate(r["outcomes"]):
            order = commit_order(o)
            cases.append(Case(f"{s.name}#{k}", seq_script(s, order), oracle="c07",
                              meta={"sig": "+".join(sorted(s.tags)), "scenario": s, "outcome": o}))
    camp = hv.campaign(cases, oracle, max_report=20)
    inits = None
    for v in camp["violations"]:
        rp = v.get("replay", {})
        cid = rp.get("case", "")
        s = by_name.get(cid.split("#")[0])
        if not s:
            continue
        o = res[s.name]["outcomes"][int(cid.split("#")[1])]
        if inits is None:
            inits = initial_snaps(scs)
        wit = ",".join(map(str, o["witness"]))
        rp["scenario_lines"] = s.text({"replay": wit, "trace": 1})
        rp["outcome"] = o
        rp["witness_schedule"] = o["witness"]
        rp["initial_snap"] = inits.get(s.name, "")
        rp["sequential_snap"] = parse_seq(s, commit_order(o), rp.get("impl_output", []))[1]
        rp["replay_cmd"] = f"printf '%s\\n' <scenario_lines> | {HCSCHED}   (one schedule, with the event trace); sequential reference: " \
                           f"printf '%s\\n' <input_lines> | {hv.HCIMPL_PATH}"
    violations += camp["violations"]
    st = camp["stats"]
    st["sched"] = agg
    st["serializable_in_commit_order"] = STATS.get("commit-order", 0)
    st["serializable_in_other_order_only"] = STATS.get("other-order", 0)
    st["error_results"] = STATS.get("error_results", 0)
    st["unexplained_errors"] = STATS.get("unexplained_errors", 0)
    st["unexplained_error_examples"] = STATS.get("unexplained_error_examples", [])
    st["calls_with_several_commits"] = STATS.get("calls_with_several_commits", 0)
    st["deadlocks_reproduced_sequentially"] = STATS.get("deadlocks_reproduced_sequentially", 0)
    st["hangs_alone"] = STATS.get("hangs_alone", 0)
    samples = []
    for s in scs[:400]:
        r = res[s.name]
        if r["summary"] and r["summary"]["distinct_commit_orders"] >= 2 and len(samples) < 3:
            samples.append({"scenario": s.text(), "summary": r["summary"],
                            "outcomes": [{k: o[k] for k in ("commit_order", "results", "count")} for o in r["outcomes"][:4]]})
    return {"stats": st, "violations": violations, "samples": samples, "notes": []}, res


def dedupe(violations):
    """one violation per known-finding class (the others of the class are the same defect on other schedules/scenarios)"""
    seen, out = set(), []
    for v in violations:
        key = "D4" if d4_signature(v) else "D3" if d3_signature(v) else "D15h" if d15h_signature(v) else None
        if key and key in seen:
            continue
        seen.add(key)
        out.append(v)
    return out


def run(tier, seed):
    parts = []
    pre = []
    ok_tie, msg, marked = vendor_tie()
    if not ok_tie:
        pre.append({"kind": "tie", "what": "the vendored fast-stm is no longer the registry copy plus `// VERIF` lines: " + msg,
                    "found_input": False, "replay": {"theorem_or_correspondence": "vendor/fast-stm == registry fast-stm-0.5.0 modulo // VERIF lines"}})
    ok, log, binary = build_sched()
    if not ok:
        errs = [l for l in log.split("\n") if l.startswith("error")]
        pre.append({"kind": "harness-build", "what": "the schedule explorer no longer builds against /repo: " + " | ".join(errs[:5]),
                    "found_input": False, "replay": {"theorem_or_correspondence": "cargo build of /verif/harness-sched", "log": log[-3000:]}})
        r = {"stats": {"cases": 0}, "violations": pre, "samples": [], "notes": []}
        return hv.merge_results([("schedule exploration", r)])
    scs = scenarios(tier, seed)
    r, _ = check_scenarios(binary, scs, jobs=4 if tier == "quick" else 6)
    r["violations"] = pre + dedupe(r["violations"])
    agg = r["stats"]["sched"]
    r["stats"]["vendor_marked_lines"] = marked
    # the exploration must not be vacuous
    if agg["retries"] == 0 or agg["scenarios_with_2plus_commit_orders"] == 0:
        r["violations"].append({"kind": "vacuous", "what": f"the exploration produced no conflicting interleaving (retries={agg['retries']}, "
                                f"scenarios with >= 2 commit orders={agg['scenarios_with_2plus_commit_orders']})", "found_input": False,
                                "replay": {"theorem_or_correspondence": "coverage of the schedule exploration"}})
    res = hv.merge_results([("schedule exploration: every distinct outcome vs sequential runs (hcimpl) and the model (hcmodel)", r)])
    for k in ("sched", "serializable_in_commit_order", "serializable_in_other_order_only", "error_results", "unexplained_errors",
              "unexplained_error_examples", "vendor_marked_lines", "calls_with_several_commits", "deadlocks_reproduced_sequentially", "hangs_alone"):
        res["stats"][k] = r["stats"][k]
    res["stats"]["exhaustive"] = False
    res["notes"].append(
        f"explorer: {agg['scenarios']} scenarios, {agg['schedules']} schedules ({agg['by_mode']}), {agg['distinct_outcomes']} distinct outcomes, "
        f"{agg['retries']} failed validations (retries) in {agg['runs_with_retry']} runs, {agg['atomic_reads']} non-transactional reads, "
        f"{agg['scenarios_with_2plus_commit_orders']} scenarios with >= 2 commit orders, {agg['exhaustive_scenarios']} scenarios explored exhaustively")
    return res


# ---------------------------------------------------------------------------------------------
# self-test: a broken STM must be caught
# ---------------------------------------------------------------------------------------------

def selftest():
    """scratch copy of the workspace whose commit skips the validation of read entries: the rmw scenarios must become
    non-serializable (lost update), and the tie check must reject the mutated vendor copy."""
    scratch = os.path.join(hv.BUILD, "sched-selftest")
    shutil.rmtree(scratch, ignore_errors=True)
    shutil.copytree(SCHED, scratch, ignore=shutil.ignore_patterns("target"))
    cfg = os.path.join(scratch, ".cargo", "config.toml")
    text = open(cfg).read().replace("/verif/.build/sched-target", os.path.join(hv.BUILD, "sched-selftest-target"))
    open(cfg, "w").write(text)
    p = os.path.join(scratch, "vendor", "fast-stm", "src", "transaction", "mod.rs")
    src = open(p).read()
    assert src.count("if !Arc::ptr_eq(&lock, original) {") == 2
    open(p, "w").write(src.replace("if !Arc::ptr_eq(&lock, original) {", "if false && !Arc::ptr_eq(&lock, original) {"))
    ok_tie, msg, _ = vendor_tie(os.path.join(scratch, "vendor", "fast-stm"))
    print("tie check on the mutated copy:", "REJECTED (" + msg + ")" if not ok_tie else "accepted (BAD)")
    rc, out = hv.sh(["cargo", "build", "--release", "--offline"], cwd=scratch, timeout=3000)
    if rc != 0:
        print(out[-2000:])
        return 2
    binary = os.path.join(hv.BUILD, "sched-selftest-target", "release", "hcsched")
    ok_c, _ = hv.cargo_build()
    ok_l, _ = hv.lake_build(["hcmodel"])
    scs = rmw_scenarios() + fan_scenarios()[:2]
    for k, s in enumerate(scs):
        s.params.setdefault("preempt", 2)
        s.params.setdefault("cap", 40000)
    r, res = check_scenarios(binary, scs, jobs=2)
    bad = [v for v in r["violations"] if str(v.get("replay", {}).get("oracle_failure", "")).startswith("not-serializable")]
    print(f"mutated STM: {len(r['violations'])} violations, {len(bad)} non-serializable outcomes; sched stats: "
          f"{ {k: r['stats']['sched'][k] for k in ('scenarios', 'schedules', 'distinct_outcomes', 'retries')} }")
    for v in bad[:3]:
        print("  ", v["what"][:600])
        print("     witness schedule:", v["replay"]["witness_schedule"])
    lost = [v for v in bad if v["replay"]["case"].startswith("rmw-")]
    print("SELFTEST", "PASSED: the explorer finds the lost update" if (lost and not ok_tie) else "FAILED")
    return 0 if (lost and not ok_tie) else 1


REPO_MUTANTS = [
    # (file, old text, new text, families that must catch it)
    ("honeycomb-core/src/cmap/dim2/utils.rs",
     """        atomically(|trans| {
            self.betas[(0, dart_id)].write(trans, b0)?;
            self.betas[(1, dart_id)].write(trans, b1)?;
            self.betas[(2, dart_id)].write(trans, b2)?;
            Ok(())
        });""",
     """        atomically(|trans| self.betas[(0, dart_id)].write(trans, b0));
        atomically(|trans| self.betas[(1, dart_id)].write(trans, b1));
        atomically(|trans| self.betas[(2, dart_id)].write(trans, b2));""", "setbs"),
    ("honeycomb-kernels/src/remeshing/cut.rs",
     """        (Some(v1), Some(v2)) => Vertex2::average(&v1, &v2),
        _ => retry()?,
    };""",
     """        (Some(v1), Some(v2)) => Vertex2::average(&v1, &v2),
        _ => unreachable!(),
    };""", "remesh"),
]


def selftest_repo():
    """scratch copy of /repo under /tmp with two seeded changes (set_betas split into three transactions; the retry() arm
    of cut_outer_edge replaced by unreachable!()), scratch copy of the explorer built against it: the setbs family must
    report a non-serializable read, the remesh family a panic.  /repo itself is never touched."""
    scratch_repo = "/tmp/c07-repo-mut"
    shutil.rmtree(scratch_repo, ignore_errors=True)
    shutil.copytree(hv.REPO, scratch_repo, ignore=shutil.ignore_patterns("target", ".git"))
    for rel, old, new, _ in REPO_MUTANTS:
        p = os.path.join(scratch_repo, rel)
        src = open(p).read()
        if src.count(old) < 1:
            print(f"mutation site not found in {rel}")
            return 2
        open(p, "w").write(src.replace(old, new, 1))   # first occurrence (cut.rs: cut_outer_edge)
    scratch = os.path.join(hv.BUILD, "sched-selftest-repo")
    shutil.rmtree(scratch, ignore_errors=True)
    shutil.copytree(SCHED, scratch, ignore=shutil.ignore_patterns("target"))
    cfg = os.path.join(scratch, ".cargo", "config.toml")
    text = open(cfg).read().replace("/verif/.build/sched-target", os.path.join(hv.BUILD, "sched-selftest-repo-target"))
    open(cfg, "w").write(text)
    man = os.path.join(scratch, "hcsched", "Cargo.toml")
    mtext = open(man).read().replace('"/repo/', f'"{scratch_repo}/')
    open(man, "w").write(mtext)
    rc, out = hv.sh(["cargo", "build", "--release", "--offline"], cwd=scratch, timeout=3000)
    if rc != 0:
        print(out[-3000:])
        return 2
    binary = os.path.join(hv.BUILD, "sched-selftest-repo-target", "release", "hcsched")
    hv.cargo_build()
    hv.lake_build(["hcmodel"])
    scs = [s for s in scenarios("quick", 20260926) if s.tags & {"setbs", "remesh", "remesh-random"}]
    r, res = check_scenarios(binary, scs, jobs=4)
    ok = True
    for fam, want in (("setbs", "not-serializable"), ("remesh", "panic")):
        hits = [v for v in r["violations"] if fam in v.get("sig", "") and str(v.get("replay", {}).get("oracle_failure", "")).startswith(want)]
        print(f"family {fam}: {len(hits)} violation(s) of kind {want!r}")
        for v in hits[:2]:
            print("   ", v["what"][:500])
            print("      witness schedule:", v["replay"].get("witness_schedule"))
        ok = ok and bool(hits)
    other = [v for v in r["violations"] if not str(v.get("replay", {}).get("oracle_failure", "")).startswith(("not-serializable", "panic"))]
    print(f"other violations: {len(other)}", [v["what"][:200] for v in other[:3]])
    print("SELFTEST-REPO", "PASSED: both seeded changes are caught by the quick families" if ok else "FAILED")
    return 0 if ok else 1


def selftest_lockorder():
    """scratch copy of the workspace whose commit() walks its variables in REVERSE order on odd thread numbers (two lock orders):
    the lock-granularity exploration of the lock-order family must find a DEADLOCK with a witness schedule; the unmodified
    vendored crate (one global order = address order) must not, on the same scenarios."""
    scratch = os.path.join(hv.BUILD, "sched-selftest-lock")
    shutil.rmtree(scratch, ignore_errors=True)
    shutil.copytree(SCHED, scratch, ignore=shutil.ignore_patterns("target"))
    cfg = os.path.join(scratch, ".cargo", "config.toml")
    text = open(cfg).read().replace("/verif/.build/sched-target", os.path.join(hv.BUILD, "sched-selftest-lock-target"))
    open(cfg, "w").write(text)
    p = os.path.join(scratch, "vendor", "fast-stm", "src", "transaction", "mod.rs")
    src = open(p).read()
    old = "        for (var, value) in &self.vars {\n            // lock the variable and read the value\n"
    assert src.count(old) == 1
    new = ("        let verif_walk: Vec<_> = if crate::verif::thread_id() % 2 == 1 { self.vars.iter().rev().collect() } "
           "else { self.vars.iter().collect() };\n"
           "        for (var, value) in verif_walk {\n            // lock the variable and read the value\n")
    open(p, "w").write(src.replace(old, new))
    ok_tie, msg, _ = vendor_tie(os.path.join(scratch, "vendor", "fast-stm"))
    print("tie check on the mutated copy:", "REJECTED (" + msg + ")" if not ok_tie else "accepted (BAD)")
    rc, out = hv.sh(["cargo", "build", "--release", "--offline"], cwd=scratch, timeout=3000)
    if rc != 0:
        print(out[-2000:])
        return 2
    mutant = os.path.join(hv.BUILD, "sched-selftest-lock-target", "release", "hcsched")
    ok, log, pristine = build_sched()
    if not ok:
        print(log[-2000:])
        return 2
    hv.cargo_build()
    hv.lake_build(["hcmodel"])

    def fam():
        scs = [s for s in lockgran_scenarios(20260926, True) if "lockorder" in s.tags]
        for s in scs:
            s.params.setdefault("seed", 1)
        return scs

    verdict = True
    for name, binary, want_deadlock in (("two lock orders (reversed walk on odd threads)", mutant, True),
                                        ("one global lock order (unmodified vendored crate)", pristine, False)):
        r, res = check_scenarios(binary, fam(), jobs=3)
        dl = [v for v in r["violations"] if str(v.get("replay", {}).get("oracle_failure", "")).startswith("deadlock")]
        lg = r["stats"]["sched"]["lock_granularity"]
        print(f"{name}: {lg['schedules']} schedules, {lg['schedules_with_preemption_inside_commit']} with a preemption inside commit, "
              f"{lg['lock_waits']} lock waits; {len(r['violations'])} violations, {len(dl)} deadlock outcome(s)")
        for v in dl[:2]:
            print("   ", v["replay"]["case"], "witness schedule:", v["replay"]["witness_schedule"])
        hit = any(v["replay"]["case"].startswith("lock-wxy-wyx-lg") for v in dl)
        verdict = verdict and (hit if want_deadlock else not r["violations"])
    print("SELFTEST-LOCKORDER", "PASSED: two lock orders deadlock (witness above), the address order never does" if (verdict and not ok_tie) else "FAILED")
    return 0 if (verdict and not ok_tie) else 1


if __name__ == "__main__":
    if "--selftest-lockorder" in sys.argv:
        sys.exit(selftest_lockorder())
    if "--selftest" in sys.argv:
        sys.exit(selftest())
    if "--selftest-repo" in sys.argv:
        sys.exit(selftest_repo())
    print(__doc__)
