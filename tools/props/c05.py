"""C05 — 3-D sew/unsew keep embedded data attached to the right cells.

Tie (every case runs on hcmodel and hcimpl) + oracle evaluated on the implementation's transcript.  A *checked call*
is a `sew|unsew|fsew|funsew i l [r]` line with a `snap` line immediately before and after it.

Oracle, per checked call (failure texts start with a tag):
  [unchanged]   the call did not answer `ok` but the two snapshots differ;
  [topology]    after `ok` the four β rows differ from the effect of the matching link/unlink recomputed in Python
                from the snapshot before (1-link + its β3 side effect, 2-link, lock-step 3-link), or a removal flag /
                the dart count changed; [twin] the same comparison against the real `link/unlink` replayed on an
                identical map inside the same case (after a `# twin` line);
  [frame]       a storage bound to a cell kind the call does not merge (volumes: always) changed;
  [merge] [split] [kept] [stale]   the data clauses of the property, with cells recomputed by union-find from the β
                rows (closure under the generator sets of dim3/orbits.rs and their inverses), id = smallest dart;
  [unsew-refused]  an unsew of a sewn dart of a fully embedded closed-face map did not answer `ok`;
  [round-trip]  sew immediately followed by the matching unsew does not restore the four cell partitions;
  [tx-seq]      a `tx … endtx` block does not answer / leave the map as the same calls run one by one (after `# seq`) do;
  [oracle-model] the cells recomputed after the call are not the ones predicted from the corner/side/face
                identifications of the call (would be a bug of this file or an unexpected topology).
A data-clause failure of a 1-sew/1-unsew on a dart of a 3-sewn face is prefixed with `[1-sew-on-3-sewn-face]` when
`one_sew_signature` recognises the cause of the former defect D13 (FIXED in /repo e8bc83e: vertex_id_transac did not traverse
b2(b3(d)), so on the open 3-sewn face the ids computed by one_sew/one_unsew were not the smallest darts of the vertex cells).
No known finding absorbs the tag any more: a reappearance is a VIOLATION; the tag only tells what to look at.
The data clauses are evaluated on well-formed, mirrored maps with closed faces (2-/3-calls: before the call;
1-sew: after it; 1-unsew: before it) and, per cell kind, only when no cell takes part in two identifications of
the call (the property's proviso) — otherwise the kind is counted in `skipped-multi`.
"""
import random
import re

import gens
import hv
from hv import Case

# the other agent adjusts this list when Honeycomb/Props/C05.lean changes — single place
REQUIRED_THEOREMS = [
        # Props/C04Gen.lean: the translated AttrSparseVec::merge / split ARE the model's mergeS / splitS (program equality)
        "C04_gen_merge_dispatch", "C04_gen_split_dispatch", "C04_gen_mergeS", "C04_gen_splitS",
        # Props/C05Gen.lean: the translated CMap3::one_sew / one_unsew / two_sew / two_unsew ARE the model's (program equality)
        "C05_gen_oneSew3", "C05_gen_oneUnsew3", "C05_gen_twoSew3", "C05_gen_twoUnsew3", "C05_gen_sews_topology", "C05_gen_unsews_topology",
        # Props/C05Gen3.lean: the translated CMap3::three_sew / three_unsew (skeleton, both for-loops, filter closures) ARE the model's
        "C05_gen_threeSewCollect_step", "C05_gen_threeUnsewLoop_step", "C05_gen_threeSewCollect", "C05_gen_threeUnsewLoop",
        "C05_gen_threeSew3", "C05_gen_threeUnsew3", "C05_gen_three_sews_topology", "condAllS_keepPair", "C18_gen_attr_loops",
    "C05_oneSew3_topology", "C05_twoSew3_topology", "C05_threeSew3_topology",
    "C05_oneUnsew3_topology", "C05_twoUnsew3_topology", "C05_threeUnsew3_topology",
    "C05_links_keep_data", "C05_oneSew3_effect", "C05_oneUnsew3_effect",
    "C05_twoSew3_free", "C05_twoSew3_left", "C05_twoSew3_right", "C05_twoSew3_both", "C05_twoUnsew3_effect",
    "C05_threeSew3_effect", "C05_threeSew3_vertices", "C05_threeUnsew3_effect",
    "C05_vertexId3_is_cell_min", "C05_oneSew3_cells", "C05_oneUnsew3_cells",
    "C05_edgeId3_is_cell_min", "C05_twoSew3_cells", "C05_twoUnsew3_cells", "C05_threeSew3_faces", "C05_threeSew3_cells",
    "C05_threeUnsew3_cells",
    "C05_oneUnsew3_succeeds", "C05_twoUnsew3_succeeds", "C05_threeUnsew3_succeeds", "C05_threeSew3_vertices_far",
    "C05_twoSew3_cells_free", "C05_twoSew3_cells_left", "C05_twoSew3_cells_right",
    "C05_twoUnsew3_cells_free", "C05_twoUnsew3_cells_left", "C05_twoUnsew3_cells_right",
    "C05_threeSew3_cells_open", "C05_threeUnsew3_cells_open",
    "C05_oneUnsew3_succeeds_law", "C05_twoUnsew3_succeeds_law", "C05_threeUnsew3_succeeds_law",
    "C05_threeSew3_vertices_far_open",
]

SPEC = {
    "lean_modules": ["Honeycomb.Props.C05", "Honeycomb.Props.C05Cells", "Honeycomb.Props.C05Cells2", "Honeycomb.Props.C05Succ", "Honeycomb.Props.C05Cells3", "Honeycomb.Props.C05SuccLaw", "Honeycomb.Props.C05Cells3Data", "Honeycomb.Props.C04Gen", "Honeycomb.Props.C05Gen", "Honeycomb.Props.C05Gen3", "Honeycomb.Props.C18Gen"],
    # Gen/AttrMoves.lean is re-translated from attributes/collections.rs, Gen/Sews3.lean from dim3/sews/one.rs and two.rs before every build
    "gen": ["attrs", "sews3", "sews3c", "alloc"],
    "required_theorems": REQUIRED_THEOREMS,
    "trusted_base": [
        "Lean 4.33 kernel; axioms propext, Classical.choice, Quot.sound only",
        "hand-written model (Model/Ops.lean mergeS/splitS/mergeAttrs, Model/Ops3.lean links and sews of CMap3) tied to /repo by the "
        "differential run with free-term attribute values (the exact tree of merges/splits at every identifier, stale ones included, "
        "is compared) and exact dyadic coordinates",
        "Rust harness hcimpl (s3.rs), tools/*.py (the oracle recomputes cells independently from the beta rows by union-find)",
        "fast-stm is represented by the sequential semantics `atomically` (single thread; C07 covers concurrency)",
    ],
    "assumptions": [
        "no fault injection in this check (fc = 0); f64 arithmetic exact on the dyadic coordinates used",
        "composed transactions: three_sew/three_unsew walk the two faces through the transaction since /repo f79acf8 (DESIGN.md §8-D4 "
        "repaired); they are covered by the stream `composed transactions` (faces built or edited by 1-links / 2-sews and 3-sewn or "
        "3-unsewn in the same `tx … endtx` block: same answer and same final snapshot as the same calls run one by one, whose sews "
        "are checked calls of the data oracle)",
        "the data clauses are claimed on well-formed, mirrored 3-maps whose faces are closed (1-sew: closed after the call, 1-unsew: "
        "closed before it) and, per cell kind, when no cell takes part in two identifications of the call (the property's proviso)",
    ],
    "rule": "closed-face complexes: polyhedra (cube, tetrahedron, prism, pyramid) built face by face with every 2-sew checked; pairs glued "
            "by a checked 3-sew on every coinciding dart pair (+ twisted / non-coinciding / same-cell pairs); rings of 3 tetrahedra and of "
            "4 cubes around an edge (ring closing: vertices and edges already shared before the last 3-sew); for every kind of sewn "
            "dart: unsew(1,2,3) then the matching sew back, sew then unsew round trips; the closed glued-faces family (<=3 faces of "
            "1..4 sides, after random 2-/3-sews) x every sew/unsew call, with the real link/unlink replayed on a twin map; random "
            "sew/unsew histories; composed transactions (`tx … endtx`) ending in a 3-sew/3-unsew compared with the same calls run one by "
            "one; `force_` variants mixed in; defined/undefined value patterns over the built-in vertices and the term "
            "storages VTerm ETerm FTerm CTerm VDef (masks). Oracle on the implementation: see the module docstring. "
            "distinct_nontrivial = distinct implementation transcripts.",
    "not_proved": [
        "identification of the computed identifiers with cells: PROVED for 1-sew/1-unsew (Props/C05Cells.lean), for 2-sew/2-unsew with "
        "closed faces (Props/C05Cells2.lean: C05_twoSew3_cells, C05_twoUnsew3_cells — vertex partition = old one with l-β1 r and r-β1 l "
        "united, edge partition with l-r united, every id a cell minimum, new ids = min of the old ones under the proviso) and for 3-sew "
        "of closed faces (C05_threeSew3_faces, C05_threeSew3_cells: three_link links exactly the pairs (β1^t ld, β0^t rd); the zipped "
        "face walks list exactly these pairs; face/edge/vertex partitions = old ones with the stated pairs united; the collected ids are "
        "cell minima pair by pair; under the proviso the merged-into id is the minimum of the united cell) and for 3-unsew of closed "
        "faces on a mirrored map (C05_threeUnsew3_cells: three_unlink unlinks exactly these pairs, the old partitions are the new ones "
        "with the pairs united, the face ids split into / from are cell minima). The cell-level proviso (`Far`) implies the id-level one "
        "(`Disj`): C05_threeSew3_vertices_far (Props/C05Succ.lean) gives the data clause of the 3-sew under the cell-level hypothesis "
        "alone. Open-face arms of the 2-sew/2-unsew (outside the property's scope): C05_twoSew3_cells_free/_left/_right, "
        "C05_twoUnsew3_cells_free/_left/_right (general partition through `pairsV2`; ids = minima when the open dart is 3-free). "
        "Open faces for 3-sew / 3-unsew (outside the property's scope; Props/C05Cells3.lean): C05_threeSew3_cells_open, "
        "C05_threeUnsew3_cells_open — three_link / three_unlink link / unlink exactly `openPairs` (F darts forward along β1/β0, B "
        "backward along β0/β1, both faces of the same shape), the zipped face walks list exactly these pairs, face/edge/vertex "
        "partitions = old ones with ld-rd, the pairs, resp. `codePairs` (head l - r for every pair, head = β1 else β2, dropped when "
        "null; l - head r for the dart without predecessor) united; face ids, collected ids and every id of the 3-unsew splitting "
        "loop (`UnsewnCells`, extracted from the chain — also valid on closed faces through `unsewn_cells`) are cell minima (null for a "
        "missing head); under the proviso the merged-into / split-from id `min` is the minimum of the united cell. The vertex data clause on open faces under the cell-level "
        "proviso alone: C05_threeSew3_vertices_far_open (Props/C05Cells3Data.lean; proviso stated on `codePairs` in the order of the "
        "zipped walks). NOT proved on open faces: success of the 3-unsew (it FAILS on an embedded mesh whenever a linked dart has "
        "neither a successor nor a 2-neighbour: three_unsew calls vertices.split(NULL, v, NULL) where three_sew filters the null "
        "identifier out — observed on /repo 94962f9, outside the property's closed-face scope); oracle for the rest",
        "'unsew succeeds on any sewn dart of a fully embedded mesh, every resulting vertex has coordinates obtained by splitting': "
        "PROVED (Props/C05Succ.lean) for configurations without user storages on vertices/edges/faces and a total built-in vertex "
        "split (`PlainCfg`, e.g. stdCfg 4 0), fc = 0, on well-formed mirrored maps with closed faces: C05_oneUnsew3_succeeds (dart "
        "1-sewn and not 3-linked to its own successor), C05_twoUnsew3_succeeds (under the proviso: the end points of the edge are four "
        "different vertex incidences afterwards), C05_threeUnsew3_succeeds (faces 3-linked as a whole and not to themselves — `Sided3`, "
        "no self glue: C02b shows the guarded API keeps both — three_unlink returns Ok unconditionally; under the proviso on the L "
        "splits the whole call returns Ok): the call returns Ok and the result is again well-formed, mirrored and Embedded (every "
        "vertex identifier = cell minimum of an in-use dart holds a value; the values are the halves of split of the old ones by "
        "`SplitIn` in the *_cells theorems, which apply to these runs). With ARBITRARY laws (user storages whose split can fail; "
        "Props/C05SuccLaw.lean): C05_oneUnsew3_succeeds_law, C05_twoUnsew3_succeeds_law, C05_threeUnsew3_succeeds_law — same "
        "settings, any configuration: the call returns Ok when every vertex / edge / face storage law splits the value held, in "
        "the map before the call, at the identifier (cell minimum) of each cell that is split; under the proviso no law call reads "
        "a value written earlier in the same call. forM_split_run / forM_split_err: a split_attributes loop returns Ok iff every "
        "law call succeeds, else the error of the first failing storage (the enclosing transaction aborts: C06). The result of an "
        "Ok run is described at cell level, law as a parameter, by the *_cells theorems (SplitIn). NOT proved: `again splittable` "
        "for the result (a user law need not split its own halves), and outside the proviso: oracle",
        "ring-closing configurations where a cell takes part in two identifications of one call, and every other such configuration: "
        "correspondence only (the data clause of the oracle is skipped there, counted as skipped-multi)",
        "D13 (1-sew/1-unsew of a dart of a 3-sewn face misplaced the vertex data: vertex_id_transac was not symmetric on the open "
        "3-sewn face) was a genuine defect found by this oracle, repaired by /repo e8bc83e; the oracle now passes on those calls too",
    ],
}

VSTORES, ESTORES, FSTORES, CSTORES = (0, 1, 5), (2,), (3,), (4,)
STORES = {"v": VSTORES, "e": ESTORES, "f": FSTORES, "c": CSTORES}
KINDS_OF_DIM = {1: ("v",), 2: ("v", "e"), 3: ("v", "e", "f")}
# generator images of dim3/orbits.rs as index paths (a, b) = β_b(β_a(x)); the union-find closes them under inverses
GEN = {"v": [(2, 3), (3, 1), (2, 1), (0, 3), (0, 2), (3, 2)], "e": [(2,), (3,)], "f": [(1,), (0,), (3,)], "c": [(1,), (0,), (2,)]}
OP_RE = re.compile(r"^(f?)(sew|unsew) ([123]) ([0-9]+)(?: ([0-9]+))?$")
LINK_RE = re.compile(r"^(f?)(link|unlink) ([123]) ([0-9]+)(?: ([0-9]+))?$")

STATS = {}


def bump(key, k=1):
    STATS[key] = STATS.get(key, 0) + k


# ---------------------------------------------------------------------------------------------
# cells, recomputed from the β rows
# ---------------------------------------------------------------------------------------------

def partition(kind, b, n):
    """(cells, cell_of): the classes of darts 1..n-1 under the closure of the kind's images and their inverses"""
    parent = list(range(n))

    def find(x):
        while parent[x] != x:
            parent[x] = parent[parent[x]]
            x = parent[x]
        return x

    for x in range(1, n):
        for path in GEN[kind]:
            y = x
            for i in path:
                y = b[i][y] if y < n else 0
            if 0 < y < n:
                rx, ry = find(x), find(y)
                if rx != ry:
                    parent[rx] = ry
    comp = {}
    for x in range(1, n):
        comp.setdefault(find(x), []).append(x)
    cells = [frozenset(c) for c in comp.values()]
    cell_of = {}
    for c in cells:
        for x in c:
            cell_of[x] = c
    return cells, cell_of


def wf3(b, u, n):
    for i in range(4):
        if len(b[i]) != n or b[i][0] != 0 or any(y >= n for y in b[i]):
            return False
    for x in range(1, n):
        if b[1][x] and b[0][b[1][x]] != x or b[0][x] and b[1][b[0][x]] != x:
            return False
        for i in (2, 3):
            y = b[i][x]
            if y and (y == x or b[i][y] != x):
                return False
        if u[x] and any(b[i][x] for i in range(4)):
            return False
        if any(b[i][x] and u[b[i][x]] for i in range(4)):
            return False
    return True


def closed_faces(b, u, n):
    return all(u[x] or b[1][x] != 0 for x in range(1, n))


def rows(s):
    return [list(s["b0"]), list(s["b1"]), list(s["b2"]), list(s["b3"])]


def values(s):
    return {int(k[1:]): v for k, v in s.items() if k[0] == "a"}


# ---------------------------------------------------------------------------------------------
# the link/unlink effect, recomputed
# ---------------------------------------------------------------------------------------------

def face_pairs(b, l, r, n):
    """the dart pairs of `three_link`: (β1^i l, β0^i r) forward, then (β0^i l, β1^i r) backward on open faces"""
    out, x, y = [(l, r)], b[1][l], b[0][r]
    k = 0
    while x != l and x != 0 and y != 0 and k <= n:
        out.append((x, y))
        x, y, k = b[1][x], b[0][y], k + 1
    if x == 0:
        x, y = b[0][l], b[1][r]
        while x != 0 and y != 0 and k <= n:
            out.append((x, y))
            x, y, k = b[0][x], b[1][y], k + 1
    return out


def link_effect(b, n, sew, dim, l, r):
    """β rows after the link (sew=True) / unlink of dimension dim, from the rows before (answer `ok` assumed).
    returns (rows, r)"""
    b = [list(x) for x in b]
    if dim == 1:
        if sew:
            b[1][l], b[0][r] = r, l
            if b[3][l] and b[3][r]:
                b[1][b[3][r]], b[0][b[3][l]] = b[3][l], b[3][r]
        else:
            r = b[1][l]
            b[1][l], b[0][r] = 0, 0
            if b[3][l] and b[3][r]:
                b[1][b[3][r]], b[0][b[3][l]] = 0, 0
    elif dim == 2:
        if sew:
            b[2][l], b[2][r] = r, l
        else:
            r = b[2][l]
            b[2][l], b[2][r] = 0, 0
    else:
        if not sew:
            r = b[3][l]
        for x, y in face_pairs(b, l, r, n):
            b[3][x], b[3][y] = (y, x) if sew else (0, 0)
    return b, r


def identifications(b, dim, l, r, n):
    """the cell identifications (sew) / separations (unsew) requested by the call, per kind, as dart pairs: each
    pair names two darts whose cells are united / separated.  b = rows of the state where the faces of l and r exist
    (β1 is the same before and after a 2-/3-call)."""
    if dim == 1:
        x = b[2][l] or b[3][l]          # a dart starting at the head of l (same vertex cell when both exist)
        return {"v": [(x, r)] if x else []}
    if dim == 2:
        return {"v": [(l, b[1][r]), (b[1][l], r)], "e": [(l, r)]}
    pairs = face_pairs(b, l, r, n)
    return {"f": [(l, r)], "e": pairs, "v": [(b[1][x], y) for x, y in pairs]}


def proviso(idents, coarse_of):
    """no cell takes part in two identifications / separations of the call: the requested pairs fall into pairwise
    different cells of the coarser partition (after a sew / before an unsew).  This is the proviso of C04 ("the two end
    points of the edge are different vertices before and after") generalised to the k corners and sides of a 3-sew; a
    pair whose two darts already are (still are) in one cell on the finer side counts: sharing a vertex or an edge
    beforehand (ring closing) is allowed, meeting a second corner of the same call is not."""
    seen = set()
    for a, c in idents:
        if a == 0 or c == 0:
            return False
        k = coarse_of[a]
        if k in seen:
            return False
        seen.add(k)
    return True


# ---------------------------------------------------------------------------------------------
# data clauses
# ---------------------------------------------------------------------------------------------

def _r(q):
    return str(q.numerator) if q.denominator == 1 else f"{q.numerator}/{q.denominator}"


def merged_ok(new, a, b, storage):
    if storage == 0:
        if a == "none" and b == "none":
            return False      # vertices: merge_from_none is an error, the call cannot have succeeded
        if a == "none" or b == "none":
            return new == (b if a == "none" else a)
        from fractions import Fraction as F
        pa, pb = a.strip("()").split(","), b.strip("()").split(",")
        return new == "(" + ",".join(_r((F(x) + F(y)) / 2) for x, y in zip(pa, pb)) + ")"
    if storage in (2, 5) and "none" in (a, b):
        return False          # default laws: merge_incomplete / merge_from_none are errors
    if a == "none" and b == "none":
        return new == "N"
    if a == "none" or b == "none":
        return new == f"I({b if a == 'none' else a})"
    return new in (f"M({a},{b})", f"M({b},{a})")


def split_ok(na, nb, old, storage):
    if storage == 0:
        return old != "none" and na == old and nb == old
    if old == "none":
        return storage not in (2, 5) and {na, nb} == {"NL", "NR"}
    return {na, nb} == {f"L({old})", f"R({old})"}


def check_kind(kind, part0, part1, vals0, vals1, sew):
    """part = (cells, cell_of) before / after; returns a failure text or None"""
    cells0, of0 = part0
    cells1, of1 = part1
    set0, set1 = set(cells0), set(cells1)
    ids0, ids1 = {min(c) for c in cells0}, {min(c) for c in cells1}
    for st in STORES[kind]:
        if st not in vals0:
            continue
        v0, v1 = vals0[st], vals1[st]
        if sew:
            for c1 in cells1:
                i1 = min(c1)
                if c1 in set0:
                    bump("kept-checked")
                    if v1[i1] != v0[i1]:
                        return f"[kept] storage a{st}: {kind}-cell {sorted(c1)} did not change but its value went from {v0[i1]} to {v1[i1]}"
                    continue
                parts = {of0[x] for x in c1}
                if len(parts) != 2:
                    return f"[oracle-model] {kind}-cell {sorted(c1)} is the union of {len(parts)} former cells although no cell takes part in two identifications"
                pa, pb = parts
                a, c = v0[min(pa)], v0[min(pb)]
                bump(f"merge-checked-{kind}")
                if not merged_ok(v1[i1], a, c, st):
                    return (f"[merge] storage a{st}: new {kind}-cell {sorted(c1)} = union of the cells {sorted(pa)}, {sorted(pb)} with values "
                            f"{a}, {c} but holds {v1[i1]} at its id {i1}")
            for i0 in ids0 - ids1:
                bump("stale-checked")
                if v1[i0] != "none":
                    return f"[stale] storage a{st}: id {i0} stopped designating a {kind}-cell but still holds {v1[i0]}"
        else:
            for c0 in cells0:
                i0 = min(c0)
                if c0 in set1:
                    bump("kept-checked")
                    if v1[i0] != v0[i0]:
                        return f"[kept] storage a{st}: {kind}-cell {sorted(c0)} did not change but its value went from {v0[i0]} to {v1[i0]}"
                    continue
                parts = {of1[x] for x in c0}
                if len(parts) != 2:
                    return f"[oracle-model] {kind}-cell {sorted(c0)} splits into {len(parts)} cells although no cell takes part in two separations"
                pa, pb = parts
                na, nb = v1[min(pa)], v1[min(pb)]
                bump(f"split-checked-{kind}")
                if not split_ok(na, nb, v0[i0], st):
                    return (f"[split] storage a{st}: {kind}-cell {sorted(c0)} with value {v0[i0]} split into {sorted(pa)}, {sorted(pb)} "
                            f"holding {na}, {nb}")
    return None


def bfs_min(b, n, d):
    """what `vertex_id_transac` computed BEFORE /repo e8bc83e (D13): the smallest dart reachable from d through the former
    five images (without b2(b3(d)), the inverse of b3(b2(d)))"""
    seen, todo = {d}, [d]
    while todo:
        x = todo.pop()
        for path in GEN["v"][:5]:
            y = x
            for i in path:
                y = b[i][y] if y < n else 0
            if 0 < y < n and y not in seen:
                seen.add(y)
                todo.append(y)
    return min(seen)


def one_sew_signature(b_open, n, dim, l, r, cell_of):
    """tag of the (proposed) known finding `one-sew-on-3-sewn-face`: the call is a 1-sew/1-unsew, the face of l is 3-sewn,
    and on the map where that face is open (before the 1-sew / after the 1-unsew) the vertex id that one_sew/one_unsew
    compute for one of the darts they start from (r, β3(l), β2(l)) is not the smallest dart of that dart's vertex cell:
    `vertex_id_transac` has no inverse of β3∘β2 and cannot derive it through the open 3-sewn face"""
    if dim != 1 or (b_open[3][l] == 0 and b_open[3][r] == 0):
        return ""
    for d in (r, b_open[3][l], b_open[2][l]):
        if d and bfs_min(b_open, n, d) != min(cell_of[d]):
            return "[1-sew-on-3-sewn-face] "
    return ""


def fully_embedded(s, b, n, parts):
    """every vertex has coordinates; the default-law storages (ETerm, VDef) are defined at every cell id (their laws
    refuse None); the other laws accept None"""
    vals = values(s)
    vids = [min(c) for c in parts["v"][0] if not s["u"][min(c)]]
    if any(vals[0][i] == "none" for i in vids):
        return False
    if 5 in vals and any(vals[5][i] == "none" for i in vids):
        return False
    if 2 in vals and any(vals[2][min(c)] == "none" for c in parts["e"][0] if not s["u"][min(c)]):
        return False
    return True


# ---------------------------------------------------------------------------------------------
# the oracle
# ---------------------------------------------------------------------------------------------

def oracle_c05(case, li):
    try:
        return _oracle_c05(case, li)
    except Exception as e:      # a bug of this file must not look like a pass
        return f"[oracle-crash] {type(e).__name__}: {e}"


def tx_oracle(lines, li):
    """layout: setup, snap (A), tx, ops, endtx, snap (B), `# seq`, setup, `# ops`, the same ops one by one (sews wrapped in
    snaps), snap (C).  All calls ok one by one  =>  `tx ok` and B == C;  first failure E one by one  =>  `tx E` and B == A."""
    t, e, q, o = lines.index("tx"), lines.index("endtx"), lines.index("# seq"), lines.index("# ops")
    ops = lines[t + 1:e]
    seq = [(inp, out) for inp, out in zip(lines[o + 1:-1], li[o + 1:-1]) if inp != "snap"]
    if [x for x, _ in seq] != ops:
        return "[oracle-crash] malformed composed-transaction case"
    A, B, C = li[t - 1], li[e + 1], li[-1]
    bump("tx-blocks")
    bad = next(((inp, out) for inp, out in seq if not (out == "ok" or out.startswith("ok "))), None)
    if bad is None:
        bump("tx-ok")
        if not li[e].startswith("tx ok"):
            return f"[tx-seq] every call succeeds one by one but the transaction answers {li[e]!r}"
        if B != C:
            return f"[tx-seq] the transaction {ops} leaves a different map than the same calls one by one: {B} / {C}"
    else:
        bump("tx-" + " ".join(bad[1].split()[:2]))
        if li[e] != "tx " + bad[1]:
            return f"[tx-seq] one by one `{bad[0]}` is the first call to fail, with {bad[1]!r}, but the transaction answers {li[e]!r}"
        if A != B:
            return f"[tx-seq] the transaction answered {li[e]!r} but the map changed"
    return None


def _oracle_c05(case, li):
    if case.oracle != "c05":
        return None
    if any(x.startswith("<missing") for x in li):
        return "driver died"
    lines = case.lines
    if len(li) != len(lines):
        return f"expected {len(lines)} output lines, got {len(li)}"
    if "tx" in lines:
        f = tx_oracle(lines, li)
        if f:
            return f
    first = None         # the first checked call of the case (the one replayed as a link on the twin map)
    last_sew = None      # for the round trip: (dim, darts it sewed, the snapshot after it, partitions before it)
    twin = False
    for i, (inp, out) in enumerate(zip(lines, li)):
        if inp == "# twin":
            twin = True
            continue
        if twin and inp == "snap" and first is not None:
            # the real link/unlink replayed on an identical map
            twin = False
            m = LINK_RE.match(lines[i - 1])
            if m and first["out"] == "ok":
                bump("twin-compared")
                if li[i - 1] != "ok":
                    return f"[twin] {first['op']} answered ok but `{lines[i - 1]}` on the same map answers {li[i - 1]!r}"
                if rows(gens.parse_snap(out)) != first["post"]:
                    return f"[twin] {first['op']}: β rows {first['post']} differ from those after `{lines[i - 1]}` on the same map: {rows(gens.parse_snap(out))}"
            continue
        m = OP_RE.match(inp)
        if not (m and i >= 1 and lines[i - 1] == "snap" and i + 1 < len(lines) and lines[i + 1] == "snap"):
            continue
        if not li[i - 1].startswith("snap ") or not li[i + 1].startswith("snap "):
            return f"snapshot failed around {inp!r}"
        sew, dim, l = m.group(2) == "sew", int(m.group(3)), int(m.group(4))
        r = int(m.group(5)) if m.group(5) else 0
        if sew != bool(m.group(5)):
            continue
        s0, s1 = gens.parse_snap(li[i - 1]), gens.parse_snap(li[i + 1])
        n, b0, u0 = s0["n"], rows(s0), s0["u"]
        sig = f"{'sew' if sew else 'unsew'}{dim}"
        bump(f"calls-{sig}")
        if first is None:
            first = {"op": inp, "out": out, "post": rows(s1)}
        valid = wf3(b0, u0, n) and 1 <= l < n and (not sew or 1 <= r < n) and not u0[l] and not u0[r]
        if not valid:
            bump("skipped-malformed")
            continue
        parts0 = None
        if out != "ok":
            bump("outcome-" + " ".join(out.split()[:2]))
            if li[i - 1] != li[i + 1]:
                return f"[unchanged] {inp}: answered {out!r} but the map changed"
            # (3) unsew of a sewn dart on a fully embedded closed-face map must succeed (same proviso: when a cell takes
            # part in two separations the outcome depends on the order of the splits)
            if not sew and b0[dim][l] != 0 and closed_faces(b0, u0, n) and gens.mirror3(b0[1], b0[3]):
                parts0 = {k: partition(k, b0, n) for k in ("v", "e")}
                if fully_embedded(s0, b0, n, parts0):
                    bh, rh = link_effect(b0, n, False, dim, l, 0)
                    idents = identifications(b0, dim, l, rh, n)
                    if all(proviso(idents[k], partition(k, b0, n)[1]) for k in KINDS_OF_DIM[dim]):
                        return f"[unsew-refused] {inp}: answered {out!r} on a fully embedded closed-face map (dart {l} is {dim}-sewn to {b0[dim][l]})"
                    bump("skipped-multi-refused")
            last_sew = None
            continue
        bump("outcome-ok")
        # (1) topology = the matching link
        want, r = link_effect(b0, n, sew, dim, l, r)
        b1 = rows(s1)
        if s1["n"] != n or b1 != want:
            return f"[topology] {inp}: β rows after the call {b1} differ from the effect of the corresponding {'link' if sew else 'unlink'}: {want}"
        if s0["u"] != s1["u"]:
            return f"[topology] {inp}: removal flags changed"
        # preconditions of the data clauses
        ok_pre = gens.mirror3(b0[1], b0[3]) and wf3(b1, s1["u"], n)
        if dim == 1:
            ok_pre = ok_pre and closed_faces(b1 if sew else b0, u0, n)
        else:
            ok_pre = ok_pre and closed_faces(b0, u0, n)
        vals0, vals1 = values(s0), values(s1)
        # frame: storages of the kinds this call never merges (volumes: always)
        for kind in ("v", "e", "f", "c"):
            if kind not in KINDS_OF_DIM[dim]:
                for st in STORES[kind]:
                    if st in vals0 and vals0[st] != vals1[st]:
                        return f"[frame] {inp}: storage a{st} (bound to a cell kind a {dim}-{'sew' if sew else 'unsew'} does not merge or split) changed"
        if not ok_pre:
            bump("skipped-open-or-unmirrored")
            last_sew = None
            continue
        bump(f"data-checked-{sig}")
        idents = identifications(b0, dim, l, r, n)
        P0 = {k: partition(k, b0, n) for k in ("v", "e", "f", "c")}
        P1 = {k: partition(k, b1, n) for k in ("v", "e", "f", "c")}
        for kind in KINDS_OF_DIM[dim]:
            fine, coarse = (P0[kind], P1[kind]) if sew else (P1[kind], P0[kind])
            if any(a and c and coarse[1][a] != coarse[1][c] for a, c in idents[kind]):
                return f"[oracle-model] {inp}: a pair of {kind}-cells the call identifies is not one cell {'after' if sew else 'before'} it: {idents[kind]}"
            if dim == 3 and kind != "f" and any(a and c and fine[1][a] == fine[1][c] for a, c in idents[kind]):
                # ring closing / re-opening: some corner or side of the two faces is (still) shared on the other side
                bump(f"{sig}-with-shared-{kind}-cells")
            if not proviso(idents[kind], (P1 if sew else P0)[kind][1]):
                bump("skipped-multi")
                bump(f"skipped-multi-{sig}-{kind}")
                continue
            f = check_kind(kind, P0[kind], P1[kind], vals0, vals1, sew)
            if f:
                return f"{one_sew_signature(b0 if sew else b1, n, dim, l, r, (P0 if sew else P1)['v'][1])}{f.split(' ')[0]} {inp}: {f.split(' ', 1)[1]}"
        # round trip: sew immediately followed by the matching unsew restores the partitions
        if sew:
            sewn = {l} if dim == 1 else {l, r} if dim == 2 else {d for pr in face_pairs(b0, l, r, n) for d in pr}
            last_sew = (dim, sewn, li[i + 1], {k: set(P0[k][0]) for k in P0})
        else:
            if last_sew and last_sew[0] == dim and l in last_sew[1] and last_sew[2] == li[i - 1]:
                bump("round-trips")
                for k in ("v", "e", "f", "c"):
                    if set(P1[k][0]) != last_sew[3][k]:
                        return f"[round-trip] {inp}: the {k}-cells after the unsew are not those before the matching sew"
            last_sew = None
    return None


# ---------------------------------------------------------------------------------------------
# streams
# ---------------------------------------------------------------------------------------------

MASKS = (31, 31, 15, 13, 5, 21, 0, 1, 2, 16)


def f_(rng, p=0.3):
    return "f" if rng.random() < p else ""


def checked(op):
    return ["snap", op, "snap"]


def attr_lines(rng, darts, mask, pa, full_default):
    out = []
    for d in darts:
        for st in range(1, 6):
            if (mask >> (st - 1)) & 1 and (rng.random() < pa or (full_default and st in (2, 5))):
                out.append(f"wa {st} {d} {100 * st + d}")
    return out


def build_lines(rng, ps, mask, pv, pa, full_default, check_p=1.0, force_p=0.3):
    """the polyhedra `ps` face by face: all 1-links first (so that every face of the map is closed from then on), one
    point per dart (probability pv) and attributes, then the 2-sews — each of them a checked call with probability
    check_p"""
    if not isinstance(ps, (list, tuple)):
        ps = [ps]
    out = []
    for p in ps:
        for ds in p.face_darts:
            for i, a in enumerate(ds):
                out.append(f"flink 1 {a} {ds[(i + 1) % len(ds)]}")
    for p in ps:
        for d in p.darts:
            if rng.random() < pv:
                out.append("wv %d %s %s %s" % ((d,) + tuple(gens._tok(c) for c in p.origin[d])))
        out += attr_lines(rng, p.darts, mask, pa, full_default)
    for p in ps:
        edges = [(a, p.dart[(v, u)]) for (u, v), a in p.dart.items() if u < v]
        rng.shuffle(edges)
        cp = check_p if not isinstance(check_p, (list, tuple)) else rng.choice(check_p)
        for a, c in edges:
            if rng.random() < 0.5:
                a, c = c, a
            op = f"{f_(rng, force_p)}sew 2 {a} {c}"
            out += checked(op) if rng.random() < cp else [op]
    return out


def complex_of(polys):
    """Poly3 objects on consecutive darts + every (a, b) 3-sewable coinciding dart pair between two of them"""
    ps, first = [], 1
    for poly in polys:
        p = gens.Poly3(poly, first)
        first += p.ndarts
        ps.append(p)
    glue = []
    for i in range(len(ps)):
        for j in range(i + 1, len(ps)):
            pairs = gens.glue_pairs(ps[i], ps[j])
            # group by face of ps[i]
            byface = {}
            for a, c in pairs:
                fa = next(k for k, ds in enumerate(ps[i].face_darts) if a in ds)
                fb = next(k for k, ds in enumerate(ps[j].face_darts) if c in ds)
                byface.setdefault((i, fa, j, fb), []).append((a, c))
            glue += list(byface.values())
    return ps, first - 1, glue


def ring_tets():
    """three tetrahedra around the edge A=(0,0,-1), B=(0,0,1)"""
    A, B = (0, 0, -1), (0, 0, 1)
    P = [(2, 0, 0), (-1, 7 / 4, 0), (-1, -7 / 4, 0)]
    out = []
    for k in range(3):
        p, q = P[k], P[(k + 1) % 3]
        # same face pattern for the three cells: the shared faces (A, B, p) get opposite orientations
        out.append(([A, B, p, q], gens.TETRA[1]))
    return out


def ring_cubes():
    """four unit cubes around the edge x = y = 1"""
    return [gens.CUBE, gens.poly_translate(gens.CUBE, (1, 0, 0)), gens.poly_translate(gens.CUBE, (1, 1, 0)),
            gens.poly_translate(gens.CUBE, (0, 1, 0))]


def complexes():
    out = [(name, [pa, pb]) for name, pa, pb in gens.cell_pairs()]
    out.append(("ring-3-tets", ring_tets()))
    out.append(("ring-4-cubes", ring_cubes()))
    out.append(("3-cubes-row", [gens.CUBE, gens.poly_translate(gens.CUBE, (1, 0, 0)), gens.poly_translate(gens.CUBE, (2, 0, 0))]))
    out.append(("3-cubes-L", [gens.CUBE, gens.poly_translate(gens.CUBE, (1, 0, 0)), gens.poly_translate(gens.CUBE, (1, 1, 0))]))
    out.append(("tet-prism-tet", [gens.poly_mirror(gens.TETRA, 2, 0), gens.PRISM,
                                  gens.poly_translate(gens.TETRA, (0, 0, 1))]))
    return out


def exercise(rng, ps, n, sewn3, count, lines):
    """round trips on the current complex: unsew a sewn dart then sew it back (all dimensions), each call checked"""
    darts = list(range(1, n + 1))
    owner = {d: p for p in ps for d in p.darts}
    for _ in range(count):
        k = rng.random()
        l = rng.choice(darts)
        p = owner[l]
        face = next(ds for ds in p.face_darts if l in ds)
        nxt = face[(face.index(l) + 1) % len(face)]
        if k < 0.3:
            lines += checked(f"{f_(rng)}unsew 1 {l}") + checked(f"{f_(rng)}sew 1 {l} {nxt}")
        elif k < 0.65:
            u, v = next(e for e, a in p.dart.items() if a == l)
            r = p.dart[(v, u)]
            lines += checked(f"{f_(rng)}unsew 2 {l}") + checked(f"{f_(rng)}sew 2 {l} {r}")
        elif sewn3:
            a, c = rng.choice(sewn3)
            if rng.random() < 0.5:
                lines += checked(f"{f_(rng)}unsew 3 {a}") + checked(f"{f_(rng)}sew 3 {a} {c}")
            else:
                lines += checked(f"{f_(rng)}unsew 3 {c}") + checked(f"{f_(rng)}sew 3 {c} {a}")
        else:
            lines += checked(f"{f_(rng)}unsew 2 {l}")


def polyhedra_cases(count, rng, names=None):
    cases = []
    cx = [c for c in complexes() if names is None or c[0] in names]
    for k in range(count):
        name, polys = cx[k % len(cx)]
        if len(polys) == 2 and rng.random() < 0.5:
            polys = polys[::-1]
        ps, n, glue = complex_of(polys)
        mask = rng.choice(MASKS)
        full = rng.random() < 0.75
        pv = rng.choice([1.0, 1.0, 0.85, 0.6])
        pa = rng.choice([1.0, 0.5, 0.5, 0.0])
        lines = [f"new 3 {n} {mask}"] + build_lines(rng, ps, mask, pv, pa, full, check_p=[1.0, 0.3, 0.0])
        sewn3 = []
        rng.shuffle(glue)
        mode = rng.random()
        for g in glue:
            a, c = rng.choice(g)
            if rng.random() < 0.5:
                a, c = c, a
            if mode < 0.12:
                continue      # unglued complex
            lines += checked(f"{f_(rng)}sew 3 {a} {c}")
            sewn3.append((a, c))
            if rng.random() < 0.3:
                # immediate round trip
                lines += checked(f"{f_(rng)}unsew 3 {rng.choice([a, c])}")
                lines += checked(f"{f_(rng)}sew 3 {a} {c}")
        exercise(rng, ps, n, sewn3, rng.randint(1, 5), lines)
        # a few arbitrary requests: twisted / non-coinciding faces, other cells, same cell
        darts = list(range(1, n + 1))
        for _ in range(rng.randint(0, 3)):
            kind = rng.random()
            a, c = rng.choice(darts), rng.choice(darts)
            if kind < 0.5:
                lines += checked(f"{f_(rng)}sew 3 {a} {c}")
            elif kind < 0.7:
                lines += checked(f"{f_(rng)}unsew 3 {a}")
            elif kind < 0.85:
                lines += checked(f"{f_(rng)}unsew 2 {a}")
            else:
                lines += checked(f"{f_(rng)}unsew 1 {a}")
        cases.append(Case(f"ph{k}-{name}", lines, oracle="c05", meta={"sig": "polyhedra"}))
    return cases


def all_glue_pairs_cases(rng, mask=31):
    """every coinciding dart pair of every pair of cells, in both argument orders: 3-sew, then 3-unsew of every dart of
    the two faces (one case each), fully embedded"""
    cases = []
    for name, pa, pb in gens.cell_pairs():
        ps, n, glue = complex_of([pa, pb])
        base = [f"new 3 {n} {mask}"] + build_lines(rng, ps, mask, 1.0, 0.6, True, check_p=0.0, force_p=1.0)
        for g in glue:
            face = sorted({d for pair in g for d in pair})
            for a, c in g:
                for x, y in ((a, c), (c, a)):
                    lines = list(base)
                    for z in face:
                        lines += checked(f"{f_(rng)}sew 3 {x} {y}") + checked(f"{f_(rng)}unsew 3 {z}")
                    cases.append(Case(f"gp-{name}-{x}-{y}", lines, oracle="c05", meta={"sig": "glue-pairs"}))
    return cases


def closed_shapes(max_sides=4):
    return [(k, True) for k in range(1, max_sides + 1)]


def faces_cases(rng, max_faces, per_map, variants, frac=1.0, twin=True):
    """closed glued-faces family: <= max_faces closed faces of 1..4 sides, random 2-/3-sews first, then one checked call
    (+ the matching link on a twin map), then the checked inverse call"""
    import itertools
    cases, cid = [], 0
    sh = closed_shapes()
    for nf in range(1, max_faces + 1):
        for shapes in itertools.product(sh, repeat=nf):
            if frac < 1.0 and rng.random() > frac:
                continue
            n, rws, faces = gens.faces3_rows(list(shapes))
            darts = list(range(1, n + 1))
            for v in range(variants):
                mask = rng.choice(MASKS)
                load = gens.load_line(3, n, mask, rws, [0] * (n + 1))
                vals = gens.value_lines(rng, n, mask, dim=3, pv=rng.choice([1.0, 1.0, 0.7, 0.3]), pa=rng.choice([1.0, 1.0, 0.6, 0.2]))
                pre = []
                for _ in range(rng.choice([0, 1, 2, 3, 5])):
                    a, c = rng.choice(darts), rng.choice(darts)
                    if a != c:
                        pre.append(f"{f_(rng)}{rng.choice(['sew', 'sew', 'link'])} {rng.choice([2, 2, 3])} {a} {c}")
                ops = []
                for i in (1, 2, 3):
                    for a in darts:
                        ops.append(f"unsew {i} {a}")
                        for c in darts:
                            if i == 1 or a != c:
                                ops.append(f"sew {i} {a} {c}")
                if per_map is not None and per_map < len(ops):
                    # unsews are rarer in the full list: keep them well represented
                    uns = [o for o in ops if o.startswith("unsew")]
                    sws = [o for o in ops if o.startswith("sew")]
                    ops = rng.sample(uns, min(len(uns), per_map // 2)) + rng.sample(sws, min(len(sws), per_map - per_map // 2))
                for op in ops:
                    cid += 1
                    t = op.split()
                    f = f_(rng, 0.25)
                    lines = [load] + vals + pre + checked(f + op)
                    if t[0] == "sew":
                        lines += checked(f"{f_(rng, 0.25)}unsew {t[1]} {t[2]}")      # round trip
                    if twin:
                        lk = ("link" if t[0] == "sew" else "unlink") + op[len(t[0]):]
                        lines += ["# twin", load] + vals + pre + [f + lk, "snap"]
                    cases.append(Case(f"fc{nf}-{cid}", lines, oracle="c05", meta={"sig": t[0] + t[1]}))
    return cases


def histories(count, rng, maxlen=14):
    """random sew/unsew histories on the closed glued-faces family and on pairs of polyhedra, every call checked"""
    cases = []
    sh = closed_shapes()
    pairs = gens.cell_pairs()
    for k in range(count):
        mask = rng.choice(MASKS)
        if k % 3 != 0:
            n, rws, faces = gens.faces3_rows([rng.choice(sh) for _ in range(rng.randint(2, 4))])
            lines = [gens.load_line(3, n, mask, rws, [0] * (n + 1))]
            lines += gens.value_lines(rng, n, mask, dim=3, pv=rng.choice([1.0, 0.8, 0.4]), pa=rng.choice([1.0, 0.6, 0.2]))
            length = rng.randint(4, maxlen)
            w = [0, 5, 0, 3]
        else:
            name, pa, pb = rng.choice(pairs)
            ps, n, glue = complex_of([pa, pb])
            lines = [f"new 3 {n} {mask}"] + build_lines(rng, ps, mask, rng.choice([1.0, 0.8]), rng.choice([1.0, 0.5]),
                                                         rng.random() < 0.8, check_p=0.0)
            if glue and rng.random() < 0.7:
                a, c = rng.choice(rng.choice(glue))
                lines += checked(f"{f_(rng)}sew 3 {a} {c}")
            length = rng.randint(3, 10)
            w = [0, 3, 0, 4]
        darts = list(range(1, n + 1))
        for _ in range(length):
            op = gens.random_op3(rng, darts, alloc=False, weights=w, dims=(1, 2, 2, 3, 3))
            lines += checked(op)
        cases.append(Case(f"h{k}", lines, oracle="c05", meta={"sig": "history"}))
    return cases


def tx_case(cid, setup, ops, sig):
    lines = setup + ["snap", "tx"] + ops + ["endtx", "snap", "# seq"] + setup + ["# ops"]
    for op in ops:
        lines += checked(op) if OP_RE.match(op) else [op]
    return Case(cid, lines + ["snap"], oracle="c05", meta={"sig": sig})


def polygon(k):
    return [[(0, 0, 0)], [(0, 0, 0), (1, 0, 0)], [(0, 0, 0), (1, 0, 0), (0, 1, 0)], [(0, 0, 0), (1, 0, 0), (1, 1, 0), (0, 1, 0)]][k - 1]


def tx_cases(count, rng):
    """composed transactions: (a) two faces built from free darts by 1-links / 1-sews and 3-sewn (3-unsewn again) in the
    same transaction; (b) two polyhedra: the last 2-sews of their surfaces and the gluing 3-sew (3-unsew, 3-sew again) in
    one transaction; (c) closed glued faces: a few random sews/unsews/links ending in a 3-sew or 3-unsew; (d) a 1-sew after the
    2-/3-sew or link that gives its left dart the image through which the head vertex is found"""
    cases = []
    sh = closed_shapes()
    pairs = gens.cell_pairs()
    for c in range(count):
        mask = rng.choice(MASKS)
        kind = c % 4
        if kind == 3:
            # (d) a 1-sew whose left dart got its beta2 / beta3 image EARLIER IN THE SAME transaction (the head vertex of the
            # left dart is found through that image), on free darts and on partial faces
            n = rng.randint(3, 6)
            setup = [f"new 3 {n} {mask}"]
            for d in range(1, n + 1):
                if rng.random() < 0.9:
                    setup.append(f"wv {d} {gens.dy(rng)} {gens.dy(rng)} {gens.dy(rng)}")
            setup += attr_lines(rng, range(1, n + 1), mask, rng.choice([1.0, 0.5, 0.0]), rng.random() < 0.8)
            ds = list(range(1, n + 1))
            rng.shuffle(ds)
            l, o, r = ds[0], ds[1], ds[2]
            for _ in range(rng.choice([0, 0, 1])):
                x, y = rng.sample(ds, 2)
                setup.append(f"flink 1 {x} {y}")
            ops = [f"{rng.choice(['sew', 'sew', 'link'])} {rng.choice([2, 3])} {l} {o}"]
            if rng.random() < 0.3 and n >= 5:
                ops.append(f"{rng.choice(['sew', 'link'])} {rng.choice([2, 3])} {r} {ds[3]}")
            ops.append(f"sew 1 {l} {r}")
            if rng.random() < 0.3:
                ops.append(f"unsew 1 {l}")
            cases.append(tx_case(f"txd{c}", setup, ops, "tx-one-sew-after-glue"))
        elif kind == 0:
            k = rng.choice([1, 2, 3, 3, 4, 4])
            k2 = k if rng.random() < 0.9 else rng.choice([1, 2, 3, 4])
            n = k + k2
            setup = [f"new 3 {n} {mask}"]
            pts = polygon(k)
            coords = rng.random()
            for d in range(1, n + 1):
                if coords < 0.6:
                    # left dart 1+i starts at P_i; right dart k+1+j starts at P_(1-j): coinciding, oppositely oriented faces
                    pt = pts[(d - 1) % k] if d <= k else pts[(1 - (d - k - 1)) % k]
                    if rng.random() < 0.9:
                        setup.append("wv %d %s %s %s" % ((d,) + tuple(gens._tok(x) for x in pt)))
                elif coords < 0.85 and rng.random() < 0.8:
                    setup.append(f"wv {d} {gens.dy(rng)} {gens.dy(rng)} {gens.dy(rng)}")
            setup += attr_lines(rng, range(1, n + 1), mask, rng.choice([1.0, 0.5, 0.0]), rng.random() < 0.8)
            lk = rng.choice(["link", "link", "sew"])
            ops = [f"{lk} 1 {d} {d % k + 1}" for d in range(1, k + 1)] + [f"{lk} 1 {k + d} {k + d % k2 + 1}" for d in range(1, k2 + 1)]
            if rng.random() < 0.5:
                rng.shuffle(ops)
            a, r = (1, k + 1) if rng.random() < 0.6 else (rng.randint(1, k), rng.randint(k + 1, n))
            if rng.random() < 0.2:
                a, r = r, a
            ops.append(f"sew 3 {a} {r}")
            if rng.random() < 0.3:
                ops.append(f"unsew 3 {rng.randint(1, n)}")
                if rng.random() < 0.5:
                    ops.append(f"sew 3 {a} {r}")
            cases.append(tx_case(f"txa{c}", setup, ops, "tx-fresh-faces"))
        elif kind == 1:
            name, pa, pb = pairs[(c // 3) % len(pairs)]
            ps, n, glue = complex_of([pa, pb] if rng.random() < 0.5 else [pb, pa])
            setup = [f"new 3 {n} {mask}"] + build_lines(rng, ps, mask, rng.choice([1.0, 1.0, 0.85]), rng.choice([1.0, 0.5, 0.0]),
                                                        rng.random() < 0.8, check_p=0.0, force_p=0.5)
            held, ops = [], []
            for p in ps:
                es = [(a, p.dart[(v, u)]) for (u, v), a in p.dart.items() if u < v]
                held += rng.sample(es, rng.choice([0, 1, 2]))
            for a, b in held:
                setup.append(f"funsew 2 {a}")
                ops.append(f"sew 2 {a} {b}")
            a, b = rng.choice(rng.choice(glue))
            if rng.random() < 0.5:
                a, b = b, a
            if rng.random() < 0.15:
                a, b = rng.randint(1, n), rng.randint(1, n)
            ops.append(f"sew 3 {a} {b}")
            r = rng.random()
            if r < 0.3:
                ops.append(f"unsew 3 {rng.choice([a, b])}")
            elif r < 0.45:
                ops += [f"unsew 3 {rng.choice([a, b])}", f"sew 3 {a} {b}"]
            elif r < 0.6 and held:
                ops.append(f"unsew 2 {held[0][0]}")
            cases.append(tx_case(f"txp{c}-{name}", setup, ops, "tx-polyhedra"))
        else:
            n, rws, faces = gens.faces3_rows([rng.choice(sh) for _ in range(rng.randint(2, 3))])
            darts = list(range(1, n + 1))
            setup = [gens.load_line(3, n, mask, rws, [0] * (n + 1))]
            setup += gens.value_lines(rng, n, mask, dim=3, pv=rng.choice([1.0, 0.8, 0.3]), pa=rng.choice([1.0, 0.6, 0.2]))
            for _ in range(rng.choice([0, 1, 2, 3])):
                setup.append(gens.random_op3(rng, darts, alloc=False, weights=[1, 4, 0, 1], dims=(2, 2, 3)))
            ops = [gens.random_op3(rng, darts, force_p=0.0, alloc=False, weights=[2, 5, 1, 3]) for _ in range(rng.randint(1, 4))]
            a, b = rng.choice(darts), rng.choice(darts)
            ops.append(f"sew 3 {a} {b}" if rng.random() < 0.6 and a != b else f"unsew 3 {a}")
            cases.append(tx_case(f"txf{c}", setup, ops, "tx-glued-faces"))
    return cases


def run(tier, seed):
    rng = random.Random(seed)
    STATS.clear()
    parts = []
    if tier == "quick":
        r = hv.campaign(all_glue_pairs_cases(rng), oracle_c05)
        r["stats"]["exhaustive"] = True
        parts.append(("every coinciding dart pair of every pair of cells: 3-sew, 3-unsew", r))
        parts.append(("polyhedra complexes (pairs, rings, rows): checked builds, gluings, round trips",
                      hv.campaign(polyhedra_cases(1400, rng), oracle_c05)))
        r = hv.campaign(faces_cases(rng, 2, None, 3), oracle_c05)
        r["stats"]["exhaustive"] = True
        parts.append(("closed glued faces <=2 faces x every sew/unsew, twin link", r))
        parts.append(("closed glued faces 3 faces (sample)", hv.campaign(faces_cases(rng, 3, 40, 1, frac=0.6), oracle_c05)))
        parts.append(("random sew/unsew histories", hv.campaign(histories(2500, rng), oracle_c05)))
        parts.append(("composed transactions ending in a 3-sew/3-unsew vs the same calls one by one",
                      hv.campaign(tx_cases(1200, rng), oracle_c05)))
    else:
        r = hv.campaign(all_glue_pairs_cases(rng) + all_glue_pairs_cases(rng, mask=13), oracle_c05)
        r["stats"]["exhaustive"] = True
        parts.append(("every coinciding dart pair of every pair of cells: 3-sew, 3-unsew", r))
        parts.append(("polyhedra complexes (pairs, rings, rows): checked builds, gluings, round trips",
                      hv.campaign(polyhedra_cases(14000, rng), oracle_c05)))
        r = hv.campaign(faces_cases(rng, 2, None, 25), oracle_c05)
        r["stats"]["exhaustive"] = True
        parts.append(("closed glued faces <=2 faces x every sew/unsew, twin link", r))
        parts.append(("closed glued faces 3 faces (sample)", hv.campaign(faces_cases(rng, 3, 120, 3), oracle_c05)))
        parts.append(("random sew/unsew histories", hv.campaign(histories(25000, rng, maxlen=20), oracle_c05)))
        parts.append(("composed transactions ending in a 3-sew/3-unsew vs the same calls one by one",
                      hv.campaign(tx_cases(12000, rng), oracle_c05)))
    res = hv.merge_results(parts)
    res["stats"]["oracle_counts"] = dict(sorted(STATS.items()))
    return res


def matches(known, v):
    """a known finding of C05 with matcher kind `one-sew-on-3-sewn-face` absorbs oracle failures (never model/implementation
    disagreements) of the data clauses of a 1-sew/1-unsew carrying the tag computed by `one_sew_signature`; anything else
    stays a violation"""
    if v.get("kind") != "oracle":
        return False
    fail = (v.get("replay") or {}).get("oracle_failure") or ""
    if (known.get("matcher") or {}).get("kind") == "one-sew-on-3-sewn-face":
        return fail.startswith("[1-sew-on-3-sewn-face] ")
    return False
